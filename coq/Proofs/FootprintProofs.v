(* FootprintProofs -- the write footprint of tset / tdel (C04):
   a stored object whose record (getstate) differs after the operation was
   announced by an event of that operation (marked).
   Structure: (1) lists / successor; (2) subtrees, shallow equality of nodes,
   getstate by shallow data; (3) facts from Inv; (4) tset: local induction
   (every node of the result is an old node with equal shallow data, or new,
   or marked; the leaf sequence gains at most one fresh id right after a
   marked leaf); (5) tdel likewise (the leaf sequence loses at most one id
   whose predecessor is marked); (6) the two theorems.  No axioms. *)
From Coq Require Import ZArith List Bool Arith Lia.
From BT Require Import Model.RTree Model.TreeSpec Model.Check Model.CheckTree
                       Model.Persist Model.PersistSpec
                       Proofs.TreeBase Proofs.TreeSetProofs Proofs.TreeDelProofs.
Import ListNotations.
Local Open Scope nat_scope.

(* ================================================================== *)
(* 1. lists and successors                                             *)
(* ================================================================== *)
Lemma hd_match : forall (r : list nat),
  match r with [] => None | y :: _ => Some y end = hd_error r.
Proof. destruct r; reflexivity. Qed.

Lemma succ_split : forall A y B, ~ In y A -> succ_of (A ++ y :: B) y = hd_error B.
Proof.
  induction A as [|a A IH]; simpl; intros y B H.
  - rewrite Nat.eqb_refl. apply hd_match.
  - destruct (Nat.eqb a y) eqn:E.
    + apply Nat.eqb_eq in E. subst. exfalso. apply H. left. reflexivity.
    + apply IH. intro. apply H. right. assumption.
Qed.

Lemma hd_error_app : forall (A B B' : list nat),
  hd_error B = hd_error B' -> hd_error (A ++ B) = hd_error (A ++ B').
Proof. destruct A; simpl; auto. Qed.

Lemma NoDup_app_l : forall (A B : list nat), NoDup (A ++ B) -> NoDup A.
Proof.
  induction A; simpl; intros; [constructor|]. inversion H; subst. constructor.
  - intro. apply H2. apply in_or_app. left. assumption.
  - eapply IHA. eassumption.
Qed.
Lemma NoDup_app_r : forall (A B : list nat), NoDup (A ++ B) -> NoDup B.
Proof. induction A; simpl; intros; auto. inversion H; subst. auto. Qed.
Lemma NoDup_app_disj : forall (A B : list nat) x, NoDup (A ++ B) -> In x A -> In x B -> False.
Proof.
  induction A; simpl; intros; [contradiction|]. inversion H; subst. destruct H0.
  - subst. apply H4. apply in_or_app. right. assumption.
  - eapply IHA; eassumption.
Qed.

(* in a duplicate-free list an element splits it with the element absent from the prefix *)
Lemma NoDup_split : forall (L : list nat) y, NoDup L -> In y L ->
  exists A B, L = A ++ y :: B /\ ~ In y A /\ ~ In y B.
Proof.
  intros L y ND H. apply in_split in H. destruct H as (A & B & ->).
  exists A, B. split; [reflexivity|]. split; intro H.
  - eapply NoDup_app_disj; [exact ND | exact H | left; reflexivity].
  - apply NoDup_app_r in ND. inversion ND; subst. contradiction.
Qed.

Lemma inj_on_NoDup : forall (A : Type) (f : A -> nat) (l : list A) a b,
  NoDup (map f l) -> In a l -> In b l -> f a = f b -> a = b.
Proof.
  induction l as [|x l IH]; simpl; intros a b ND Ha Hb E; [contradiction|].
  inversion ND; subst. destruct Ha as [->|Ha], Hb as [->|Hb]; auto.
  - exfalso. apply H1. rewrite E. apply in_map. assumption.
  - exfalso. apply H1. rewrite <- E. apply in_map. assumption.
Qed.

Lemma last_app_ne : forall (A B : list nat) d, B <> [] -> last (A ++ B) d = last B d.
Proof.
  induction A; simpl; intros; auto. destruct (A ++ B) eqn:E.
  - apply app_eq_nil in E. destruct E. contradiction.
  - rewrite <- E. apply IHA. assumption.
Qed.

(* ================================================================== *)
(* 2. subtrees, shallow data, getstate                                 *)
(* ================================================================== *)
Section FP.
Variable V : Type.
Notation tree := (tree V).
Notation tid := (RTree.tid V).
Notation tsize := (RTree.tsize V).
Notation is_leaf := (RTree.is_leaf V).
Notation lids := (leaf_ids V).
Notation first_leaf := (Persist.first_leaf V).
Notation find_node := (Persist.find_node V).
Notation ids := (TreeSpec.ids V).

Fixpoint subs (t : tree) : list tree :=
  t :: match t with
       | Leaf _ _ => []
       | Node _ kids => flat_map (fun sc => subs (snd sc)) kids
       end.
Definition ksubs (kids : list (Z * tree)) : list tree := flat_map (fun sc => subs (snd sc)) kids.
Definition klids (kids : list (Z * tree)) : list nat := flat_map (fun sc => lids (snd sc)) kids.

Lemma subs_Node : forall i kids, subs (Node i kids) = Node i kids :: ksubs kids.
Proof. reflexivity. Qed.
Lemma subs_self : forall t, In t (subs t).
Proof. destruct t; left; reflexivity. Qed.
Lemma ksubs_app : forall a b, ksubs (a ++ b) = ksubs a ++ ksubs b.
Proof. intros. apply flat_map_app. Qed.
Lemma klids_app : forall a b, klids (a ++ b) = klids a ++ klids b.
Proof. intros. apply flat_map_app. Qed.
Lemma ksubs_cons : forall s c r, ksubs ((s, c) :: r) = subs c ++ ksubs r.
Proof. reflexivity. Qed.
Lemma klids_cons : forall s c r, klids ((s, c) :: r) = lids c ++ klids r.
Proof. reflexivity. Qed.
Lemma ksubs_in : forall kids s c n, In (s, c) kids -> In n (subs c) -> In n (ksubs kids).
Proof. intros. apply in_flat_map. exists (s, c). auto. Qed.

Lemma lids_Node : forall i kids, lids (Node i kids) = klids kids.
Proof.
  intros. unfold leaf_ids. simpl. induction kids as [|[s c] r IH]; [reflexivity|].
  simpl. rewrite map_app, IH. reflexivity.
Qed.
Lemma lids_Leaf : forall i l, lids (Leaf i l) = [i].
Proof. reflexivity. Qed.

Lemma ids_subs : forall t, ids t = map tid (subs t).
Proof.
  induction t as [i l|i kids IH] using (tree_ind' V); [reflexivity|].
  simpl. f_equal. induction IH as [|[s c] r H _ IH2]; [reflexivity|].
  simpl in H |- *. rewrite map_app, <- H. f_equal. exact IH2.
Qed.

Lemma find_node_subs : forall t i n, find_node t i = Some n -> In n (subs t) /\ tid n = i.
Proof.
  induction t as [j l|j kids IH] using (tree_ind' V); intros i n H.
  - simpl in H. destruct (Nat.eqb j i) eqn:E; [|discriminate].
    inversion H; subst. apply Nat.eqb_eq in E. split; [left; reflexivity | exact E].
  - simpl in H. destruct (Nat.eqb j i) eqn:E.
    + inversion H; subst. apply Nat.eqb_eq in E. split; [left; reflexivity | exact E].
    + rewrite subs_Node. clear E.
      assert (A : In n (ksubs kids) /\ tid n = i); [|destruct A; split; [right|]; assumption].
      induction IH as [|[s c] r Hc _ IH2]; [discriminate|]. simpl in Hc.
      destruct (find_node c i) as [x|] eqn:F.
      * inversion H; subst. destruct (Hc _ _ F). split; [|assumption].
        rewrite ksubs_cons. apply in_or_app. left. assumption.
      * destruct (IH2 H) as [H1 H2]. split; [|assumption].
        rewrite ksubs_cons. apply in_or_app. right. assumption.
Qed.

Lemma subs_unique : forall t n m, NoDup (ids t) -> In n (subs t) -> In m (subs t) ->
  tid n = tid m -> n = m.
Proof. intros t n m ND. rewrite ids_subs in ND. eapply inj_on_NoDup; eassumption. Qed.

Lemma subs_ids : forall t n, In n (subs t) -> In (tid n) (ids t).
Proof. intros. rewrite ids_subs. apply in_map. assumption. Qed.

(* proper subtrees of a child are proper subtrees of the parent *)
Lemma subs_child : forall i kids s c n, In (s, c) kids -> In n (subs c) -> In n (tl (subs (Node i kids))).
Proof. intros. rewrite subs_Node. simpl. eapply ksubs_in; eassumption. Qed.
Lemma tl_subs : forall t n, In n (tl (subs t)) -> In n (subs t).
Proof. intros. destruct t; simpl in *; auto. Qed.

(* ---------- getstate through the in-order leaf sequence ---------- *)
Definition getstate' (stored : list nat) (L : list nat) (n : tree) : record V :=
  match n with
  | Leaf i items => RLeaf items (succ_of L i)
  | Node _ [] => REmpty
  | Node _ [(_, Leaf l items)] =>
    if mem l stored then RNode [(0%Z, l)] (Some l) else REmbedded items (succ_of L l)
  | Node _ kids => RNode (map (fun sc => (fst sc, tid (snd sc))) kids) (first_leaf n)
  end.
Lemma getstate_eq : forall stored root n, getstate V stored root n = getstate' stored (lids root) n.
Proof. reflexivity. Qed.

(* shallow data of a children list: separators, child ids, child kinds *)
Definition ksig (kids : list (Z * tree)) : list (Z * nat * bool) :=
  map (fun sc => (fst sc, tid (snd sc), is_leaf (snd sc))) kids.
Definition kfirst (kids : list (Z * tree)) : option nat :=
  match kids with [] => None | (_, c) :: _ => first_leaf c end.
(* the node's record embeds its single child *)
Definition embk (stored : list nat) (kids : list (Z * tree)) : bool :=
  match kids with [(_, Leaf l _)] => negb (mem l stored) | _ => false end.
Definition embn (stored : list nat) (n : tree) : bool :=
  match n with Node _ kids => embk stored kids | Leaf _ _ => false end.

Definition shallow_eq (stored : list nat) (n n' : tree) : Prop :=
  match n, n' with
  | Leaf _ l, Leaf _ l' => l = l'
  | Node _ kids, Node _ kids' =>
    ksig kids = ksig kids' /\ kfirst kids = kfirst kids' /\ (embk stored kids = true -> kids = kids')
  | _, _ => False
  end.
Lemma shallow_refl : forall stored n, shallow_eq stored n n.
Proof. destruct n; simpl; auto. Qed.

Lemma first_leaf_Node : forall i kids, first_leaf (Node i kids) = kfirst kids.
Proof. reflexivity. Qed.
Lemma ksig_length : forall a b, ksig a = ksig b -> length a = length b.
Proof. intros a b H. apply (f_equal (@length _)) in H. unfold ksig in H. rewrite !map_length in H. exact H. Qed.

Lemma gs_node_eq : forall stored L L' i i' kids kids',
  ksig kids = ksig kids' -> kfirst kids = kfirst kids' -> embk stored kids = false ->
  getstate' stored L (Node i kids) = getstate' stored L' (Node i' kids').
Proof.
  intros stored L L' i i' kids kids' Hs Hf He.
  destruct kids as [|[s c] [|[s2 c2] r]]; destruct kids' as [|[s' c'] [|[s2' c2'] r']];
    try discriminate; try reflexivity.
  - simpl in Hs. inversion Hs; subst. destruct c as [l it|j ck]; destruct c' as [l' it'|j' ck'];
      simpl in *; try discriminate.
    + subst l'. apply negb_false_iff in He. rewrite He. reflexivity.
    + subst j'. rewrite Hf. reflexivity.
  - assert (E : map (fun sc : Z * tree => (fst sc, tid (snd sc))) ((s, c) :: (s2, c2) :: r) =
                map (fun sc : Z * tree => (fst sc, tid (snd sc))) ((s', c') :: (s2', c2') :: r')).
    { unfold ksig in Hs. apply (f_equal (map fst)) in Hs. rewrite !map_map in Hs. exact Hs. }
    unfold getstate'. rewrite E, !first_leaf_Node, Hf. destruct c, c'; reflexivity.
Qed.

Lemma embk_inv : forall stored kids, embk stored kids = true ->
  exists s l items, kids = [(s, Leaf l items)] /\ mem l stored = false.
Proof.
  intros stored kids H. destruct kids as [|[s [l it|j ck]] [|x r]]; try discriminate.
  simpl in H. apply negb_true_iff in H. eauto.
Qed.

(* equal shallow data and equal successors of the leaves involved give equal records *)
Lemma gs_shallow : forall stored L L' n n',
  shallow_eq stored n n' ->
  (forall i l, n = Leaf i l -> succ_of L i = succ_of L' (tid n')) ->
  (forall i s l items, n = Node i [(s, Leaf l items)] -> mem l stored = false ->
                       succ_of L l = succ_of L' l) ->
  getstate' stored L n = getstate' stored L' n'.
Proof.
  intros stored L L' n n' Hs Hl He. destruct n as [i l|i kids]; destruct n' as [i' l'|i' kids'];
    simpl in Hs; try contradiction.
  - subst l'. simpl. rewrite (Hl i l eq_refl). reflexivity.
  - destruct Hs as (H1 & H2 & H3). destruct (embk stored kids) eqn:E.
    + specialize (H3 eq_refl). subst kids'. destruct (embk_inv _ _ E) as (s & l & items & -> & Hm).
      simpl. rewrite Hm. rewrite (He i s l items eq_refl Hm). reflexivity.
    + apply gs_node_eq; assumption.
Qed.

(* ================================================================== *)
(* 3. what the proofs use of the invariant and of the guard            *)
(* ================================================================== *)
Variables ml mi : nat.
Hypothesis Hml : 1 <= ml.
Hypothesis Hmi : 2 <= mi.
Notation size_ok := (TreeBase.size_ok V ml mi).
Notation max_for := (RTree.max_for V ml mi).
Notation WFbody := (TreeBase.WFbody V ml mi).
Notation WFkids := (TreeBase.WFkids V ml mi).

(* every proper subtree has a legal non-root size / does not embed *)
Definition szb (t : tree) : Prop := forall n, In n (tl (subs t)) -> size_ok n.
Definition nemb (stored : list nat) (t : tree) : Prop :=
  forall n, In n (tl (subs t)) -> embn stored n = false.

Lemma szb_child : forall i kids s c, szb (Node i kids) -> In (s, c) kids -> size_ok c /\ szb c.
Proof.
  intros i kids s c H Hin. split.
  - apply H. eapply subs_child; [exact Hin | apply subs_self].
  - intros n Hn. apply H. eapply subs_child; [exact Hin | apply tl_subs; exact Hn].
Qed.
Lemma nemb_child : forall stored i kids s c, nemb stored (Node i kids) -> In (s, c) kids ->
  embn stored c = false /\ nemb stored c.
Proof.
  intros stored i kids s c H Hin. split.
  - apply H. eapply subs_child; [exact Hin | apply subs_self].
  - intros n Hn. apply H. eapply subs_child; [exact Hin | apply tl_subs; exact Hn].
Qed.

Lemma WFkids_child : forall lf d first lo hi l s c,
  WFkids lf d first lo hi l -> In (s, c) l -> size_ok c /\ exists lo' hi', WFbody lo' hi' c.
Proof.
  intros lf d first lo hi l s c. revert first lo.
  induction l as [|[s0 c0] r IH]; intros first lo H Hin; [contradiction|].
  apply WFkids_inv in H. destruct H as (_ & _ & _ & Hs & Hb & Hr).
  destruct Hin as [E|Hin].
  - inversion E; subst. split; [assumption | eauto].
  - eapply IH; eassumption.
Qed.

Lemma subs_inv : forall t n, In n (subs t) -> n = t \/ In n (tl (subs t)).
Proof. intros t n H. destruct t; simpl in *; destruct H; auto. Qed.

Lemma WFbody_szb : forall t lo hi, WFbody lo hi t -> szb t.
Proof.
  induction t as [i l|i kids IH] using (tree_ind' V); intros lo hi W n Hn; [contradiction|].
  apply WFbody_Node_inv in W. destruct W as (lf & d & W).
  rewrite subs_Node in Hn. simpl in Hn. apply in_flat_map in Hn.
  destruct Hn as ([s c] & Hin & Hn). simpl in Hn.
  destruct (WFkids_child _ _ _ _ _ _ _ _ W Hin) as (Hs & lo' & hi' & Wc).
  apply subs_inv in Hn. destruct Hn as [->|Hn]; [assumption|].
  rewrite Forall_forall in IH. exact (IH _ Hin lo' hi' Wc _ Hn).
Qed.

Lemma no_embed_nemb : forall stored t b, no_embed_below V b stored t ->
  nemb stored t /\ (b = false -> embn stored t = false).
Proof.
  intros stored. induction t as [i l|i kids IH] using (tree_ind' V); intros b H.
  - split; [intros n Hn; contradiction | reflexivity].
  - simpl in H. destruct H as [H0 H]. split.
    + clear H0. intros n Hn. rewrite subs_Node in Hn. simpl in Hn.
      induction IH as [|[s c] r Hc _ IH2]; [contradiction|].
      destruct H as [H1 H2]. rewrite ksubs_cons in Hn. apply in_app_or in Hn.
      destruct Hn as [Hn|Hn]; [|apply IH2; assumption].
      simpl in Hc. destruct (Hc false H1) as [Ha Hb].
      apply subs_inv in Hn. destruct Hn as [->|Hn]; [apply Hb; reflexivity | apply Ha; exact Hn].
    + intros ->. simpl. destruct kids as [|[s [l it|j ck]] [|x r]]; try reflexivity.
      destruct H0 as [H0|H0]; [discriminate|]. simpl. rewrite H0. reflexivity.
Qed.

(* ================================================================== *)
(* 4. tset                                                             *)
(* ================================================================== *)
Lemma marked_incl : forall stored ev ev' i, incl ev ev' -> marked stored ev i -> marked stored ev' i.
Proof.
  intros stored ev ev' i H [M|(l & M & Hl)]; [left; apply H; exact M|].
  right. exists l. split; [apply H; exact M | exact Hl].
Qed.

(* a node n' of the result is an old node with equal shallow data, or new, or marked *)
Definition old_or_marked (stored : list nat) (ev : list event) (fresh : nat)
           (olds : list tree) (n' : tree) : Prop :=
  (exists n, In n olds /\ tid n = tid n' /\ shallow_eq stored n n') \/
  fresh <= tid n' \/ marked stored ev (tid n').
Lemma oom_mono : forall stored ev ev' fresh olds olds' n',
  incl olds olds' -> incl ev ev' ->
  old_or_marked stored ev fresh olds n' -> old_or_marked stored ev' fresh olds' n'.
Proof.
  intros stored ev ev' fresh olds olds' n' Ho He [(n & H1 & H2)|[H|H]].
  - left. exists n. split; [apply Ho; exact H1 | exact H2].
  - right. left. exact H.
  - right. right. eapply marked_incl; eassumption.
Qed.
Lemma oom_old : forall stored ev fresh olds n', In n' olds -> old_or_marked stored ev fresh olds n'.
Proof. intros. left. exists n'. split; [assumption|]. split; [reflexivity | apply shallow_refl]. Qed.

(* the leaf sequence after an insertion: unchanged, or one fresh id right after a marked leaf *)
Definition Rs (ev : list event) (f0 f1 : nat) (L L' : list nat) : Prop :=
  L' = L \/
  exists A x f B, L = A ++ x :: B /\ L' = A ++ x :: f :: B /\ f0 <= f < f1 /\ In (EChanged x) ev.
Lemma Rs_ctx : forall ev ev' f0 f1 f1' L L' X Y,
  Rs ev f0 f1 L L' -> incl ev ev' -> f1 <= f1' ->
  Rs ev' f0 f1' (X ++ L ++ Y) (X ++ L' ++ Y).
Proof.
  intros ev ev' f0 f1 f1' L L' X Y [->|(A & x & f & B & -> & -> & Hf & Hx)] He H1; [left; reflexivity|].
  right. exists (X ++ A), x, f, (B ++ Y). repeat split.
  - rewrite <- !app_assoc. reflexivity.
  - rewrite <- !app_assoc. reflexivity.
  - lia.
  - lia.
  - apply He. exact Hx.
Qed.

Lemma Rs_succ : forall ev f0 f1 L L', Rs ev f0 f1 L L' -> NoDup L -> (forall y, In y L -> y < f0) ->
  forall y, In y L -> succ_of L y = succ_of L' y \/ In (EChanged y) ev.
Proof.
  intros ev f0 f1 L L' [->|(A & x & f & B & -> & -> & Hf & Hx)] ND Hlt y Hy; [left; reflexivity|].
  destruct (Nat.eq_dec y x) as [->|Ne]; [right; exact Hx|]. left.
  assert (Hyf : y <> f) by (specialize (Hlt y Hy); lia).
  apply in_app_or in Hy. destruct Hy as [Hy|[Hy|Hy]]; [|congruence|].
  - destruct (NoDup_split A y (NoDup_app_l _ _ ND) Hy) as (A1 & A2 & -> & H1 & _).
    rewrite <- !app_assoc. simpl. rewrite !succ_split by assumption.
    destruct A2; reflexivity.
  - assert (NA : ~ In y A) by (intro; eapply NoDup_app_disj; [exact ND | eassumption | right; exact Hy]).
    apply NoDup_app_r in ND. inversion ND; subst.
    destruct (NoDup_split B y H2 Hy) as (B1 & B2 & -> & H3 & _).
    assert (E1 : A ++ x :: B1 ++ y :: B2 = (A ++ x :: B1) ++ y :: B2)
      by (rewrite <- app_assoc; reflexivity).
    assert (E2 : A ++ x :: f :: B1 ++ y :: B2 = (A ++ x :: f :: B1) ++ y :: B2)
      by (rewrite <- app_assoc; reflexivity).
    rewrite E1, E2, !succ_split; [reflexivity| |].
    + intro H. apply in_app_or in H. destruct H as [H|[H|[H|H]]]; auto; congruence.
    + intro H. apply in_app_or in H. destruct H as [H|[H|H]]; auto; congruence.
Qed.

Lemma kfirst_firstn : forall h (l : list (Z * tree)), 1 <= h -> kfirst (firstn h l) = kfirst l.
Proof. intros h l H. destruct h; [lia|]. destruct l; reflexivity. Qed.
Lemma ksubs_firstn : forall h (l : list (Z * tree)), incl (ksubs (firstn h l)) (ksubs l).
Proof.
  intros h l x H. rewrite <- (firstn_skipn h l), ksubs_app. apply in_or_app. left. exact H.
Qed.
Lemma ksubs_skipn : forall h (l : list (Z * tree)), incl (ksubs (skipn h l)) (ksubs l).
Proof.
  intros h l x H. rewrite <- (firstn_skipn h l), ksubs_app. apply in_or_app. right. exact H.
Qed.
Lemma klids_halves : forall h (l : list (Z * tree)), klids (firstn h l) ++ klids (skipn h l) = klids l.
Proof. intros. rewrite <- klids_app, firstn_skipn. reflexivity. Qed.
Lemma div2_ge1 : forall n, 2 <= n -> 1 <= Nat.div2 n.
Proof. intros n H. destruct n as [|[|n]]; simpl; lia. Qed.

Lemma lset_StNone : forall veq vs (l : list (Z * V)) k v iu l' rv,
  lset V veq vs l k v iu = (l', StNone, rv) -> l' = l.
Proof.
  induction l as [|[k' v'] r IH]; simpl; intros k v iu l' rv H; [discriminate|].
  destruct (k ?= k')%Z.
  - destruct (iu || vs && veq v v'); inversion H; reflexivity.
  - discriminate.
  - destruct (lset V veq vs r k v iu) as [[r' st] rv'] eqn:E. inversion H; subst.
    f_equal. eapply IH. exact E.
Qed.

Section SetFP.
Variable veq : V -> V -> bool.
Variable vs : bool.
Variable stored : list nat.
Notation tset := (RTree.tset V veq vs ml mi).
Notation tset_go := (TreeSetProofs.tset_go V veq vs ml mi).

Definition fset_post (fresh : nat) (t : tree) (r : sres V) : Prop :=
  let t' := s_tree r in
  fresh <= s_fresh r /\
  tid t' = tid t /\ is_leaf t' = is_leaf t /\
  first_leaf t' = first_leaf t /\
  Rs (s_ev r) fresh (s_fresh r) (lids t) (lids t') /\
  (is_leaf t = true -> s_st r <> StNone -> In (EChanged (tid t)) (s_ev r)) /\
  (s_st r = StNone -> t' = t) /\
  (tsize t' = tsize t \/ In (EChanged (tid t)) (s_ev r)) /\
  (forall n', In n' (subs t') -> old_or_marked stored (s_ev r) fresh (subs t) n').

(* what is assumed of a subtree: non-empty, proper subtrees of legal size, no embedding below *)
Definition fset_pre (t : tree) : Prop := 1 <= tsize t /\ szb t /\ nemb stored t.
Definition fset_ok (t : tree) : Prop :=
  forall fresh k v iu, fset_pre t -> fset_post fresh t (tset fresh t k v iu).

Definition fgo_post (i : nat) (single : bool) (fresh : nat) (l : list (Z * tree))
           (res : list (Z * tree) * status * option V * list event * nat * bool) : Prop :=
  let '(l1, st, rv, ev, f', g) := res in
  fresh <= f' /\
  kfirst l1 = kfirst l /\
  (g = false -> ksig l1 = ksig l) /\
  (g = true -> In (EChanged i) ev) /\
  Rs ev fresh f' (klids l) (klids l1) /\
  (st = StNone -> l1 = l /\ g = false) /\
  (st <> StNone -> single = true -> forall s c, l = [(s, c)] -> is_leaf c = true ->
                   In (EEmbed i (tid c)) ev) /\
  (forall n', In n' (ksubs l1) -> old_or_marked stored ev fresh (ksubs l) n').

Lemma fset_ok_Leaf : forall i l, fset_ok (Leaf i l).
Proof.
  intros i l fresh k v iu _. unfold fset_post. simpl.
  destruct (lset V veq vs l k v iu) as [[l' st] rv] eqn:E. simpl.
  split; [lia|]. split; [reflexivity|]. split; [reflexivity|]. split; [reflexivity|].
  split; [left; reflexivity|].
  split; [intros _ H; destruct st; [congruence | left; reflexivity | left; reflexivity]|].
  split; [intros ->; f_equal; eapply lset_StNone; exact E|].
  assert (D : st = StNone \/ In (EChanged i) (match st with StNone => [] | _ => [EChanged i] end))
    by (destruct st; [left; reflexivity | right; left; reflexivity | right; left; reflexivity]).
  destruct D as [->|D].
  - apply lset_StNone in E. subst l'. split; [left; reflexivity|].
    intros n' [<-|[]]. apply oom_old. left. reflexivity.
  - split; [right; exact D|]. intros n' [<-|[]]. right. right. left. exact D.
Qed.

Lemma fgo_replace : forall i single fresh s c rest r emb,
  fset_post fresh c r ->
  (s_st r <> StNone -> is_leaf c = true -> single = true -> In (EEmbed i (tid c)) emb) ->
  fgo_post i single fresh ((s, c) :: rest)
          ((s, s_tree r) :: rest, s_st r, s_val r, s_ev r ++ emb, s_fresh r, false).
Proof.
  intros i single fresh s c rest r emb (P1 & P2 & P3 & P4 & P5 & P6 & P7 & P8 & P9) Hemb.
  unfold fgo_post. split; [exact P1|]. split; [exact P4|].
  split; [intros _; simpl; rewrite P2, P3; reflexivity|].
  split; [discriminate|].
  split. { rewrite !klids_cons. apply (Rs_ctx _ _ _ _ _ _ _ [] (klids rest) P5); [apply incl_appl, incl_refl | lia]. }
  split; [intros H; rewrite (P7 H); auto|].
  split.
  { intros Hst Hsg s0 c0 E Hl. inversion E; subst. apply in_or_app. right. apply Hemb; auto. }
  intros n' Hn. rewrite ksubs_cons in Hn. apply in_app_or in Hn. destruct Hn as [Hn|Hn].
  - eapply oom_mono; [| |apply P9; exact Hn].
    + rewrite ksubs_cons. apply incl_appl, incl_refl.
    + apply incl_appl, incl_refl.
  - apply oom_old. rewrite ksubs_cons. apply in_or_app. right. exact Hn.
Qed.

Lemma fgo_grow : forall i single fresh s c rest r emb,
  fset_post fresh c r -> size_ok c ->
  s_st r <> StNone -> max_for (s_tree r) < tsize (s_tree r) ->
  (is_leaf c = true -> single = true -> In (EEmbed i (tid c)) emb) ->
  fgo_post i single fresh ((s, c) :: rest)
          (let '(l', f', evg) := grow_at V (s_fresh r) s (s_tree r) rest in
           (l', St1, s_val r, s_ev r ++ EChanged i :: evg ++ emb, f', true)).
Proof.
  intros i single fresh s c rest r emb (P1 & P2 & P3 & P4 & P5 & P6 & P7 & P8 & P9) Hsz Hst Hgt Hemb.
  assert (Mc : In (EChanged (tid c)) (s_ev r)).
  { destruct P8 as [P8|P8]; [|exact P8]. exfalso.
    rewrite (max_for_eq V ml mi _ _ P3) in Hgt. unfold TreeBase.size_ok in Hsz. lia. }
  set (ev' := s_ev r ++ EChanged i :: [ENew (s_fresh r)] ++ emb).
  assert (I1 : incl (s_ev r) ev') by (apply incl_appl, incl_refl).
  unfold grow_at. destruct (split_node V (s_fresh r) (s_tree r)) as [a b] eqn:Esp.
  fold ev'. unfold fgo_post.
  assert (Hab : tid a = tid c /\ tid b = s_fresh r /\ first_leaf a = first_leaf c /\
                lids a ++ lids b = (if is_leaf c then [tid c; s_fresh r] else lids (s_tree r)) /\
                (is_leaf c = true -> lids c = [tid c]) /\
                incl (tl (subs a)) (subs (s_tree r)) /\ incl (tl (subs b)) (subs (s_tree r))).
  { destruct (s_tree r) as [j l'|j kk] eqn:Et; simpl in Esp; inversion Esp; subst a b; clear Esp;
      simpl in P2, P3; rewrite <- P3, <- P2; simpl.
    - rewrite <- P4. repeat split; try reflexivity; try (intros x []).
      intros _. destruct c; simpl in *; [subst; reflexivity | discriminate].
    - rewrite <- P4. unfold RTree.max_for in Hgt. simpl in Hgt.
      split; [reflexivity|]. split; [reflexivity|].
      split; [rewrite !first_leaf_Node; apply kfirst_firstn, div2_ge1; lia|].
      split; [rewrite !lids_Node; apply klids_halves|].
      split; [discriminate|].
      split; intros x Hx; right; [eapply ksubs_firstn | eapply ksubs_skipn]; exact Hx. }
  destruct Hab as (A1 & A2 & A3 & A4 & A5 & A6 & A7).
  split; [lia|]. split; [exact A3|]. split; [discriminate|].
  split; [intros _; apply in_or_app; right; left; reflexivity|].
  split.
  { rewrite !klids_cons, app_assoc, A4. destruct (is_leaf c) eqn:Lc.
    - rewrite (A5 eq_refl). right. exists [], (tid c), (s_fresh r), (klids rest).
      repeat split; try lia. apply I1. exact Mc.
    - apply (Rs_ctx _ _ _ _ _ _ _ [] (klids rest) P5 I1). lia. }
  split; [discriminate|].
  split.
  { intros _ Hsg s0 c0 E Hl. inversion E; subst. apply in_or_app. right. right.
    apply in_or_app. right. apply Hemb; auto. }
  assert (Hsub : forall n', In n' (subs (s_tree r)) ->
                 old_or_marked stored ev' fresh (ksubs ((s, c) :: rest)) n').
  { intros n' Hn. eapply oom_mono; [| exact I1 | apply P9; exact Hn].
    rewrite ksubs_cons. apply incl_appl, incl_refl. }
  intros n' Hn. rewrite !ksubs_cons in Hn. apply in_app_or in Hn.
  destruct Hn as [Hn|Hn]; [|apply in_app_or in Hn; destruct Hn as [Hn|Hn]].
  - apply subs_inv in Hn. destruct Hn as [->|Hn]; [|apply Hsub, A6, Hn].
    right. right. left. rewrite A1. apply I1. exact Mc.
  - apply subs_inv in Hn. destruct Hn as [->|Hn]; [|apply Hsub, A7, Hn].
    right. left. rewrite A2. exact P1.
  - apply oom_old. rewrite ksubs_cons. apply in_or_app. right. exact Hn.
Qed.

Lemma fgo_ok : forall i single fresh k v iu l,
  Forall (fun sc => fset_ok (snd sc)) l ->
  (forall s c, In (s, c) l -> size_ok c /\ szb c /\ nemb stored c) ->
  fgo_post i single fresh l (tset_go i single fresh k v iu l).
Proof.
  intros i single fresh k v iu l IH. induction IH as [|[s c] rest Hc _ IH2]; intros Hpre.
  - simpl. split; [lia|]. split; [reflexivity|]. split; [reflexivity|]. split; [discriminate|].
    split; [left; reflexivity|]. split; [auto|]. split; [congruence|]. intros n' [].
  - simpl in Hc. destruct (Hpre s c (or_introl eq_refl)) as (Hsz & Hszb & Hne).
    assert (Hpost : fset_post fresh c (tset fresh c k v iu)).
    { apply Hc. split; [unfold TreeBase.size_ok in Hsz; lia | auto]. }
    cbn [TreeSetProofs.tset_go]. destruct (chosen V k rest) eqn:Ch.
    + set (r := tset fresh c k v iu) in *.
      assert (Hemb : s_st r <> StNone -> is_leaf c = true -> single = true ->
                     In (EEmbed i (tid c))
                        (if is_leaf (s_tree r) && single then [EEmbed i (tid (s_tree r))] else [])).
      { intros _ Hl ->. destruct Hpost as (_ & P2 & P3 & _). rewrite P2, P3, Hl. left. reflexivity. }
      pose proof (fgo_replace i single fresh s c rest r _ Hpost Hemb) as G1.
      destruct (s_st r) eqn:Est.
      * pose proof (fgo_replace i single fresh s c rest r [] Hpost) as G0. rewrite Est in G0.
        apply G0. congruence.
      * exact G1.
      * destruct (max_for (s_tree r) <? tsize (s_tree r)) eqn:Elt; [|exact G1].
        apply Nat.ltb_lt in Elt.
        apply (fgo_grow i single fresh s c rest r _ Hpost Hsz); [congruence | exact Elt |].
        intros Hl Hs. apply Hemb; [congruence | exact Hl | exact Hs].
    + specialize (IH2 (fun s0 c0 H => Hpre s0 c0 (or_intror H))).
      destruct (tset_go i single fresh k v iu rest) as [[[[[l' st] rv] ev] f'] g].
      destruct IH2 as (Q1 & Q2 & Q3 & Q4 & Q5 & Q6 & Q7 & Q8).
      unfold fgo_post. split; [exact Q1|]. split; [reflexivity|].
      split; [intros Hg; simpl; rewrite (Q3 Hg); reflexivity|].
      split; [exact Q4|].
      split. { rewrite !klids_cons. pose proof (Rs_ctx _ _ _ _ _ _ _ (lids c) [] Q5 (incl_refl _) (le_n _)) as H.
               rewrite !app_nil_r in H. exact H. }
      split; [intros H; destruct (Q6 H) as [-> ->]; auto|].
      split.
      { intros _ _ s0 c0 E _. inversion E; subst. discriminate. }
      intros n' Hn. rewrite ksubs_cons in Hn. apply in_app_or in Hn. destruct Hn as [Hn|Hn].
      * apply oom_old. rewrite ksubs_cons. apply in_or_app. left. exact Hn.
      * eapply oom_mono; [| apply incl_refl | apply Q8; exact Hn].
        rewrite ksubs_cons. apply incl_appr, incl_refl.
Qed.

Lemma Rs_mono : forall ev ev' f0 f1 f1' L L',
  Rs ev f0 f1 L L' -> incl ev ev' -> f1 <= f1' -> Rs ev' f0 f1' L L'.
Proof.
  intros ev ev' f0 f1 f1' L L' H He Hf.
  pose proof (Rs_ctx _ _ _ _ _ _ _ [] [] H He Hf) as H'. simpl in H'. rewrite !app_nil_r in H'. exact H'.
Qed.

Lemma fset_ok_Node : forall i kids, Forall (fun sc => fset_ok (snd sc)) kids -> fset_ok (Node i kids).
Proof.
  intros i kids IH fresh k v iu (Hsz & Hszb & Hne).
  destruct kids as [|x r0]; [simpl in Hsz; lia|]. rewrite tset_Node.
  set (kids := x :: r0) in *. set (sg := length kids =? 1).
  assert (G : fgo_post i sg fresh kids (tset_go i sg fresh k v iu kids)).
  { apply fgo_ok; [exact IH|]. intros s c Hin.
    destruct (szb_child _ _ _ _ Hszb Hin) as [H1 H2].
    destruct (nemb_child _ _ _ _ _ Hne Hin) as [_ H3]. auto. }
  destruct (tset_go i sg fresh k v iu kids) as [[[[[l1 st] rv] ev1] f1] g].
  destruct G as (Q1 & Q2 & Q3 & Q4 & Q5 & Q6 & Q7 & Q8).
  assert (Hold : incl (ksubs kids) (subs (Node i kids))) by (intros z Hz; right; exact Hz).
  destruct (g && (2 * mi <=? length l1)) eqn:Eb.
  - apply andb_true_iff in Eb. destruct Eb as [-> Eb]. apply Nat.leb_le in Eb.
    specialize (Q4 eq_refl). unfold split_root. simpl split_node.
    set (h := Nat.div2 (length l1)). assert (Hh : 1 <= h) by (apply div2_ge1; lia).
    set (ev := ERead i :: ev1 ++ [ENew f1; ENew (S f1)]).
    assert (I1 : incl ev1 ev) by (apply incl_tl, incl_appl, incl_refl).
    unfold fset_post. cbn [s_tree s_st s_ev s_fresh]. fold ev.
    split; [lia|]. split; [reflexivity|]. split; [reflexivity|].
    split. { rewrite !first_leaf_Node. cbn [kfirst]. rewrite first_leaf_Node, kfirst_firstn by exact Hh. exact Q2. }
    split. { rewrite !lids_Node. simpl. rewrite !lids_Node, app_nil_r, klids_halves.
             apply (Rs_mono _ _ _ _ _ _ _ Q5 I1). lia. }
    split; [discriminate|].
    split; [intros H; destruct (Q6 H); discriminate|].
    split; [right; apply I1; exact Q4|].
    intros n' Hn. rewrite subs_Node in Hn. destruct Hn as [<-|Hn].
    { right. right. left. apply I1. exact Q4. }
    assert (Hk : forall z, In z (ksubs l1) -> old_or_marked stored ev fresh (subs (Node i kids)) z).
    { intros z Hz. eapply oom_mono; [exact Hold | exact I1 | apply Q8; exact Hz]. }
    simpl in Hn. rewrite app_nil_r in Hn.
    destruct Hn as [<-|Hn]; [right; left; simpl; lia|].
    apply in_app_or in Hn. destruct Hn as [Hn|[<-|Hn]].
    + apply Hk. eapply ksubs_firstn. exact Hn.
    + right. left. simpl. lia.
    + apply Hk. eapply ksubs_skipn. exact Hn.
  - set (ev := ERead i :: ev1). assert (I1 : incl ev1 ev) by (apply incl_tl, incl_refl).
    unfold fset_post. cbn [s_tree s_st s_ev s_fresh]. fold ev.
    split; [exact Q1|]. split; [reflexivity|]. split; [reflexivity|].
    split; [exact Q2|].
    split. { rewrite !lids_Node. apply (Rs_mono _ _ _ _ _ _ _ Q5 I1). lia. }
    split; [discriminate|].
    split; [intros H; destruct (Q6 H) as [-> _]; reflexivity|].
    assert (Hg : g = false \/ In (EChanged i) ev).
    { destruct g; [right; apply I1; apply Q4; reflexivity | left; reflexivity]. }
    split. { destruct Hg as [Hg|Hg]; [left|right; exact Hg]. change (length l1 = length kids). apply ksig_length. apply Q3, Hg. }
    intros n' Hn. rewrite subs_Node in Hn. destruct Hn as [<-|Hn].
    2:{ eapply oom_mono; [exact Hold | exact I1 | apply Q8; exact Hn]. }
    destruct Hg as [Hg|Hg]; [|right; right; left; exact Hg].
    assert (D : (embk stored kids = true -> l1 = kids) \/ marked stored ev i).
    { destruct (embk stored kids) eqn:Ee; [|left; discriminate].
      destruct (embk_inv _ _ Ee) as (s & l & items & Ek & Hm).
      assert (Dst : st = StNone \/ st <> StNone) by (destruct st; [left; reflexivity | right; discriminate | right; discriminate]).
      destruct Dst as [Dst|Dst]; [left; intros _; apply Q6; exact Dst|].
      right. right. exists l. split; [|exact Hm]. apply I1.
      apply (Q7 Dst) with (s := s) (c := Leaf l items); [|exact Ek|reflexivity].
      unfold sg. rewrite Ek. reflexivity. }
    destruct D as [D|D]; [|right; right; exact D].
    left. exists (Node i kids). split; [left; reflexivity|]. split; [reflexivity|].
    simpl. split; [symmetry; apply Q3, Hg|]. split; [symmetry; exact Q2|].
    intros H. symmetry. apply D, H.
Qed.

Lemma fset_ok_all : forall t, fset_ok t.
Proof.
  induction t as [i l|i kids IH] using (tree_ind' V); [apply fset_ok_Leaf | apply fset_ok_Node; exact IH].
Qed.

(* a root holding a single leaf announces every change of that leaf *)
Lemma set_embed_root : forall fresh i s l items k v iu,
  let r := tset fresh (Node i [(s, Leaf l items)]) k v iu in
  s_st r <> StNone -> In (EEmbed i l) (s_ev r).
Proof.
  intros fresh i s l items k v iu. rewrite tset_Node. cbn [TreeSetProofs.tset_go chosen].
  cbn [RTree.tset]. destruct (lset V veq vs items k v iu) as [[l' st] rv].
  cbn [s_st s_tree s_ev s_val s_fresh RTree.is_leaf RTree.tid length Nat.eqb andb].
  destruct st.
  - simpl. intros H. congruence.
  - simpl. intros _. right. right. left. reflexivity.
  - destruct (max_for (Leaf l l') <? tsize (Leaf l l')).
    + unfold grow_at. simpl split_node. cbv iota beta.
      destruct (true && (2 * mi <=? length [(s, Leaf l (firstn (Nat.div2 (length l')) l'));
                  (tmin0 V (Leaf fresh (skipn (Nat.div2 (length l')) l')),
                   Leaf fresh (skipn (Nat.div2 (length l')) l'))])).
      * unfold split_root. simpl. intros _. right. right. right. right. left. reflexivity.
      * simpl. intros _. right. right. right. right. left. reflexivity.
    + simpl. intros _. right. right. left. reflexivity.
Qed.

(* the leaf sequence inside the identities *)
Lemma lids_filter : forall t, lids t = map tid (filter is_leaf (subs t)).
Proof.
  induction t as [i l|i kids IH] using (tree_ind' V); [reflexivity|].
  rewrite lids_Node, subs_Node. simpl.
  induction IH as [|[s c] r Hc _ IH2]; [reflexivity|].
  simpl in Hc. rewrite klids_cons, ksubs_cons, filter_app, map_app, <- Hc, <- IH2. reflexivity.
Qed.
Lemma NoDup_map_filter : forall (A : Type) (f : A -> nat) p (l : list A),
  NoDup (map f l) -> NoDup (map f (filter p l)).
Proof.
  induction l as [|a l IH]; simpl; intros H; [constructor|]. inversion H; subst.
  destruct (p a); simpl; [constructor|]; auto.
  intro Hin. apply H2. apply in_map_iff in Hin. destruct Hin as (x & E & Hx).
  apply filter_In in Hx. rewrite <- E. apply in_map. tauto.
Qed.
Lemma lids_NoDup : forall t, NoDup (ids t) -> NoDup (lids t).
Proof. intros t H. rewrite lids_filter. rewrite ids_subs in H. apply NoDup_map_filter. exact H. Qed.
Lemma lids_in_ids : forall t y, In y (lids t) -> In y (ids t).
Proof.
  intros t y H. rewrite lids_filter in H. rewrite ids_subs. apply in_map_iff in H.
  destruct H as (x & E & Hx). apply filter_In in Hx. rewrite <- E. apply in_map. tauto.
Qed.
Lemma leaf_in_lids : forall t i l, In (Leaf i l) (subs t) -> In i (lids t).
Proof.
  intros t i l H. rewrite lids_filter. change i with (tid (Leaf i l)). apply in_map.
  apply filter_In. split; [exact H | reflexivity].
Qed.

Theorem footprint_set_in : forall fresh t k v iu,
  Inv V ml mi t -> ids_ok V fresh t -> no_embed_below V true stored t ->
  (forall x, mem x stored = true -> x < fresh) ->
  let r := tset fresh t k v iu in
  forall i n n', mem i stored = true ->
    find_node t i = Some n -> find_node (s_tree r) i = Some n' ->
    getstate V stored t n <> getstate V stored (s_tree r) n' -> marked stored (s_ev r) i.
Proof.
  intros fresh t k v iu HI [ND Hlt] Hg Hst r i n n' Hi Fn Fn' Hneq.
  rewrite Forall_forall in Hlt.
  destruct (Inv_inv _ _ _ _ HI) as (i0 & kids & -> & [->|[Hlen Wt]]).
  - (* empty root *)
    simpl in Fn. destruct (i0 =? i) eqn:E; [|discriminate]. apply Nat.eqb_eq in E. subst i0.
    right. exists fresh. split; [simpl; auto|].
    destruct (mem fresh stored) eqn:Em; [|reflexivity]. apply Hst in Em. lia.
  - set (t := Node i0 kids) in *.
    assert (Hpre : fset_pre t).
    { split; [simpl; lia|]. split; [eapply WFbody_szb; exact Wt|]. apply (no_embed_nemb _ _ _ Hg). }
    destruct (fset_ok_all t fresh k v iu Hpre) as (P1 & P2 & P3 & P4 & P5 & P6 & P7 & P8 & P9).
    fold r in P1, P2, P3, P4, P5, P6, P7, P8, P9.
    apply find_node_subs in Fn. destruct Fn as [Sn Tn].
    apply find_node_subs in Fn'. destruct Fn' as [Sn' Tn'].
    assert (Hil : i < fresh) by (apply Hlt; rewrite <- Tn; apply subs_ids; exact Sn).
    destruct (P9 n' Sn') as [(n0 & S0 & T0 & Sh)|[H|H]]; [|lia|rewrite <- Tn'; exact H].
    assert (n0 = n) by (eapply subs_unique; [exact ND | exact S0 | exact Sn | congruence]). subst n0.
    (* successors of old leaves *)
    assert (Hsucc : forall y, In y (lids t) ->
              succ_of (lids t) y = succ_of (lids (s_tree r)) y \/ In (EChanged y) (s_ev r)).
    { apply (Rs_succ _ _ _ _ _ P5); [apply lids_NoDup; exact ND|].
      intros y Hy. apply Hlt. apply lids_in_ids. exact Hy. }
    destruct n as [j l|j nk].
    + (* a leaf *)
      simpl in Tn. subst j.
      destruct (Hsucc i (leaf_in_lids _ _ _ Sn)) as [Hs|Hs]; [|left; exact Hs].
      exfalso. apply Hneq. rewrite !getstate_eq. apply gs_shallow; [exact Sh| |discriminate].
      intros i1 l1 E. injection E as <- <-. rewrite Tn'. exact Hs.
    + (* a node: its record mentions a successor only if it embeds, i.e. it is the root *)
      destruct (embk stored nk) eqn:Ee.
      * assert (En : Node j nk = t).
        { apply subs_inv in Sn. destruct Sn as [Sn|Sn]; [exact Sn|].
          pose proof (proj1 (proj2 Hpre)) as _. pose proof (proj2 (proj2 Hpre) _ Sn) as Hc.
          simpl in Hc. congruence. }
        destruct (embk_inv _ _ Ee) as (s & l & items & Ek & Hm).
        assert (Dst : s_st r = StNone \/ s_st r <> StNone)
          by (destruct (s_st r); [left; reflexivity | right; discriminate | right; discriminate]).
        destruct Dst as [Dst|Dst].
        -- exfalso. apply Hneq. rewrite !getstate_eq, (P7 Dst).
           apply gs_shallow; [exact Sh | discriminate | reflexivity].
        -- right. exists l. split; [|exact Hm]. simpl in Tn. subst j.
           unfold r, t. inversion En; subst. apply set_embed_root. exact Dst.
      * exfalso. apply Hneq. rewrite !getstate_eq. apply gs_shallow; [exact Sh | discriminate|].
        intros i1 s l items E Hm. inversion E; subst. simpl in Ee. rewrite Hm in Ee. discriminate.
Qed.
End SetFP.

(* ================================================================== *)
(* 5. tdel                                                             *)
(* ================================================================== *)
(* the leaf sequence after a deletion: unchanged, or one id x removed; the
   predecessor of x is marked, unless x was the first (flag g, passed upwards) *)
Definition Rd (ev : list event) (g : bool) (L L' : list nat) : Prop :=
  (L' = L /\ g = false) \/
  exists A x B, L = A ++ x :: B /\ L' = A ++ B /\
    ((A = [] /\ g = true) \/ (A <> [] /\ g = false /\ In (EChanged (last A 0)) ev)).

Lemma last_snoc : forall (A : list nat) y d, last (A ++ [y]) d = y.
Proof. intros. rewrite last_app_ne by discriminate. reflexivity. Qed.

Lemma Rd_succ : forall ev g L L', Rd ev g L L' -> NoDup L ->
  forall y, In y L' -> succ_of L y = succ_of L' y \/ In (EChanged y) ev.
Proof.
  intros ev g L L' [[-> _]|(A & x & B & -> & -> & HA)] ND y Hy; [left; reflexivity|].
  assert (HxA : ~ In x A) by (intro; eapply NoDup_app_disj; [exact ND | eassumption | left; reflexivity]).
  assert (NDB : NoDup (x :: B)) by (eapply NoDup_app_r; exact ND).
  apply in_app_or in Hy. destruct Hy as [Hy|Hy].
  - destruct (NoDup_split A y (NoDup_app_l _ _ ND) Hy) as (A1 & A2 & EA & H1 & _).
    destruct A2 as [|a A2].
    + right. destruct HA as [[HA _]|(_ & _ & HA)]; [subst A; destruct A1; discriminate|].
      rewrite EA, last_snoc in HA. exact HA.
    + left. subst A. rewrite <- !app_assoc. simpl. rewrite !succ_split by assumption. reflexivity.
  - left. assert (NA : ~ In y A) by (intro; eapply NoDup_app_disj; [exact ND | eassumption | right; exact Hy]).
    inversion NDB; subst. assert (Nyx : y <> x) by congruence.
    destruct (NoDup_split B y H2 Hy) as (B1 & B2 & -> & H3 & _).
    assert (E1 : A ++ x :: B1 ++ y :: B2 = (A ++ x :: B1) ++ y :: B2)
      by (rewrite <- app_assoc; reflexivity).
    assert (E2 : A ++ B1 ++ y :: B2 = (A ++ B1) ++ y :: B2) by (rewrite <- app_assoc; reflexivity).
    rewrite E1, E2, !succ_split; [reflexivity| |].
    + intro H. apply in_app_or in H. destruct H as [H|H]; auto.
    + intro H. apply in_app_or in H. destruct H as [H|[H|H]]; auto.
Qed.

(* placing a subtree's change into its context: Lp = leaves before (within the
   responsibility of this level), Y = leaves after *)
Lemma Rd_ctx : forall evc ev gc g Lc Lc' Lp Y,
  Rd evc gc Lc Lc' -> incl evc ev ->
  (Lp = [] -> g = gc) ->
  (Lp <> [] -> g = false /\ (gc = true -> In (EChanged (last Lp 0)) ev)) ->
  Rd ev g (Lp ++ Lc ++ Y) (Lp ++ Lc' ++ Y).
Proof.
  intros evc ev gc g Lc Lc' Lp Y H He H0 H1.
  assert (Gf : gc = false -> g = false).
  { intros E. destruct Lp; [rewrite H0; auto | apply H1; discriminate]. }
  destruct H as [[-> Hg]|(A & x & B & -> & -> & HA)]; [left; auto|].
  right. exists (Lp ++ A), x, (B ++ Y). split; [rewrite <- !app_assoc; reflexivity|].
  split; [rewrite <- !app_assoc; reflexivity|].
  destruct HA as [[-> Hg]|(HA & Hg & Hin)].
  - rewrite app_nil_r. destruct Lp as [|a Lp]; [left; split; [reflexivity | rewrite H0; auto]|].
    right. destruct H1 as [H1 H2]; [discriminate|]. split; [discriminate|]. split; [exact H1 | exact (H2 Hg)].
  - right. split; [destruct Lp; [exact HA | discriminate]|]. split; [exact (Gf Hg)|].
    rewrite last_app_ne by exact HA. apply He. exact Hin.
Qed.

(* all subtrees non-empty *)
Definition pne (t : tree) : Prop := forall n, In n (subs t) -> 1 <= tsize n.
Lemma pne_of : forall t, size_ok t -> szb t -> pne t.
Proof.
  intros t H1 H2 n Hn. apply subs_inv in Hn. destruct Hn as [->|Hn].
  - unfold TreeBase.size_ok in H1. lia.
  - specialize (H2 n Hn). unfold TreeBase.size_ok in H2. lia.
Qed.
Lemma pne_child : forall i kids s c, pne (Node i kids) -> In (s, c) kids -> pne c.
Proof. intros i kids s c H Hin n Hn. apply H. apply tl_subs. eapply subs_child; eassumption. Qed.

Lemma lids_ne : forall t, pne t -> lids t <> [].
Proof.
  induction t as [i l|i kids IH] using (tree_ind' V); intros H; [discriminate|].
  rewrite lids_Node. pose proof (H _ (subs_self _)) as Hs. simpl in Hs.
  destruct kids as [|[s c] r]; [simpl in Hs; lia|].
  inversion IH; subst. simpl in H2. rewrite klids_cons. intro E. apply app_eq_nil in E.
  destruct E as [E _]. revert E. apply H2. eapply pne_child; [exact H | left; reflexivity].
Qed.

Lemma last_leaf_last : forall t, pne t -> last_leaf_id V t = last (lids t) 0.
Proof.
  induction t as [i l|i kids IH] using (tree_ind' V); intros H; [reflexivity|].
  rewrite lids_Node. pose proof (H _ (subs_self _)) as Hs. simpl in Hs.
  assert (Hk : forall s c, In (s, c) kids -> pne c) by (intros; eapply pne_child; eassumption).
  clear H. simpl.
  assert (G : forall l d, Forall (fun sc => pne (snd sc) -> last_leaf_id V (snd sc) = last (lids (snd sc)) 0) l ->
              (forall s c, In (s, c) l -> pne c) ->
              (fix go (l : list (Z * tree)) (d : nat) : nat :=
                 match l with [] => d | (_, c) :: rest => go rest (last_leaf_id V c) end) l d =
              match l with [] => d | _ => last (klids l) 0 end).
  { induction l as [|[s c] r IHl]; intros d F Hp; [reflexivity|].
    inversion F; subst. simpl in H1. rewrite IHl; [|assumption|intros; eapply Hp; right; eassumption].
    rewrite klids_cons. destruct r as [|[s2 c2] r2].
    - simpl. rewrite app_nil_r. apply H1. eapply Hp. left. reflexivity.
    - rewrite last_app_ne; [reflexivity|]. rewrite klids_cons. intro E. apply app_eq_nil in E.
      destruct E as [E _]. revert E. apply lids_ne. eapply Hp. right. left. reflexivity. }
  rewrite G by assumption. destruct kids; [simpl in Hs; lia | reflexivity].
Qed.

Ltac find_in :=
  match goal with
  | |- In _ (_ ++ _) => apply in_or_app; first [left; find_in | right; find_in]
  | |- In _ (_ :: _) => first [left; reflexivity | right; find_in]
  | |- _ => assumption
  end.

Definition elids (t : tree) : list nat := if tsize t =? 0 then [] else lids t.
Definition gone (r : dres V) : bool :=
  d_first r || (is_leaf (d_tree r) && (tsize (d_tree r) =? 0)).

(* the step of the delete loop at the chosen child, by cases *)
Lemma here_facts : forall i single k prev first s c rest r l' v ev fg,
  chosen V k rest = true -> tdel V c k = Some r ->
  del_go V i single k prev first ((s, c) :: rest) = Some (l', v, ev, fg) ->
  let c' := d_tree r in
  incl (d_ev r) ev /\
  fg = match prev with Some _ => false | None => gone r end /\
  (forall p, prev = Some p -> gone r = true -> In (EChanged (last_leaf_id V p)) ev) /\
  (prev = None -> gone r = true -> In (EChanged i) ev) /\
  (((tsize c' =? 0) = false /\ exists s', l' = (s', c') :: rest /\ (s' = s \/ In (EChanged i) ev)) \/
   ((tsize c' =? 0) = true /\ l' = rest /\ In (EChanged i) ev)) /\
  (is_leaf c' = true -> single = true -> In (EEmbed i (tid c')) ev).
Proof.
  intros i single k prev first s c rest r l' v ev fg Ch Et H c'.
  cbn [del_go] in H. rewrite Ch, Et in H. fold c' in H. unfold gone. fold c'.
  destruct (d_first r); destruct prev as [p|]; destruct (tsize c' =? 0) eqn:Ez;
    destruct (is_leaf c') eqn:El; destruct single; destruct first; destruct (k =? s)%Z;
    cbn in H; inversion H; subst; clear H; cbn;
    (split; [intros e He; find_in|]);
    (split; [reflexivity|]);
    (split; [intros p0 Hp Hg; try discriminate; inversion Hp; subst; find_in|]);
    (split; [intros Hp Hg; try discriminate; find_in|]);
    (split; [first [left; split; [reflexivity|]; eexists; split; [reflexivity|];
                    first [left; reflexivity | right; find_in]
                   | right; split; [reflexivity|]; split; [reflexivity|]; find_in]|]);
    intros Hl Hs; try discriminate; find_in.
Qed.

Section DelFP.
Variable stored : list nat.
Variable fresh : nat.    (* only a parameter of old_or_marked; deletion creates nothing *)

Definition del_post (t : tree) (r : dres V) : Prop :=
  let t' := d_tree r in
  tid t' = tid t /\ is_leaf t' = is_leaf t /\
  (gone r = false -> first_leaf t' = first_leaf t) /\
  Rd (d_ev r) (gone r) (lids t) (elids t') /\
  (forall i s c, t = Node i [(s, c)] -> is_leaf c = true -> In (EEmbed i (tid c)) (d_ev r)) /\
  (forall n', In n' (subs t') -> old_or_marked stored (d_ev r) fresh (subs t) n').
Definition del_ok (t : tree) : Prop :=
  forall k r, pne t -> tdel V t k = Some r -> del_post t r.

Definition dgo_post (i : nat) (single : bool) (prev : option tree) (l : list (Z * tree))
           (res : list (Z * tree) * V * list event * bool) : Prop :=
  let '(l', v, ev, fg) := res in
  let Lp := match prev with Some p => lids p | None => [] end in
  (prev <> None -> fg = false) /\
  Rd ev fg (Lp ++ klids l) (Lp ++ klids l') /\
  (prev = None -> fg = false -> kfirst l' = kfirst l) /\
  (prev = None -> fg = true -> In (EChanged i) ev) /\
  (ksig l' = ksig l \/ In (EChanged i) ev) /\
  (single = true -> forall s c, l = [(s, c)] -> is_leaf c = true -> In (EEmbed i (tid c)) ev) /\
  (forall n', In n' (ksubs l') -> old_or_marked stored ev fresh (ksubs l) n').

Lemma del_ok_Leaf : forall i l, del_ok (Leaf i l).
Proof.
  intros i l k r _ H. rewrite tdel_Leaf in H. destruct (ldel V l k) as [[l' v]|]; [|discriminate].
  inversion H; subst; clear H. unfold del_post, gone, elids. cbn.
  split; [reflexivity|]. split; [reflexivity|]. split; [reflexivity|].
  split.
  { destruct (length l' =? 0).
    - right. exists [], i, []. split; [reflexivity|]. split; [reflexivity|]. left. auto.
    - left. auto. }
  split; [discriminate|].
  intros n' [<-|[]]. right. right. left. left. reflexivity.
Qed.

Lemma elids_Node : forall i kids, elids (Node i kids) = klids kids.
Proof. intros. unfold elids. rewrite lids_Node. destruct kids; reflexivity. Qed.

Lemma dgo_ok : forall i single k l prev first res,
  Forall (fun sc => del_ok (snd sc)) l ->
  (forall s c, In (s, c) l -> pne c) ->
  (forall p, prev = Some p -> pne p) ->
  del_go V i single k prev first l = Some res -> dgo_post i single prev l res.
Proof.
  intros i single k l. induction l as [|[s c] rest IHl]; intros prev first res IH Hp Hprev H;
    [discriminate|].
  inversion IH as [|? ? Hc IHr]; subst. simpl in Hc.
  destruct res as [[[l' v] ev] fg].
  destruct (chosen V k rest) eqn:Ch.
  - destruct (tdel V c k) as [r|] eqn:Et; [|cbn [del_go] in H; rewrite Ch, Et in H; discriminate].
    assert (Pc : pne c) by (eapply Hp; left; reflexivity).
    destruct (Hc k r Pc Et) as (T1 & T2 & T3 & T4 & _ & T6).
    destruct (here_facts _ _ _ _ _ _ _ _ _ _ _ _ _ Ch Et H) as (F1 & F2 & F3 & F4 & F5 & F6).
    assert (Hl' : klids l' = elids (d_tree r) ++ klids rest).
    { unfold elids. destruct F5 as [(Ez & s' & -> & _)|(Ez & -> & _)]; rewrite Ez; reflexivity. }
    unfold dgo_post.
    split; [intros Hn; destruct prev; [exact F2 | congruence]|].
    split.
    { rewrite Hl', klids_cons. apply (Rd_ctx _ _ _ _ _ _ _ _ T4 F1).
      - intros E. destruct prev as [p|]; [|exact F2]. exfalso. revert E. apply lids_ne. eauto.
      - intros Hne. destruct prev as [p|]; [|congruence]. split; [exact F2|].
        intros Hg. rewrite <- last_leaf_last by eauto. eauto. }
    split.
    { intros -> ->. symmetry in F2. destruct F5 as [(Ez & s' & -> & _)|(Ez & -> & _)].
      - simpl. apply T3. exact F2.
      - exfalso. unfold elids in T4. rewrite Ez in T4. rewrite F2 in T4. pose proof (lids_ne _ Pc) as Hne.
        destruct T4 as [[E _]|(A & x & B & E1 & E2 & [[_ E3]|(E3 & _)])]; try congruence.
        symmetry in E2. apply app_eq_nil in E2. destruct E2. contradiction. }
    split; [intros -> ->; apply F4; auto|].
    split.
    { destruct F5 as [(Ez & s' & -> & [->|Hs])|(Ez & -> & Hs)]; [left|right; exact Hs|right; exact Hs].
      simpl. rewrite T1, T2. reflexivity. }
    split.
    { intros Hsg s0 c0 E Hl. inversion E; subst. rewrite <- T1. apply F6; [rewrite T2; exact Hl | reflexivity]. }
    intros n' Hn. destruct F5 as [(Ez & s' & -> & _)|(Ez & -> & _)].
    + rewrite ksubs_cons in Hn. apply in_app_or in Hn. destruct Hn as [Hn|Hn].
      * eapply oom_mono; [| exact F1 | apply T6; exact Hn]. rewrite ksubs_cons. apply incl_appl, incl_refl.
      * apply oom_old. rewrite ksubs_cons. apply in_or_app. right. exact Hn.
    + apply oom_old. rewrite ksubs_cons. apply in_or_app. right. exact Hn.
  - cbn [del_go] in H. rewrite Ch in H.
    destruct (del_go V i single k (Some c) false rest) as [[[[l2 v2] ev2] fg2]|] eqn:Er; [|discriminate].
    inversion H; subst; clear H.
    assert (Pc : pne c) by (eapply Hp; left; reflexivity).
    assert (G : dgo_post i single (Some c) rest (l2, v, ev, fg)).
    { eapply IHl; [exact IHr | intros; eapply Hp; right; eassumption | | exact Er].
      intros p E. inversion E; subst. exact Pc. }
    destruct G as (G1 & G2 & _ & _ & G5 & _ & G7).
    assert (Hfg : fg = false) by (apply G1; discriminate). subst fg.
    unfold dgo_post.
    split; [reflexivity|].
    split.
    { rewrite !klids_cons.
      pose proof (Rd_ctx _ ev _ false _ _ (match prev with Some p => lids p | None => [] end) []
                         G2 (incl_refl _)) as R.
      rewrite !app_nil_r in R. apply R; [reflexivity|]. intros _. split; [reflexivity | discriminate]. }
    split; [reflexivity|]. split; [discriminate|].
    split; [destruct G5 as [G5|G5]; [left; simpl; rewrite G5; reflexivity | right; exact G5]|].
    split; [intros _ s0 c0 E _; inversion E; subst; discriminate|].
    intros n' Hn. rewrite ksubs_cons in Hn. apply in_app_or in Hn. destruct Hn as [Hn|Hn].
    + apply oom_old. rewrite ksubs_cons. apply in_or_app. left. exact Hn.
    + eapply oom_mono; [| apply incl_refl | apply G7; exact Hn]. rewrite ksubs_cons. apply incl_appr, incl_refl.
Qed.

Lemma Rd_mono : forall ev ev' g L L', Rd ev g L L' -> incl ev ev' -> Rd ev' g L L'.
Proof.
  intros ev ev' g L L' H He.
  pose proof (Rd_ctx _ ev' _ g _ _ [] [] H He (fun _ => eq_refl)) as R.
  simpl in R. rewrite !app_nil_r in R. apply R. congruence.
Qed.

Lemma del_ok_Node : forall i kids, Forall (fun sc => del_ok (snd sc)) kids -> del_ok (Node i kids).
Proof.
  intros i kids IH k r Hp H. rewrite tdel_Node in H.
  destruct (del_go V i (length kids =? 1) k None true kids) as [[[[l' v] ev0] fg]|] eqn:Eg; [|discriminate].
  inversion H; subst; clear H.
  assert (G : dgo_post i (length kids =? 1) None kids (l', v, ev0, fg)).
  { eapply dgo_ok; [exact IH | intros; eapply pne_child; eassumption | discriminate | exact Eg]. }
  destruct G as (_ & G2 & G3 & G4 & G5 & G6 & G7). simpl in G2.
  set (ev := ERead i :: ev0). assert (I1 : incl ev0 ev) by (apply incl_tl, incl_refl).
  unfold del_post, gone. cbn [d_tree d_ev d_first RTree.is_leaf andb]. rewrite orb_false_r. fold ev.
  split; [reflexivity|]. split; [reflexivity|].
  split; [intros Hf; rewrite !first_leaf_Node; apply G3; auto|].
  split; [rewrite elids_Node, lids_Node; eapply Rd_mono; eassumption|].
  split.
  { intros i1 s c E Hl. inversion E; subst. apply I1. eapply G6; [reflexivity | reflexivity | exact Hl]. }
  intros n' Hn. rewrite subs_Node in Hn. destruct Hn as [<-|Hn].
  2:{ eapply oom_mono; [| exact I1 | apply G7; exact Hn]. intros z Hz. right. exact Hz. }
  destruct (embk stored kids) eqn:Ee.
  { destruct (embk_inv _ _ Ee) as (s & l & items & Ek & Hm). right. right. right.
    exists l. split; [|exact Hm]. apply I1. subst kids.
    apply (G6 eq_refl s (Leaf l items) eq_refl eq_refl). }
  destruct G5 as [G5|G5]; [|right; right; left; apply I1; exact G5].
  destruct fg; [right; right; left; apply I1; apply G4; reflexivity|].
  left. exists (Node i kids). split; [left; reflexivity|]. split; [reflexivity|].
  simpl. split; [symmetry; exact G5|]. split; [symmetry; apply G3; reflexivity|].
  rewrite Ee. discriminate.
Qed.

Lemma del_ok_all : forall t, del_ok t.
Proof.
  induction t as [i l|i kids IH] using (tree_ind' V); [apply del_ok_Leaf | apply del_ok_Node; exact IH].
Qed.

Theorem footprint_del_in : forall t k r,
  Inv V ml mi t -> ids_ok V fresh t -> no_embed_below V true stored t ->
  tdel V t k = Some r ->
  forall i n n', mem i stored = true ->
    find_node t i = Some n -> find_node (d_tree r) i = Some n' ->
    getstate V stored t n <> getstate V stored (d_tree r) n' -> marked stored (d_ev r) i.
Proof.
  intros t k r HI [ND Hlt] Hg Hd i n n' Hi Fn Fn' Hneq.
  rewrite Forall_forall in Hlt.
  destruct (Inv_inv _ _ _ _ HI) as (i0 & kids & -> & [->|[Hlen Wt]]); [discriminate|].
  set (t := Node i0 kids) in *.
  assert (Hszb : szb t) by (eapply WFbody_szb; exact Wt).
  assert (Hp : pne t).
  { intros z Hz. apply subs_inv in Hz. destruct Hz as [->|Hz]; [simpl; lia|].
    specialize (Hszb z Hz). unfold TreeBase.size_ok in Hszb. lia. }
  destruct (del_ok_all t k r Hp Hd) as (T1 & T2 & T3 & T4 & T5 & T6).
  apply find_node_subs in Fn. destruct Fn as [Sn Tn].
  apply find_node_subs in Fn'. destruct Fn' as [Sn' Tn'].
  assert (Hil : i < fresh) by (apply Hlt; rewrite <- Tn; apply subs_ids; exact Sn).
  destruct (T6 n' Sn') as [(n0 & S0 & T0 & Sh)|[H|H]]; [|lia|rewrite <- Tn'; exact H].
  assert (n0 = n) by (eapply subs_unique; [exact ND | exact S0 | exact Sn | congruence]). subst n0.
  assert (El : elids (d_tree r) = lids (d_tree r)).
  { destruct (d_tree r) as [j l|j kk]; [discriminate T2|]. rewrite elids_Node, lids_Node. reflexivity. }
  rewrite El in T4.
  destruct n as [j l|j nk].
  - simpl in Tn. subst j. destruct n' as [j' l'|]; [|contradiction Sh]. simpl in Tn'. subst j'.
    destruct (Rd_succ _ _ _ _ T4 (lids_NoDup _ ND) i (leaf_in_lids _ _ _ Sn')) as [Hs|Hs]; [|left; exact Hs].
    exfalso. apply Hneq. rewrite !getstate_eq. apply gs_shallow; [exact Sh| |discriminate].
    intros i1 l1 E. injection E as <- <-. exact Hs.
  - destruct (embk stored nk) eqn:Ee.
    + assert (En : Node j nk = t).
      { apply subs_inv in Sn. destruct Sn as [Sn|Sn]; [exact Sn|].
        pose proof (proj1 (no_embed_nemb _ _ _ Hg) _ Sn) as Hc. simpl in Hc. congruence. }
      destruct (embk_inv _ _ Ee) as (s & l & items & Ek & Hm).
      right. exists l. split; [|exact Hm]. simpl in Tn. subst j nk.
      apply (T5 i s (Leaf l items)); [symmetry; exact En | reflexivity].
    + exfalso. apply Hneq. rewrite !getstate_eq. apply gs_shallow; [exact Sh | discriminate|].
      intros i1 s l items E Hm. inversion E; subst. simpl in Ee. rewrite Hm in Ee. discriminate.
Qed.
End DelFP.
End FP.

Theorem footprint_set :
  forall (V : Type) (veq : V -> V -> bool) (vs : bool) (ml mi fresh : nat) (t : tree V) (k : Z) (v : V)
         (ifunset : bool) (stored : list nat),
  (1 <= ml)%nat -> (2 <= mi)%nat -> Inv V ml mi t -> ids_ok V fresh t ->
  no_embed_below V true stored t ->
  (forall x, mem x stored = true -> (x < fresh)%nat) ->
  let r := tset V veq vs ml mi fresh t k v ifunset in
  forall i n n', mem i stored = true ->
    find_node V t i = Some n -> find_node V (s_tree r) i = Some n' ->
    getstate V stored t n <> getstate V stored (s_tree r) n' -> marked stored (s_ev r) i.
Proof. intros. eapply footprint_set_in; eassumption. Qed.

Theorem footprint_del :
  forall (V : Type) (ml mi fresh : nat) (t : tree V) (k : Z) (r : dres V) (stored : list nat),
  (1 <= ml)%nat -> (2 <= mi)%nat -> Inv V ml mi t -> ids_ok V fresh t ->
  no_embed_below V true stored t ->
  tdel V t k = Some r ->
  forall i n n', mem i stored = true ->
    find_node V t i = Some n -> find_node V (d_tree r) i = Some n' ->
    getstate V stored t n <> getstate V stored (d_tree r) n' -> marked stored (d_ev r) i.
Proof. intros. eapply footprint_del_in; eassumption. Qed.

Print Assumptions footprint_set.
Print Assumptions footprint_del.
