(* AbortProofs -- C04's abort clause: after an abort the writer's own in-memory
   container shows the last committed contents again.  Model/PersistWorld.v:
   abort_items.  The substance is the invariant `synced` (every stored node
   that did not register still equals its record), which every call and every
   commit maintains (RunSyncProofs.good_run); given it, the writer's mixed view
   after an abort reads the same records as a fresh reader of the store, and
   the store has not changed since the last commit.  No axioms. *)
From Coq Require Import ZArith List Bool Arith Lia.
From BT Require Import Model.RTree Model.TreeSpec Model.TreeRun Model.Check Model.CheckTree
                       Model.Persist Model.PersistSpec Model.PersistWorld Model.Chain Model.ChainRun
                       Proofs.TreeBase Proofs.StoreProofs Proofs.PersistProofs Proofs.RunSyncProofs
                       Proofs.ChainProofs Proofs.ChainRunProofs.
Import ListNotations.
Local Open Scope nat_scope.

Lemma abort_items_load : forall t p s, synced Z t p s ->
  forall f i, abort_items f t p s i = load_items Z f s i.
Proof.
  intros t p s Hs. induction f as [|f IH]; intros i; [reflexivity|].
  cbn [abort_items]. rewrite load_items_S.
  assert (E : match find_node Z t i with
              | Some n => if mem i (p_stored p) && negb (mem i (p_changed p))
                          then Some (getstate Z (p_stored p) t n) else sget Z s i
              | None => sget Z s i
              end = sget Z s i).
  { destruct (find_node Z t i) as [n|] eqn:F; [|reflexivity].
    destruct (mem i (p_stored p)) eqn:A; [|reflexivity].
    destruct (mem i (p_changed p)) eqn:B; [reflexivity|]. simpl.
    symmetry. apply (Hs i n F A B). }
  rewrite E. destruct (sget Z s i) as [[items nx|  |items nx|kids first]|]; try reflexivity.
  apply flat_map_ext. intros a. apply IH.
Qed.

Section Abort.
Variables vs isC : bool.
Variables ml mi : nat.
Hypothesis Hml : 1 <= ml.
Hypothesis Hmi : 2 <= mi.

(* identities: the root object keeps its identity through every call *)
Lemma prim_step_ids : forall p x, ids_ok Z (p_fresh p) (p_tree p) ->
  let p' := prim_step vs ml mi p x in
  ids_ok Z (p_fresh p') (p_tree p') /\ tid Z (p_tree p') = tid Z (p_tree p).
Proof.
  intros p x H. destruct x as [k v iu|k|]; simpl.
  - destruct (set_ids_ok Z Z.eqb vs ml mi (p_fresh p) (p_tree p) k v iu H) as (A & _ & B). auto.
  - destruct (tdel Z (p_tree p) k) as [r|] eqn:E; [|auto].
    destruct (del_ids_ok Z (p_fresh p) (p_tree p) k r H E). auto.
  - destruct (tsize Z (p_tree p)) eqn:Ez; [auto|]. simpl.
    destruct (p_tree p) as [i l|i kids] eqn:Et.
    + destruct l; [discriminate Ez|]. simpl. destruct H as [ND Hlt]. simpl in *. split; [split|]; auto.
    + destruct kids as [|x r]; [discriminate Ez|]. simpl. destruct H as [ND Hlt].
      rewrite ids_Node in ND, Hlt. split; [|reflexivity]. split; simpl.
      * constructor; [intros []|constructor].
      * constructor; [exact (Forall_inv Hlt)|constructor].
Qed.
Lemma prim_run_ids : forall xs p, ids_ok Z (p_fresh p) (p_tree p) ->
  tid Z (p_tree (prim_run vs ml mi p xs)) = tid Z (p_tree p).
Proof.
  induction xs as [|x r IH]; intros p H; [reflexivity|]. simpl.
  destruct (prim_step_ids p x H) as [A B]. rewrite (IH _ A). exact B.
Qed.
Lemma step_tid : forall s c, ids_ok Z (t_fresh s) (t_tree s) ->
  tid Z (t_tree (fst (step vs isC ml mi s c))) = tid Z (t_tree s).
Proof.
  intros s c H. set (p := mkPst (t_tree s) (t_fresh s) heap0).
  destruct (prims_refine vs ml mi isC s p c (conj eq_refl eq_refl)) as [A _].
  rewrite <- A. apply (prim_run_ids _ p). exact H.
Qed.

(* calls leave the store alone and keep the world good *)
Lemma calls_keep : forall calls w, Good ml mi w ->
  (forall c, In c calls -> simple_call c = true) ->
  run_ok vs isC ml mi w (map ACall calls) ->
  let w' := pw_run vs isC ml mi w (map ACall calls) in
  Good ml mi w' /\ pw_s w' = pw_s w /\ tid Z (t_tree (pw_st w')) = tid Z (t_tree (pw_st w)).
Proof.
  induction calls as [|c r IH]; intros w HG Hs Hr; [simpl; auto|].
  simpl in Hr. destruct Hr as [[Hg _] Hr]. simpl map.
  assert (HG1 : Good ml mi (pw_step vs isC ml mi w (ACall c))).
  { apply good_call; [exact Hml | exact Hmi | exact HG | exact Hg | apply Hs; left; reflexivity]. }
  destruct (IH _ HG1 (fun c0 H0 => Hs c0 (or_intror H0)) Hr) as (A & B & C).
  change (pw_run vs isC ml mi w (ACall c :: map ACall r))
    with (pw_run vs isC ml mi (pw_step vs isC ml mi w (ACall c)) (map ACall r)).
  split; [exact A|]. split; [rewrite B; reflexivity|].
  rewrite C. simpl.
  apply step_tid. destruct HG as (_ & Hid & _). exact Hid.
Qed.

Theorem abort_restores :
  forall (acts : list action) (seq : list nat) (calls : list call),
  (forall c, In (ACall c) acts -> simple_call c = true) ->
  (forall c, In c calls -> simple_call c = true) ->
  run_ok vs isC ml mi pw_init (acts ++ [ACommit seq] ++ map ACall calls) ->
  let w1 := pw_run vs isC ml mi pw_init (acts ++ [ACommit seq]) in
  let w2 := pw_run vs isC ml mi w1 (map ACall calls) in
  abort_view (S (length (ids Z (t_tree (pw_st w1))))) w2 = contents Z (t_tree (pw_st w1)).
Proof.
  intros acts seq calls Hs1 Hs2 Hr w1 w2.
  rewrite app_assoc in Hr. apply run_ok_app in Hr. destruct Hr as [Hr1 Hr2]. fold w1 in Hr2.
  pose proof (run_commit_reader vs isC ml mi acts seq Hml Hmi Hs1 Hr1) as RD. cbv zeta in RD. fold w1 in RD.
  destruct RD as [RD _].
  assert (HG1 : Good ml mi w1).
  { apply good_run; [exact Hml | exact Hmi | apply good_init | | exact Hr1].
    intros c Hc. apply in_app_or in Hc. destruct Hc as [Hc|[Hc|[]]]; [apply Hs1; exact Hc | discriminate Hc]. }
  destruct (calls_keep calls w1 HG1 Hs2 Hr2) as (HG2 & Hst & Htid). fold w2 in HG2, Hst, Htid.
  unfold abort_view. destruct HG2 as (_ & _ & _ & _ & Hsy & _).
  rewrite (abort_items_load _ _ _ Hsy). rewrite Hst, Htid. exact RD.
Qed.
End Abort.
