(* RunSyncProofs -- C04 at run level: for every history of simple public calls
   and commits (Model/PersistWorld.v), under the guard of F16 at the start of
   each action, a fresh reader after a final commit sees the writer's contents.
   Composes SyncProofs (sync_set / sync_del), StoreProofs (commit_keeps,
   commit_current_partial, reader_sees) and TreeProofs (inv_step) through one
   invariant of the world (Good).  No axioms. *)
From Coq Require Import ZArith List Bool Arith Lia Permutation.
From BT Require Import Model.RTree Model.TreeSpec Model.TreeRun Model.Check Model.CheckTree
     Model.Persist Model.PersistSpec Model.PersistWorld
     Proofs.TreeBase Proofs.TreeSetProofs Proofs.TreeDelProofs Proofs.TreeProofs
     Proofs.FootprintProofs Proofs.SyncProofs Proofs.StoreProofs.
Import ListNotations.
Local Open Scope nat_scope.

(* ================================================================== *)
(* 1. lists                                                            *)
(* ================================================================== *)
Lemma NoDup_app_intro : forall (a b : list nat),
  NoDup a -> NoDup b -> (forall x, In x a -> In x b -> False) -> NoDup (a ++ b).
Proof.
  induction a as [|x a IH]; intros b Ha Hb Hd; [exact Hb|].
  simpl. inversion Ha as [|x' a' Hx Ha']; subst. constructor.
  - intro Hin. apply in_app_or in Hin. destruct Hin as [Hin|Hin]; [exact (Hx Hin)|].
    apply (Hd x); [left; reflexivity | exact Hin].
  - apply IH; [exact Ha' | exact Hb|]. intros y Hy Hy'. apply (Hd y); [right; exact Hy | exact Hy'].
Qed.
Lemma sl_app_skip : forall c a b, sl a b -> sl a (c ++ b).
Proof. induction c as [|x c IH]; intros a b H; simpl; [exact H|]. apply sl_skip. apply IH. exact H. Qed.
Lemma sl_nil_any : forall b, sl [] b.
Proof. induction b as [|x b IH]; [apply sl_nil | apply sl_skip; exact IH]. Qed.
Lemma skipn_app_exact : forall (A : Type) (a b : list A), skipn (length a) (a ++ b) = b.
Proof. induction a as [|x a IH]; intros b; [reflexivity | simpl; apply IH]. Qed.
Lemma in_opt_list : forall (o : option nat) x,
  In x (match o with Some y => [y] | None => [] end) -> o = Some x.
Proof. intros [y|] x H; [destruct H as [<-|[]]; reflexivity | destruct H]. Qed.
Lemma succ_of_in : forall l i x, succ_of l i = Some x -> In x l.
Proof.
  induction l as [|y r IH]; intros i x H; [discriminate|].
  simpl in H. destruct (Nat.eqb y i).
  - destruct r as [|z r']; [discriminate|]. inversion H; subst. right. left. reflexivity.
  - right. eapply IH. exact H.
Qed.

(* ================================================================== *)
(* 2. identities after an insertion: the old ones plus fresh ones       *)
(* ================================================================== *)
Section SetIds.
Variable V : Type.
Variable veq : V -> V -> bool.
Variable vs : bool.
Variables ml mi : nat.
Notation tree := (tree V).
Notation ids := (TreeSpec.ids V).
Notation kids_ids := (StoreProofs.kids_ids V).
Notation tset := (RTree.tset V veq vs ml mi).
Notation tset_go := (TreeSetProofs.tset_go V veq vs ml mi).

Definition news_ok (fresh f' : nat) (news : list nat) : Prop :=
  NoDup news /\ forall x, In x news -> fresh <= x < f'.
Definition set_ids_post (fresh : nat) (t : tree) (r : sres V) : Prop :=
  fresh <= s_fresh r /\ tid V (s_tree r) = tid V t /\
  exists news, Permutation (ids (s_tree r)) (news ++ ids t) /\ news_ok fresh (s_fresh r) news.
Definition go_ids_post (fresh : nat) (l : list (Z * tree))
           (res : list (Z * tree) * status * option V * list event * nat * bool) : Prop :=
  let '(l1, _, _, _, f', _) := res in
  fresh <= f' /\
  exists news, Permutation (kids_ids l1) (news ++ kids_ids l) /\ news_ok fresh f' news.

Lemma kids_ids_cons : forall s (c : tree) r, kids_ids ((s, c) :: r) = ids c ++ kids_ids r.
Proof. reflexivity. Qed.
Lemma kids_ids_app : forall a b, kids_ids (a ++ b) = kids_ids a ++ kids_ids b.
Proof. intros. apply flat_map_app. Qed.

Lemma split_ids : forall f (t a b : tree), split_node V f t = (a, b) ->
  Permutation (ids a ++ ids b) (f :: ids t).
Proof.
  intros f t a b H. destruct t as [i l|i k]; simpl in H; inversion H; subst; clear H.
  - simpl. apply perm_swap.
  - rewrite !ids_Node. simpl.
    apply Permutation_trans with (i :: f :: kids_ids k); [|apply perm_swap].
    constructor. apply Permutation_sym.
    apply Permutation_trans with (f :: kids_ids (firstn (Nat.div2 (length k)) k) ++
                                       kids_ids (skipn (Nat.div2 (length k)) k)).
    + constructor. rewrite <- kids_ids_app, firstn_skipn. apply Permutation_refl.
    + apply Permutation_middle.
Qed.

Lemma news_ok_nil : forall f f', news_ok f f' [].
Proof. intros. split; [constructor | intros x []]. Qed.
Lemma news_ok_snoc : forall f f' news, f <= f' -> news_ok f f' news -> news_ok f (S f') (f' :: news).
Proof.
  intros f f' news Hle [ND Hr]. split.
  - constructor; [|exact ND]. intro Hin. apply Hr in Hin. lia.
  - intros x [<-|Hx]; [lia|]. apply Hr in Hx. lia.
Qed.
Lemma news_ok_mono : forall f f' f'' news, f' <= f'' -> news_ok f f' news -> news_ok f f'' news.
Proof. intros f f' f'' news Hle [ND Hr]. split; [exact ND|]. intros x Hx. apply Hr in Hx. lia. Qed.

Lemma go_ids : forall i single k v iu (l : list (Z * tree)),
  Forall (fun sc => forall fresh, set_ids_post fresh (snd sc) (tset fresh (snd sc) k v iu)) l ->
  forall fresh, go_ids_post fresh l (tset_go i single fresh k v iu l).
Proof.
  intros i single k v iu l IH. induction IH as [|[s c] rest Hc _ IHr]; intros fresh.
  - simpl. split; [lia|]. exists []. split; [apply Permutation_refl | apply news_ok_nil].
  - simpl in Hc. cbn [TreeSetProofs.tset_go]. destruct (chosen V k rest).
    + destruct (Hc fresh) as (Hle & _ & news & Hp & Hn).
      set (r := tset fresh c k v iu) in *.
      assert (Keep : go_ids_post fresh ((s, c) :: rest)
                (((s, s_tree r) :: rest, s_st r, s_val r, @nil event, s_fresh r, false))).
      { split; [exact Hle|]. exists news. split; [|exact Hn].
        rewrite !kids_ids_cons, app_assoc. apply Permutation_app_tail. exact Hp. }
      destruct (s_st r) eqn:Est; [exact Keep | exact Keep |].
      destruct (max_for V ml mi (s_tree r) <? tsize V (s_tree r)); [|exact Keep].
      unfold grow_at. destruct (split_node V (s_fresh r) (s_tree r)) as [a b] eqn:Esp.
      split; [lia|]. exists (s_fresh r :: news). split; [|apply news_ok_snoc; assumption].
      rewrite !kids_ids_cons, app_assoc. simpl.
      apply Permutation_trans with ((s_fresh r :: ids (s_tree r)) ++ kids_ids rest).
      * apply Permutation_app_tail. apply split_ids. exact Esp.
      * simpl. constructor. rewrite app_assoc. apply Permutation_app_tail. exact Hp.
    + specialize (IHr fresh).
      destruct (tset_go i single fresh k v iu rest) as [[[[[l' st] rv] ev] f'] g].
      destruct IHr as (Hle & news & Hp & Hn). split; [exact Hle|]. exists news. split; [|exact Hn].
      rewrite !kids_ids_cons.
      apply Permutation_trans with (ids c ++ news ++ kids_ids rest).
      * apply Permutation_app_head. exact Hp.
      * rewrite !app_assoc. apply Permutation_app_tail. apply Permutation_app_comm.
Qed.

Lemma set_ids : forall (t : tree) k v iu fresh, set_ids_post fresh t (tset fresh t k v iu).
Proof.
  induction t as [i l|i kids IH] using (tree_ind' V); intros k v iu fresh.
  - simpl. destruct (lset V veq vs l k v iu) as [[l' st] rv]. unfold set_ids_post. simpl.
    split; [lia|]. split; [reflexivity|]. exists []. split; [apply Permutation_refl | apply news_ok_nil].
  - destruct kids as [|x r].
    + unfold set_ids_post. simpl. split; [lia|]. split; [reflexivity|]. exists [fresh]. split; [apply perm_swap|].
      split; [constructor; [intros []|constructor]|]. intros y [<-|[]]. lia.
    + rewrite tset_Node.
      pose proof (go_ids i (length (x :: r) =? 1) k v iu (x :: r)) as G.
      assert (IH' : Forall (fun sc => forall fresh, set_ids_post fresh (snd sc) (tset fresh (snd sc) k v iu))
                           (x :: r)).
      { rewrite Forall_forall in IH |- *. intros sc Hsc f. apply IH. exact Hsc. }
      specialize (G IH' fresh).
      destruct (tset_go i (length (x :: r) =? 1) fresh k v iu (x :: r))
        as [[[[[kids1 st] rv] ev1] fresh1] g].
      destruct G as (Hle & news & Hp & Hn).
      destruct (g && (2 * mi <=? length kids1)).
      * unfold split_root.
        destruct (split_node V (S fresh1) (Node fresh1 kids1)) as [a b] eqn:Esp.
        unfold set_ids_post. simpl.
        split; [lia|]. split; [reflexivity|].
        exists (S fresh1 :: fresh1 :: news). split.
        -- rewrite app_nil_r. simpl.
           apply Permutation_trans with (i :: S fresh1 :: fresh1 :: kids_ids kids1).
           ++ constructor. apply (split_ids _ _ _ _ Esp).
           ++ apply Permutation_trans with (S fresh1 :: i :: fresh1 :: kids_ids kids1); [apply perm_swap|].
              constructor.
              apply Permutation_trans with (fresh1 :: i :: kids_ids kids1); [apply perm_swap|].
              constructor. apply Permutation_trans with (i :: news ++ kids_ids (x :: r)).
              ** constructor. exact Hp.
              ** apply Permutation_middle.
        -- apply news_ok_snoc; [lia|]. apply news_ok_snoc; assumption.
      * unfold set_ids_post. simpl. split; [exact Hle|]. split; [reflexivity|]. exists news. split; [|exact Hn].
        apply Permutation_trans with (i :: news ++ kids_ids (x :: r)).
        -- constructor. exact Hp.
        -- apply Permutation_middle.
Qed.

Lemma set_ids_ok : forall fresh (t : tree) k v iu,
  ids_ok V fresh t ->
  let r := tset fresh t k v iu in
  ids_ok V (s_fresh r) (s_tree r) /\ fresh <= s_fresh r /\ tid V (s_tree r) = tid V t.
Proof.
  intros fresh t k v iu [ND Hlt] r.
  destruct (set_ids t k v iu fresh) as (Hle & Ht & news & Hp & [NDn Hn]). fold r in Hle, Ht, Hp, Hn.
  rewrite Forall_forall in Hlt. split; [|split; assumption]. split.
  - apply (Permutation_NoDup (Permutation_sym Hp)). apply NoDup_app_intro; [exact NDn | exact ND|].
    intros x Hx Hx'. apply Hn in Hx. apply Hlt in Hx'. lia.
  - rewrite Forall_forall. intros x Hx. apply (Permutation_in _ Hp) in Hx.
    apply in_app_or in Hx. destruct Hx as [Hx|Hx]; [apply Hn in Hx; lia|]. apply Hlt in Hx. lia.
Qed.
End SetIds.

(* ================================================================== *)
(* 3. identities after a deletion: a sub-list of the old ones          *)
(* ================================================================== *)
Section DelIds.
Variable V : Type.
Notation tree := (tree V).
Notation ids := (TreeSpec.ids V).
Notation kids_ids := (StoreProofs.kids_ids V).
Notation del_go := (TreeDelProofs.del_go V).

Definition del_ids_post (t : tree) (k : Z) : Prop :=
  forall r, tdel V t k = Some r -> sl (ids (d_tree r)) (ids t) /\ tid V (d_tree r) = tid V t.

Lemma dgo_ids : forall i single k (l : list (Z * tree)),
  Forall (fun sc => del_ids_post (snd sc) k) l ->
  forall prev first l' v ev fg, del_go i single k prev first l = Some (l', v, ev, fg) ->
    sl (kids_ids l') (kids_ids l).
Proof.
  intros i single k l IH. induction IH as [|[s c] rest Hc _ IHr]; intros prev first l' v ev fg H.
  - discriminate H.
  - simpl in Hc. cbn [TreeDelProofs.del_go] in H. destruct (chosen V k rest).
    + destruct (tdel V c k) as [r|] eqn:Ed; [|discriminate H].
      destruct (Hc r Ed) as [Hsl _].
      destruct (negb first && negb (tsize V (d_tree r) =? 0) && (k =? s)%Z);
        destruct (d_first r); destruct prev as [pv|];
        destruct (negb (tsize V (d_tree r) =? 0)); destruct (is_leaf V (d_tree r));
        inversion H; subst; clear H;
        try (unfold StoreProofs.kids_ids; simpl; apply sl_app; [exact Hsl | apply sl_refl]);
        try (unfold StoreProofs.kids_ids; simpl; apply sl_app_skip; apply sl_refl).
    + destruct (del_go i single k (Some c) false rest) as [[[[l1 v1] ev1] fg1]|] eqn:Eg; [|discriminate H].
      inversion H; subst; clear H. unfold StoreProofs.kids_ids. simpl.
      apply sl_app; [apply sl_refl|]. eapply IHr. exact Eg.
Qed.

Lemma del_ids : forall (t : tree) k, del_ids_post t k.
Proof.
  induction t as [i l|i kids IH] using (tree_ind' V); intros k r H.
  - rewrite tdel_Leaf in H. destruct (ldel V l k) as [[l' v]|]; [|discriminate H].
    inversion H; subst. simpl. split; [apply sl_refl | reflexivity].
  - rewrite tdel_Node in H.
    destruct (del_go i (length kids =? 1) k None true kids) as [[[[l1 v1] ev1] fg1]|] eqn:Eg; [|discriminate H].
    inversion H; subst; clear H. simpl d_tree. split; [|reflexivity].
    rewrite !ids_Node. apply sl_keep. eapply dgo_ids; [|exact Eg].
    rewrite Forall_forall in IH |- *. intros sc Hsc. apply IH. exact Hsc.
Qed.

Lemma del_ids_ok : forall fresh (t : tree) k r,
  ids_ok V fresh t -> tdel V t k = Some r ->
  ids_ok V fresh (d_tree r) /\ tid V (d_tree r) = tid V t.
Proof.
  intros fresh t k r [ND Hlt] H. destruct (del_ids t k r H) as [Hsl Ht]. split; [|exact Ht]. split.
  - eapply sl_nodup; eassumption.
  - rewrite Forall_forall in Hlt |- *. intros x Hx. apply Hlt. eapply sl_in; eassumption.
Qed.
End DelIds.

(* ================================================================== *)
(* 4. a commit gives oids to objects of the tree only; the records it   *)
(*    writes refer to objects with an oid                               *)
(* ================================================================== *)
Section CommitFacts.
Variable V : Type.
Notation tree := (tree V).
Notation ids := (TreeSpec.ids V).

Lemma first_leaf_in : forall (t : tree) x, first_leaf V t = Some x -> In x (ids t).
Proof.
  induction t as [i l|i kids IH] using (tree_ind' V); intros x H.
  - simpl in H. inversion H; subst. left. reflexivity.
  - destruct kids as [|[s c] rest]; [discriminate H|].
    simpl in H. inversion IH as [|sc r' Hc _]; subst. simpl in Hc.
    rewrite ids_Node. right. unfold StoreProofs.kids_ids. simpl. apply in_or_app. left.
    apply Hc. exact H.
Qed.

Lemma succ_in_ids : forall (t : tree) i x, succ_of (leaf_ids V t) i = Some x -> In x (ids t).
Proof.
  intros t i x H. apply succ_of_in in H. eapply sl_in; [apply sl_leaf_ids | exact H].
Qed.

Lemma child_tids_in : forall i (kids : list (Z * tree)) x,
  In x (map snd (map (fun sc => (fst sc, tid V (snd sc))) kids)) -> In x (ids (Node i kids)).
Proof.
  intros i kids x H. rewrite map_map in H. simpl in H. apply in_map_iff in H.
  destruct H as ([s c] & <- & Hin). simpl. right. apply in_flat_map. exists (s, c).
  split; [exact Hin | apply tid_in_ids].
Qed.

Lemma refs_in_ids : forall st (t n : tree) x,
  sub V n t -> In x (refs V (getstate V st t n)) -> In x (ids t).
Proof.
  intros st t n x Sb H.
  assert (Gen : forall j kids, n = Node j kids ->
            In x (refs V (RNode (map (fun sc => (fst sc, tid V (snd sc))) kids) (first_leaf V n))) ->
            In x (ids t)).
  { intros j kids -> Hx. simpl refs in Hx. apply in_app_or in Hx. destruct Hx as [Hx|Hx].
    - eapply sub_ids; [exact Sb|]. apply child_tids_in. exact Hx.
    - apply in_opt_list in Hx. eapply sub_ids; [exact Sb|]. apply first_leaf_in. exact Hx. }
  destruct n as [i items|j kids].
  - simpl in H. apply in_opt_list in H. eapply succ_in_ids. exact H.
  - destruct kids as [|[s [l items|j2 k2]] [|sc2 k'']];
      try (apply (Gen j _ eq_refl); exact H).
    simpl in H. destruct (mem l st).
    + simpl in H. eapply sub_ids; [exact Sb|]. simpl. right. left.
      destruct H as [H|[H|[]]]; exact H.
    + simpl in H. apply in_opt_list in H. eapply succ_in_ids. exact H.
Qed.

Definition store_closed (st : list nat) (s : store V) : Prop :=
  forall i r, In (i, r) s -> mem i st = true /\ forall x, In x (refs V r) -> mem x st = true.

Lemma sget_In : forall (s : store V) i r, sget V s i = Some r -> In (i, r) s.
Proof.
  induction s as [|[j q] rest IH]; intros i r H; [discriminate H|].
  simpl in H. destruct (Nat.eqb i j) eqn:E.
  - apply Nat.eqb_eq in E. inversion H; subst. left. reflexivity.
  - right. apply IH. exact H.
Qed.

Lemma commit_seq_facts : forall (t : tree) (P : nat -> Prop) seq st s st' s',
  commit_seq V t seq st s = (st', s') ->
  (forall x, In x (ids t) -> P x) ->
  (forall x, mem x st = true -> P x) -> store_closed st s ->
  (forall x, mem x st = true -> mem x st' = true) /\
  (forall x, mem x st' = true -> P x) /\ store_closed st' s'.
Proof.
  intros t P. induction seq as [|i rest IH]; intros st s st' s' C Hid Hst Hcl.
  - simpl in C. inversion C; subst. split; [auto|]. split; assumption.
  - simpl in C. destruct (find_node V t i) as [n|] eqn:F; [|eapply IH; eassumption].
    set (st1 := fold_left (fun acc x => add x acc) (i :: refs V (getstate V st t n)) st) in *.
    assert (M1 : forall x, mem x st = true -> mem x st1 = true).
    { intros x Hx. apply fold_add_mem. right. exact Hx. }
    destruct (find_some V _ _ _ F) as [Sn Tn].
    assert (P1 : forall x, mem x st1 = true -> P x).
    { intros x Hx. apply fold_add_mem in Hx. destruct Hx as [[<-|Hx]|Hx].
      - apply Hid. rewrite <- Tn. eapply sub_ids; [exact Sn | apply tid_in_ids].
      - apply Hid. eapply refs_in_ids; eassumption.
      - apply Hst. exact Hx. }
    assert (C1 : store_closed st1 (sput V s i (getstate V st t n))).
    { intros j q [E|Hin].
      - inversion E; subst j q. split.
        + apply fold_add_mem. left. left. reflexivity.
        + intros x Hx. apply fold_add_mem. left. right. exact Hx.
      - destruct (Hcl j q Hin) as [A B]. split; [apply M1; exact A|].
        intros x Hx. apply M1. apply B. exact Hx. }
    destruct (IH _ _ _ _ C Hid P1 C1) as (A & B & D).
    split; [intros x Hx; apply A; apply M1; exact Hx|]. split; assumption.
Qed.
End CommitFacts.

(* ================================================================== *)
(* 5. the invariant of the world and the public calls                  *)
(* ================================================================== *)
Section Run.
Variables vs isC : bool.
Variables ml mi : nat.
Hypothesis Hml : 1 <= ml.
Hypothesis Hmi : 2 <= mi.

Definition G (q : st) (p : pstate) (s : store Z) : Prop :=
  Inv Z ml mi (t_tree q) /\ ids_ok Z (t_fresh q) (t_tree q) /\
  (forall x, mem x (p_stored p) = true -> x < t_fresh q) /\
  store_closed Z (p_stored p) s /\ synced Z (t_tree q) p s /\
  mem (tid Z (t_tree q)) (p_stored p) = true.
Definition guardP (q : st) (p : pstate) : Prop := no_embed_below Z true (p_stored p) (t_tree q).

Lemma apply_events_app : forall p a b,
  apply_events isC p (a ++ b) = apply_events isC (apply_events isC p a) b.
Proof. intros. unfold apply_events. apply fold_left_app. Qed.

(* registering more objects, on the same tree, keeps the invariant *)
Lemma G_ext : forall q p s q' p',
  G q p s -> t_tree q' = t_tree q -> t_fresh q' = t_fresh q -> p_stored p' = p_stored p ->
  (forall x, mem x (p_changed p) = true -> mem x (p_changed p') = true) -> G q' p' s.
Proof.
  intros q p s q' p' (H1 & H2 & H3 & H4 & H5 & H6) Et Ef Es Hc. unfold G. rewrite Et, Ef, Es.
  split; [exact H1|]. split; [exact H2|]. split; [exact H3|]. split; [exact H4|]. split; [|exact H6].
  intros i n F Hs Hch. rewrite Es in Hs |- *. apply H5; [exact F | exact Hs|].
  destruct (mem i (p_changed p)) eqn:E; [|reflexivity]. apply Hc in E. congruence.
Qed.

Definition Step (q : st) (p : pstate) (s : store Z) (q1 : st) : Prop :=
  exists evs, t_events q1 = t_events q ++ evs /\ G q1 (apply_events isC p evs) s.

Lemma Step_same : forall q p s q1 evs, G q p s ->
  t_tree q1 = t_tree q -> t_fresh q1 = t_fresh q -> t_events q1 = t_events q ++ evs -> Step q p s q1.
Proof.
  intros q p s q1 evs HG Et Ef Ee. exists evs. split; [exact Ee|].
  eapply G_ext; [exact HG | exact Et | exact Ef | apply apply_events_stored|].
  intros x Hx. apply apply_events_mono. exact Hx.
Qed.
Lemma Step_more : forall q p s q1 q2 evs, Step q p s q1 ->
  t_tree q2 = t_tree q1 -> t_fresh q2 = t_fresh q1 -> t_events q2 = t_events q1 ++ evs -> Step q p s q2.
Proof.
  intros q p s q1 q2 evs (e1 & E1 & HG) Et Ef Ee. exists (e1 ++ evs). split.
  - rewrite Ee, E1, app_assoc. reflexivity.
  - rewrite apply_events_app.
    eapply G_ext; [exact HG | exact Et | exact Ef | apply apply_events_stored|].
    intros x Hx. apply apply_events_mono. exact Hx.
Qed.
Lemma Step_refl : forall q p s, G q p s -> Step q p s q.
Proof. intros q p s HG. eapply (Step_same q p s q []); auto. rewrite app_nil_r. reflexivity. Qed.

Lemma Step_if : forall q p s (b : bool) A B,
  Step q p s A -> Step q p s B -> Step q p s (if b then A else B).
Proof. intros q p s b A B HA HB. destruct b; assumption. Qed.

Lemma Step_set : forall q p s k v iu, G q p s -> guardP q p ->
  Step q p s (fst (fst (do_set vs ml mi q k v iu))).
Proof.
  intros q p s k v iu (H1 & H2 & H3 & H4 & H5 & H6) Hg. unfold do_set, T_set. simpl fst.
  set (r := tset Z Z.eqb vs ml mi (t_fresh q) (t_tree q) k v iu).
  exists (s_ev r). split; [reflexivity|].
  destruct (set_ids_ok Z Z.eqb vs ml mi (t_fresh q) (t_tree q) k v iu H2) as (I1 & I2 & I3).
  fold r in I1, I2, I3. unfold G. simpl t_tree. simpl t_fresh. rewrite apply_events_stored.
  split; [apply inv_tset; assumption|]. split; [exact I1|].
  split; [intros x Hx; apply H3 in Hx; lia|]. split; [exact H4|].
  split; [apply sync_set; assumption|]. rewrite I3. exact H6.
Qed.

Lemma Step_del : forall q p s k q' v, G q p s -> guardP q p ->
  do_del q k = Some (q', v) -> Step q p s q'.
Proof.
  intros q p s k q' v (H1 & H2 & H3 & H4 & H5 & H6) Hg Hd. unfold do_del, T_del in Hd.
  destruct (tdel Z (t_tree q) k) as [r|] eqn:Ed; [|discriminate Hd]. inversion Hd; subst; clear Hd.
  exists (d_ev r). split; [reflexivity|].
  destruct (del_ids_ok Z (t_fresh q) (t_tree q) k r H2 Ed) as (I1 & I3).
  unfold G. simpl t_tree. simpl t_fresh. rewrite apply_events_stored.
  split; [eapply inv_tdel; eassumption|]. split; [exact I1|]. split; [exact H3|]. split; [exact H4|].
  split; [eapply sync_del; eassumption|]. rewrite I3. exact H6.
Qed.

Lemma Step_clear : forall q p s, G q p s -> Step q p s (do_clear isC q).
Proof.
  intros q p s HG. pose proof HG as (H1 & H2 & H3 & H4 & H5 & H6).
  destruct (Inv_inv Z ml mi _ H1) as (i & kids & Et & _). unfold do_clear. rewrite Et.
  destruct kids as [|x r].
  - simpl tclear. cbv iota beta.
    apply (Step_same q p s _ (if isC then [] else [EChanged i]) HG); simpl; try reflexivity; auto.
  - simpl tclear. cbv iota beta. exists [EChanged i]. split; [reflexivity|].
    rewrite Et in H2, H6. simpl in H6. destruct H2 as [ND Hlt]. rewrite Forall_forall in Hlt.
    unfold G. simpl t_tree. simpl t_fresh. rewrite apply_events_stored.
    split; [apply Inv_Node_nil|]. split.
    { split; [constructor; [intros []|constructor]|]. constructor; [|constructor].
      apply Hlt. left. reflexivity. }
    split; [exact H3|]. split; [exact H4|]. split; [|exact H6].
    intros j n F Hs Hch. exfalso. simpl in F. destruct (Nat.eqb i j) eqn:E; [|discriminate F].
    apply Nat.eqb_eq in E. subst j. unfold apply_events in Hch. simpl in Hch. rewrite H6 in Hch.
    simpl in Hch. rewrite mem_add_same in Hch. discriminate Hch.
Qed.

Lemma del_failed_shape : forall q k,
  t_tree (del_failed isC q k) = t_tree q /\ t_fresh (del_failed isC q k) = t_fresh q /\
  exists evs, t_events (del_failed isC q k) = t_events q ++ evs.
Proof.
  intros q k. unfold del_failed.
  destruct (t_tree q) as [i l|i [|x r]] eqn:Et; try destruct isC;
    (split; [simpl; first [exact Et | reflexivity]|]; split; [reflexivity|];
     first [exists []; rewrite app_nil_r; reflexivity | eexists; reflexivity]).
Qed.
Lemma Step_failed : forall q p s k, G q p s -> Step q p s (del_failed isC q k).
Proof.
  intros q p s k HG. destruct (del_failed_shape q k) as (A & B & evs & C).
  eapply Step_same; eassumption.
Qed.

Lemma quirk_shape : forall q stt,
  t_tree (set_nochange_quirk isC q stt) = t_tree q /\ t_fresh (set_nochange_quirk isC q stt) = t_fresh q /\
  exists evs, t_events (set_nochange_quirk isC q stt) = t_events q ++ evs.
Proof.
  intros q stt. unfold set_nochange_quirk.
  destruct stt; destruct (t_tree q) as [i l|i [|[x [l items|j k2]] [|sc2 k'']]] eqn:Et; try destruct isC;
    (split; [simpl; first [exact Et | reflexivity]|]; split; [reflexivity|];
     first [exists []; rewrite app_nil_r; reflexivity | eexists; reflexivity]).
Qed.
Lemma Step_quirk : forall q p s q1 stt, Step q p s q1 -> Step q p s (set_nochange_quirk isC q1 stt).
Proof.
  intros q p s q1 stt H. destruct (quirk_shape q1 stt) as (A & B & evs & C).
  eapply Step_more; eassumption.
Qed.

Lemma Step_discard : forall q p s k, G q p s -> guardP q p -> Step q p s (discard isC q k).
Proof.
  intros q p s k HG Hg. unfold discard. destruct (has q k).
  - destruct (do_del q k) as [[q' v]|] eqn:Ed; [eapply Step_del; eassumption | apply Step_refl; exact HG].
  - apply Step_if; [apply Step_failed; exact HG | apply Step_refl; exact HG].
Qed.

(* every simple public call keeps the invariant, the registration following the events it emitted *)
Lemma step_call : forall q p s c, G q p s -> guardP q p -> simple_call c = true ->
  Step q p s (fst (step vs isC ml mi q c)).
Proof.
  intros q p s c HG Hg Hc.
  assert (Rf : Step q p s q) by (apply Step_refl; exact HG).
  assert (Sset : forall k v iu, Step q p s (fst (fst (do_set vs ml mi q k v iu))))
    by (intros; apply Step_set; assumption).
  assert (Sdel : forall k q' v, do_del q k = Some (q', v) -> Step q p s q')
    by (intros; eapply Step_del; eassumption).
  assert (Sfail : forall k, Step q p s (del_failed isC q k)) by (intros; apply Step_failed; exact HG).
  destruct c; try discriminate Hc; cbn [step]; try exact Rf.
  - specialize (Sset k v false). destruct (do_set vs ml mi q k v false) as [[q' stt] rv]. exact Sset.
  - destruct (do_del q k) as [[q' v]|] eqn:Ed; [eapply Sdel; exact Ed | apply Sfail].
  - specialize (Sset k v true). destruct (do_set vs ml mi q k v true) as [[q' stt] rv]. exact Sset.
  - destruct (if isC then tget Z (t_tree q) k else None); [exact Rf|].
    specialize (Sset k v true). destruct (do_set vs ml mi q k v true) as [[q' stt] rv]. exact Sset.
  - destruct (do_del q k) as [[q' v]|] eqn:Ed; [eapply Sdel; exact Ed|].
    apply Step_if; [exact Rf | apply Sfail].
  - destruct (do_del q k) as [[q' v]|] eqn:Ed; [eapply Sdel; exact Ed|].
    apply Step_if; [exact Rf | apply Sfail].
  - destruct (contents Z (t_tree q)) as [|[k v] r]; [exact Rf|].
    destruct (do_del q k) as [[q' v']|] eqn:Ed; [eapply Sdel; exact Ed | exact Rf].
  - apply Step_clear. exact HG.
  - specialize (Sset k 0%Z true). destruct (do_set vs ml mi q k 0%Z true) as [[q' stt] rv].
    apply Step_quirk. exact Sset.
  - destruct (do_del q k) as [[q' v]|] eqn:Ed; [eapply Sdel; exact Ed | apply Sfail].
  - apply Step_discard; assumption.
  - destruct (contents Z (t_tree q)) as [|[k v] r]; [exact Rf|]. apply Step_discard; assumption.
Qed.

(* ---------- the world ---------- *)
Definition Good (w : pworld) : Prop := G (pw_st w) (pw_p w) (pw_s w).

Lemma good_init : Good pw_init.
Proof.
  unfold Good, G, pw_init, init. simpl.
  split; [apply Inv_Node_nil|]. split.
  { split; [constructor; [intros []|constructor]|]. constructor; [apply Nat.lt_0_succ|constructor]. }
  split. { intros x Hx. destruct x as [|x]; [apply Nat.lt_0_succ|discriminate Hx]. }
  split; [intros i r []|]. split; [|reflexivity].
  intros i n F Hs Hch. simpl in *. destruct i; simpl in *; discriminate.
Qed.

Lemma good_call : forall w c, Good w -> guard w -> simple_call c = true ->
  Good (pw_step vs isC ml mi w (ACall c)).
Proof.
  intros w c HG Hg Hc. destruct (step_call _ _ _ c HG Hg Hc) as (evs & E & H).
  unfold Good, pw_step. simpl. unfold new_events. rewrite E, skipn_app_exact. exact H.
Qed.

Lemma closed_no_stray : forall t p s, store_closed Z (p_stored p) s -> no_stray Z t (p_stored p) s.
Proof.
  intros t p s Hcl i _ Hm. destruct (sget Z s i) as [r|] eqn:E; [|reflexivity].
  apply sget_In in E. apply Hcl in E. destruct E as [E _]. congruence.
Qed.
Lemma closed_refs : forall t p s, store_closed Z (p_stored p) s -> synced Z t p s -> refs_closed Z t p.
Proof.
  intros t p s Hcl Hsy i n x F Hs Hch Hx. pose proof (Hsy i n F Hs Hch) as E.
  apply sget_In in E. apply Hcl in E. destruct E as [_ E]. apply E. exact Hx.
Qed.

Lemma good_commit : forall w seq, Good w -> act_ok w (ACommit seq) ->
  Good (pw_step vs isC ml mi w (ACommit seq)).
Proof.
  intros [q p s] seq (H1 & H2 & H3 & H4 & H5 & H6) (Hg & Hc & Hd). simpl in *.
  unfold guard in Hg. simpl in Hg.
  pose proof (commit_keeps Z (t_tree q) p seq s Hg H5 Hc (closed_no_stray _ _ _ H4)
                (closed_refs _ _ _ H4 H5) Hd) as K.
  unfold pw_step. unfold commit in *.
  destruct (commit_seq Z (t_tree q) seq (p_stored p) s) as [st' s'] eqn:Cs.
  destruct K as (K1 & _ & _).
  destruct (commit_seq_facts Z (t_tree q) (fun x => x < t_fresh q) seq _ _ _ _ Cs) as (A & B & C).
  - destruct H2 as [_ Hlt]. rewrite Forall_forall in Hlt. exact Hlt.
  - exact H3.
  - exact H4.
  - unfold Good, G. simpl.
    split; [exact H1|]. split; [exact H2|]. split; [exact B|]. split; [exact C|].
    split; [exact K1|]. apply A. exact H6.
Qed.

Lemma run_app : forall a b w,
  pw_run vs isC ml mi w (a ++ b) = pw_run vs isC ml mi (pw_run vs isC ml mi w a) b.
Proof. intros. unfold pw_run. apply fold_left_app. Qed.
Lemma run_ok_app : forall a b w, run_ok vs isC ml mi w (a ++ b) ->
  run_ok vs isC ml mi w a /\ run_ok vs isC ml mi (pw_run vs isC ml mi w a) b.
Proof.
  induction a as [|x a IH]; intros b w H; [split; [exact I | exact H]|].
  simpl in H. destruct H as [H0 H]. destruct (IH b _ H) as [Ha Hb].
  split; [split; assumption | exact Hb].
Qed.

Lemma good_run : forall acts w, Good w ->
  (forall c, In (ACall c) acts -> simple_call c = true) ->
  run_ok vs isC ml mi w acts -> Good (pw_run vs isC ml mi w acts).
Proof.
  induction acts as [|a r IH]; intros w HG Hs Hr; [exact HG|].
  simpl in Hr. destruct Hr as [Ha Hr]. simpl. apply IH; [|intros c Hc; apply Hs; right; exact Hc | exact Hr].
  destruct a as [c|seq].
  - apply good_call; [exact HG | exact (proj1 Ha) | apply Hs; left; reflexivity].
  - apply good_commit; assumption.
Qed.
End Run.

(* ================================================================== *)
(* 6. the run-level statement of C04                                   *)
(* ================================================================== *)
Theorem run_commit_reader :
  forall (vs isC : bool) (ml mi : nat) (acts : list action) (seq : list nat),
  (1 <= ml)%nat -> (2 <= mi)%nat ->
  (forall c, In (ACall c) acts -> simple_call c = true) ->
  run_ok vs isC ml mi pw_init (acts ++ [ACommit seq]) ->
  let w := pw_run vs isC ml mi pw_init (acts ++ [ACommit seq]) in
  let t := t_tree (pw_st w) in
  let fuel := S (length (ids Z t)) in
  load_items Z fuel (pw_s w) (tid Z t) = contents Z t /\
  reader_iter Z fuel (pw_s w) (tid Z t) = contents Z t /\
  exists p, load Z fuel (pw_s w) (tid Z t) = Some p /\ inv_stored p.
Proof.
  intros vs isC ml mi acts seq Hml Hmi Hs Hr.
  apply run_ok_app in Hr. destruct Hr as [Hr1 Hr2].
  pose proof (good_run vs isC ml mi Hml Hmi acts pw_init (good_init ml mi) Hs Hr1) as HG.
  rewrite run_app. set (w0 := pw_run vs isC ml mi pw_init acts) in *.
  simpl in Hr2. destruct Hr2 as [(Hg & Hc & Hd) _].
  destruct w0 as [q p s]. destruct HG as (H1 & H2 & H3 & H4 & H5 & H6). simpl in *.
  unfold guard in Hg. simpl in Hg.
  pose proof (commit_current_partial Z ml mi (t_tree q) p seq s H1 (proj1 H2) Hg H5 H6 Hc
                (closed_no_stray _ _ _ H4) (closed_refs _ _ _ H4 H5) Hd) as K.
  destruct (commit Z (t_tree q) p seq s) as [p' s'] eqn:Ec. simpl.
  destruct K as (K1 & K2 & K3).
  exact (reader_sees Z ml mi (t_tree q) (p_stored p') s' H1 (proj1 H2) K2 K1 K3).
Qed.

Print Assumptions run_commit_reader.
