(* TreeDelProofs -- deletion (tdel) preserves the invariant and refines
   removal from the sorted association list.  Built on Proofs/TreeBase.v.
   No axioms.
     inv_tdel      : Inv t -> tdel t k = Some r -> Inv (d_tree r)
     tdel_contents : Inv t -> tdel t k agrees with alookup / aremove on contents
   Structure: the inner loop of tdel as a standalone function (del_go), its
   projection to tree and value (dgo: events, prev, d_first dropped), one
   mutual induction over WFbody / WFkids (tdel_mut), the root. *)
From Coq Require Import ZArith List Bool Arith Sorted Lia.
From BT Require Import Model.RTree Model.TreeSpec Proofs.TreeBase.
Import ListNotations.
Open Scope Z_scope.

Section Del.
Variable V : Type.
Variables ml mi : nat.
Notation tree := (tree V).
Notation contents := (RTree.contents V).
Notation tsize := (RTree.tsize V).
Notation tmin := (RTree.tmin V).
Notation tmin0 := (RTree.tmin0 V).
Notation is_leaf := (RTree.is_leaf V).
Notation max_for := (RTree.max_for V ml mi).
Notation depth := (TreeSpec.depth V).
Notation kcontents := (TreeBase.kcontents V).
Notation WFbody := (TreeBase.WFbody V ml mi).
Notation WFkids := (TreeBase.WFkids V ml mi).
Notation size_ok := (TreeBase.size_ok V ml mi).
Notation next_hi := (TreeBase.next_hi V).

(* ---------- 1. the inner loop of tdel, standalone ---------- *)
Fixpoint del_go (i : nat) (single : bool) (k : Z) (prev : option tree) (first : bool)
         (l : list (Z * tree)) : option (list (Z * tree) * V * list event * bool) :=
  match l with
  | [] => None
  | (s, c) :: rest =>
    if chosen V k rest then
      match tdel V c k with
      | None => None
      | Some r =>
        let c' := d_tree r in
        let emb := if is_leaf c' && single then [EEmbed i (tid V c')] else [] in
        let '(s', evs) :=
            if negb first && negb (tsize c' =? 0)%nat && (k =? s)
            then (tmin0 c', [EChanged i]) else (s, []) in
        let '(first_gone, evf) :=
            if d_first r then
              match prev with
              | Some p => (false, [EChanged (last_leaf_id V p)])
              | None => (true, [EChanged i])
              end
            else (false, []) in
        if negb (tsize c' =? 0)%nat then
          Some ((s', c') :: rest, d_val r, d_ev r ++ emb ++ evs ++ evf, first_gone)
        else
          let '(first_gone', evu) :=
              if is_leaf c' then
                match prev with
                | Some p => (first_gone, [EChanged (last_leaf_id V p)])
                | None => (true, [])
                end
              else (first_gone, []) in
          Some (rest, d_val r, d_ev r ++ emb ++ evs ++ evf ++ evu ++ [EChanged i], first_gone')
      end
    else
      match del_go i single k (Some c) false rest with
      | None => None
      | Some (l', v, ev, fg) => Some ((s, c) :: l', v, ev, fg)
      end
  end.

Lemma tdel_Leaf : forall i l k,
  tdel V (Leaf i l) k =
  match ldel V l k with
  | None => None
  | Some (l', v) => Some (mkD (Leaf i l') v [EChanged i] false)
  end.
Proof. reflexivity. Qed.

Lemma tdel_Node : forall i kids k,
  tdel V (Node i kids) k =
  match del_go i (length kids =? 1)%nat k None true kids with
  | None => None
  | Some (kids', v, ev, fg) => Some (mkD (Node i kids') v (ERead i :: ev) fg)
  end.
Proof.
  intros. simpl.
  match goal with |- match ?f None true kids with _ => _ end = _ =>
    assert (E : forall l prev first,
               f prev first l = del_go i (length kids =? 1)%nat k prev first l) end.
  { induction l as [|[s c] r IH]; intros; [reflexivity|].
    cbn [del_go]. rewrite <- IH. reflexivity. }
  rewrite E. reflexivity.
Qed.

(* ---------- 2. projection to tree and value ---------- *)
(* events, prev and the first-bucket flag never influence tree or value *)
Fixpoint dgo (k : Z) (first : bool) (l : list (Z * tree)) : option (list (Z * tree) * V) :=
  match l with
  | [] => None
  | (s, c) :: rest =>
    if chosen V k rest then
      match tdel V c k with
      | None => None
      | Some r =>
        let c' := d_tree r in
        if (tsize c' =? 0)%nat then Some (rest, d_val r)
        else Some ((if negb first && (k =? s) then tmin0 c' else s, c') :: rest, d_val r)
      end
    else
      match dgo k false rest with
      | None => None
      | Some (l', v) => Some ((s, c) :: l', v)
      end
  end.

Lemma del_go_dgo : forall i single k l prev first,
  match del_go i single k prev first l with
  | None => dgo k first l = None
  | Some (l', v, _, _) => dgo k first l = Some (l', v)
  end.
Proof.
  induction l as [|[s c] rest IH]; intros prev first; [reflexivity|].
  cbn [del_go dgo]. destruct (chosen V k rest).
  - destruct (tdel V c k) as [r|]; [|reflexivity].
    cbv zeta.
    destruct (tsize (d_tree r) =? 0)%nat; cbn [negb andb].
    + rewrite andb_false_r. cbn [andb].
      destruct (d_first r); destruct prev; destruct (is_leaf (d_tree r)); reflexivity.
    + rewrite andb_true_r.
      destruct (negb first && (k =? s)); destruct (d_first r); destruct prev; reflexivity.
  - specialize (IH (Some c) false).
    destruct (del_go i single k (Some c) false rest) as [[[[l' v] ev] fg]|].
    + rewrite IH. reflexivity.
    + rewrite IH. reflexivity.
Qed.

Lemma tdel_Node_dgo : forall i kids k,
  match tdel V (Node i kids) k with
  | None => dgo k true kids = None
  | Some r => exists kids', d_tree r = Node i kids' /\ dgo k true kids = Some (kids', d_val r)
  end.
Proof.
  intros. rewrite tdel_Node.
  pose proof (del_go_dgo i (length kids =? 1)%nat k kids None true) as H.
  destruct (del_go i (length kids =? 1)%nat k None true kids) as [[[[l' v] ev] fg]|].
  - exists l'. simpl. auto.
  - exact H.
Qed.

(* ---------- 3. the statements carried through the induction ---------- *)
(* a (non-root) subtree: refinement, WFbody in the same interval, size not
   larger (possibly 0), same kind, same depth unless emptied *)
Definition Pt (lo hi : option Z) (t : tree) : Prop :=
  forall k,
    match tdel V t k with
    | Some r =>
      alookup (contents t) k = Some (d_val r) /\
      contents (d_tree r) = aremove (contents t) k /\
      WFbody lo hi (d_tree r) /\ (tsize (d_tree r) <= tsize t)%nat /\
      is_leaf (d_tree r) = is_leaf t /\
      ((1 <= tsize (d_tree r))%nat -> depth (d_tree r) = depth t)
    | None => alookup (contents t) k = None
    end.

(* a suffix of a children list *)
Definition Pk (lf : bool) (d : nat) (first : bool) (lo hi : option Z) (l : list (Z * tree)) : Prop :=
  forall k,
    match dgo k first l with
    | Some (l', v) =>
      alookup (kcontents l) k = Some v /\
      kcontents l' = aremove (kcontents l) k /\
      WFkids lf d first lo hi l' /\ (length l' <= length l)%nat /\
      (first = false -> hi_le (next_hi hi l) (next_hi hi l'))
    | None => alookup (kcontents l) k = None
    end.

Lemma tsize0_contents : forall t : tree, tsize t = 0%nat -> contents t = [].
Proof. destruct t as [i [|]|i [|]]; simpl; intros; auto; discriminate. Qed.

Lemma size_ok_shrunk : forall c c' : tree,
  size_ok c -> (1 <= tsize c')%nat -> (tsize c' <= tsize c)%nat -> is_leaf c' = is_leaf c ->
  size_ok c'.
Proof.
  unfold TreeBase.size_ok. intros c c' H H1 H2 H3.
  rewrite (max_for_eq V ml mi c' c H3). lia.
Qed.

Lemma Pt_leaf : forall lo hi i l, ksorted l -> kwithin lo hi l -> Pt lo hi (Leaf i l).
Proof.
  intros lo hi i l Hs Hw k. rewrite tdel_Leaf.
  pose proof (ldel_cases V l k Hs) as H.
  destruct (ldel V l k) as [[l' x]|]; [|exact H].
  destruct H as (H1 & H2 & H3 & H4). simpl. subst l'.
  repeat split; auto.
  - constructor; [exact H4 | apply aremove_kwithin; exact Hw].
  - lia.
Qed.

Lemma Pt_node : forall lo hi i kids lf d,
  WFkids lf d true lo hi kids -> Pk lf d true lo hi kids -> Pt lo hi (Node i kids).
Proof.
  intros lo hi i kids lf d Hk IH k.
  pose proof (tdel_Node_dgo i kids k) as H. specialize (IH k).
  destruct (tdel V (Node i kids) k) as [r|].
  - destruct H as (kids' & E & H). rewrite H in IH.
    destruct IH as (I1 & I2 & I3 & I4 & _). rewrite E.
    rewrite !contents_Node. simpl tsize. simpl is_leaf.
    repeat split; auto.
    + econstructor. exact I3.
    + intros Hs. destruct kids' as [|[s' c'] r']; [simpl in Hs; lia|].
      destruct kids as [|[s c] r0]; [simpl in I4; lia|].
      rewrite (WFkids_depth V ml mi _ _ _ _ _ i _ _ _ I3).
      rewrite (WFkids_depth V ml mi _ _ _ _ _ i _ _ _ Hk). reflexivity.
  - rewrite H in IH. rewrite contents_Node. exact IH.
Qed.

(* Pk at one key *)
Definition Pk_at (lf : bool) (d : nat) (first : bool) (lo hi : option Z)
           (l : list (Z * tree)) (k : Z) : Prop :=
  match dgo k first l with
  | Some (l', v) =>
    alookup (kcontents l) k = Some v /\
    kcontents l' = aremove (kcontents l) k /\
    WFkids lf d first lo hi l' /\ (length l' <= length l)%nat /\
    (first = false -> hi_le (next_hi hi l) (next_hi hi l'))
  | None => alookup (kcontents l) k = None
  end.

(* the key belongs to a later child *)
Lemma Pk_skip : forall lf d first lo hi s c rest k,
  WFkids lf d first lo hi ((s, c) :: rest) ->
  Pk lf d false (lo_of first lo s) hi rest ->
  chosen V k rest = false ->
  Pk_at lf d first lo hi ((s, c) :: rest) k.
Proof.
  intros lf d first lo hi s c rest k Hk IH E. unfold Pk_at. cbn [dgo]. rewrite E.
  specialize (IH k).
  rewrite (alookup_kcontents_skip V ml mi _ _ _ _ _ _ _ _ _ Hk E).
  rewrite (aremove_kcontents_skip V ml mi _ _ _ _ _ _ _ _ _ Hk E).
  destruct (dgo k false rest) as [[l' v]|]; [|exact IH].
  destruct IH as (I1 & I2 & I3 & I4 & I5).
  repeat split.
  - exact I1.
  - rewrite kcontents_cons, I2. reflexivity.
  - eapply WFkids_cons_rest; [exact Hk | exact I3 | apply I5; reflexivity].
  - simpl. lia.
  - intros _. simpl. lia.
Qed.

(* the key belongs to the head child *)
Lemma Pk_here : forall lf d first lo hi s c rest k,
  WFkids lf d first lo hi ((s, c) :: rest) ->
  Pt (lo_of first lo s) (next_hi hi rest) c ->
  chosen V k rest = true ->
  Pk_at lf d first lo hi ((s, c) :: rest) k.
Proof.
  intros lf d first lo hi s c rest k Hk IH E. unfold Pk_at. cbn [dgo]. rewrite E.
  specialize (IH k).
  rewrite (alookup_kcontents_here V ml mi _ _ _ _ _ _ _ _ _ Hk E).
  rewrite (aremove_kcontents_here V ml mi _ _ _ _ _ _ _ _ _ Hk E).
  destruct (tdel V c k) as [r|]; [|exact IH].
  destruct IH as (I1 & I2 & I3 & I4 & I5 & I6).
  pose proof (WFkids_inv' V ml mi _ _ _ _ _ _ _ _ Hk) as (K1 & K2 & K3 & K4 & K5 & K6).
  cbv zeta. destruct (tsize (d_tree r) =? 0)%nat eqn:Ez.
  - (* the child became empty: removed *)
    apply Nat.eqb_eq in Ez. repeat split.
    + exact I1.
    + rewrite <- I2, (tsize0_contents _ Ez). reflexivity.
    + eapply WFkids_drop. exact Hk.
    + simpl. lia.
    + intros ->. simpl next_hi at 1. apply Below_hi_le.
      eapply WFkids_sep_below. exact Hk.
  - apply Nat.eqb_neq in Ez.
    assert (Sz : size_ok (d_tree r)) by (eapply size_ok_shrunk; eauto; lia).
    assert (Hd : depth (d_tree r) = d) by (rewrite I6; [exact K3 | lia]).
    assert (Hl : is_leaf (d_tree r) = lf) by congruence.
    destruct first; cbn [negb andb].
    + (* child 0: the separator is unused *)
      repeat split; [exact I1 | rewrite kcontents_cons, I2; reflexivity | | simpl; lia | discriminate].
      eapply WFkids_replace; eauto. discriminate.
    + destruct K1 as [K1|[K1 K1']]; [discriminate|].
      assert (Hmin : tmin (d_tree r) = hdkey (aremove (contents c) k)).
      { rewrite <- I2. eapply WFbody_tmin. exact I3. }
      simpl lo_of in *.
      destruct (k =? s) eqn:Eks.
      * (* the minimum of the child was deleted: separator refreshed *)
        assert (T0 : tmin (d_tree r) = Some (tmin0 (d_tree r))).
        { eapply WFbody_tmin0; [exact I3 | lia]. }
        repeat split; [exact I1 | rewrite kcontents_cons, I2; reflexivity | | simpl; lia | ].
        -- eapply WFkids_resep; eauto. apply K1.
        -- intros _. simpl.
           assert (Hw : Within (Some s) (next_hi hi rest) (tmin0 (d_tree r))).
           { eapply WFbody_inhabited; [exact I3 | lia]. }
           destruct Hw as [Hw _]. simpl in Hw. exact Hw.
      * apply Z.eqb_neq in Eks.
        assert (T0 : tmin (d_tree r) = Some s).
        { rewrite Hmin. apply hdkey_aremove_ne; [|exact Eks].
          rewrite <- (WFbody_tmin V ml mi _ _ _ K5). exact K1'. }
        repeat split; [exact I1 | rewrite kcontents_cons, I2; reflexivity | | simpl; lia | ].
        -- eapply WFkids_replace; eauto.
        -- intros _. simpl. lia.
Qed.

(* ---------- 4. the mutual induction ---------- *)
Lemma tdel_mut :
  (forall lo hi t, WFbody lo hi t -> Pt lo hi t) /\
  (forall lf d first lo hi l, WFkids lf d first lo hi l -> Pk lf d first lo hi l).
Proof.
  apply WF_mutind.
  - intros. apply Pt_leaf; assumption.
  - intros lo hi i kids lf d Hk IH. eapply Pt_node; eauto.
  - intros lf d first lo hi k. reflexivity.
  - intros lf d first lo hi s c rest H1 H2 H3 H4 Hc IHc Hr IHr k.
    assert (Hk : WFkids lf d first lo hi ((s, c) :: rest)) by (constructor; auto).
    destruct (chosen V k rest) eqn:E.
    + exact (Pk_here _ _ _ _ _ _ _ _ _ Hk IHc E).
    + exact (Pk_skip _ _ _ _ _ _ _ _ _ Hk IHr E).
Qed.

Lemma tdel_WFbody : forall lo hi t, WFbody lo hi t -> Pt lo hi t.
Proof. exact (proj1 tdel_mut). Qed.

End Del.

(* ---------- 5. the root ---------- *)
Lemma tdel_root : forall V ml mi (t : tree V) k,
  Inv V ml mi t ->
  match tdel V t k with
  | Some r => alookup (contents V t) k = Some (d_val r) /\
              contents V (d_tree r) = aremove (contents V t) k /\
              Inv V ml mi (d_tree r)
  | None => alookup (contents V t) k = None
  end.
Proof.
  intros V ml mi t k H.
  pose proof (Inv_WFbody V ml mi t H) as Hb.
  pose proof (tdel_WFbody V ml mi _ _ _ Hb k) as P.
  destruct (tdel V t k) as [r|]; [|exact P].
  destruct P as (P1 & P2 & P3 & P4 & P5 & _).
  split; [exact P1|]. split; [exact P2|].
  apply Inv_inv in H. destruct H as (i & kids & -> & H).
  destruct (d_tree r) as [j l|j kids']; [discriminate P5|].
  destruct kids' as [|sc r']; [apply Inv_Node_nil|].
  destruct H as [->|[Hs _]]; [simpl in P4; lia|].
  apply Inv_Node_intro; [|exact P3]. simpl in *. lia.
Qed.

Theorem inv_tdel : forall (V : Type) (ml mi : nat) (t : tree V) (k : Z) (r : dres V),
  (1 <= ml)%nat -> (2 <= mi)%nat -> Inv V ml mi t -> tdel V t k = Some r ->
  Inv V ml mi (d_tree r).
Proof.
  intros V ml mi t k r _ _ H E. pose proof (tdel_root V ml mi t k H) as P.
  rewrite E in P. apply P.
Qed.

Theorem tdel_contents : forall V ml mi (t : tree V) k,
  (1 <= ml)%nat -> (2 <= mi)%nat -> Inv V ml mi t ->
  match tdel V t k with
  | Some r => alookup (contents V t) k = Some (d_val r) /\
              contents V (d_tree r) = aremove (contents V t) k
  | None => alookup (contents V t) k = None
  end.
Proof.
  intros V ml mi t k _ _ H. pose proof (tdel_root V ml mi t k H) as P.
  destruct (tdel V t k) as [r|]; [|exact P]. split; apply P.
Qed.

Print Assumptions inv_tdel.
Print Assumptions tdel_contents.
