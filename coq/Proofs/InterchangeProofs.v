(* InterchangeProofs -- the two implementation flavours of the tree model
   (Model/TreeRun.v: switches [vsame] and [iand_rebuilds]) are interchangeable
   (C09): equal results and contents for every history, and equal trees
   (identities included) as long as &= is not used.  No axioms. *)
From Coq Require Import ZArith List Bool Arith Lia.
From BT Require Import Model.RTree Model.TreeSpec Model.TreeRun.
From BT Require Import Proofs.TreeBase Proofs.TreeSetProofs Proofs.TreeProofs.
Import ListNotations.
Open Scope Z_scope.

(* ================================================================== *)
(* 1. Results and contents: both flavours refine the same reference    *)
(* ================================================================== *)
Theorem results_equal : forall (vs vs' : bool) (ml mi : nat) (calls : list call),
  (1 <= ml)%nat -> (2 <= mi)%nat -> set_calls_ok calls = true ->
  let '(s1, o1) := run vs true ml mi init calls in
  let '(s2, o2) := run vs' false ml mi init calls in
  o1 = o2 /\ contents Z (t_tree s1) = contents Z (t_tree s2).
Proof.
  intros vs vs' ml mi calls Hml Hmi Hok.
  pose proof (run_refines vs true ml mi calls Hml Hmi (fun _ => Hok)) as P1.
  assert (H2 : false = true -> set_calls_ok calls = true) by (intros X; discriminate X).
  pose proof (run_refines vs' false ml mi calls Hml Hmi H2) as P2.
  destruct (run vs true ml mi init calls) as [s1 o1].
  destruct (run vs' false ml mi init calls) as [s2 o2].
  destruct (Spec.run [] calls) as [m os].
  destruct P1 as [A1 B1]. destruct P2 as [A2 B2].
  split; congruence.
Qed.

(* ================================================================== *)
(* 2. The value-same short cut does not influence tree and allocation  *)
(* ================================================================== *)
Definition is1 (st : status) : bool := match st with St1 => true | _ => false end.

Lemma lset_vs : forall (vs vs' : bool) (l : list (Z * Z)) (k v : Z) (iu : bool),
  fst (fst (lset Z Z.eqb vs l k v iu)) = fst (fst (lset Z Z.eqb vs' l k v iu)) /\
  is1 (snd (fst (lset Z Z.eqb vs l k v iu))) = is1 (snd (fst (lset Z Z.eqb vs' l k v iu))).
Proof.
  intros vs vs' l k v iu.
  induction l as [|[k' v'] r IH]; simpl.
  - split; reflexivity.
  - destruct (k ?= k') eqn:C.
    + destruct iu; simpl; [split; reflexivity|].
      destruct (v =? v') eqn:E.
      * apply Z.eqb_eq in E. subst v'.
        destruct vs, vs'; simpl; split; reflexivity.
      * rewrite !andb_false_r. split; reflexivity.
    + split; reflexivity.
    + destruct (lset Z Z.eqb vs r k v iu) as [[r1 st1] rv1].
      destruct (lset Z Z.eqb vs' r k v iu) as [[r2 st2] rv2].
      simpl in IH |- *. destruct IH as [IH1 IH2].
      split; [rewrite IH1; reflexivity | exact IH2].
Qed.

Section Core.
Variables ml mi : nat.

Definition score (r : sres Z) : tree Z * bool * nat := (s_tree r, is1 (s_st r), s_fresh r).
Definition gcore (x : list (Z * tree Z) * status * option Z * list event * nat * bool)
  : list (Z * tree Z) * bool * nat * bool :=
  let '(kids, st, _, _, f, g) := x in (kids, is1 st, f, g).

Lemma tset_go_vs : forall (vs vs' : bool) (k v : Z) (iu : bool) (l : list (Z * tree Z)),
  Forall (fun sc => forall fresh,
            score (tset Z Z.eqb vs ml mi fresh (snd sc) k v iu) =
            score (tset Z Z.eqb vs' ml mi fresh (snd sc) k v iu)) l ->
  forall (i : nat) (single : bool) (fresh : nat),
  gcore (tset_go Z Z.eqb vs ml mi i single fresh k v iu l) =
  gcore (tset_go Z Z.eqb vs' ml mi i single fresh k v iu l).
Proof.
  intros vs vs' k v iu l HF i single fresh.
  induction HF as [|[s c] rest Hc Hrest IH]; [reflexivity|].
  simpl tset_go. destruct (chosen Z k rest) eqn:Ch.
  - simpl in Hc. specialize (Hc fresh). unfold score in Hc.
    set (r1 := tset Z Z.eqb vs ml mi fresh c k v iu) in *.
    set (r2 := tset Z Z.eqb vs' ml mi fresh c k v iu) in *.
    injection Hc as E1 E2 E3.
    rewrite E1, E3.
    destruct (s_st r1), (s_st r2); simpl in E2; try discriminate E2; try reflexivity.
    destruct (max_for Z ml mi (s_tree r2) <? tsize Z (s_tree r2))%nat; [|reflexivity].
    unfold grow_at. destruct (split_node Z (s_fresh r2) (s_tree r2)) as [a b]. reflexivity.
  - destruct (tset_go Z Z.eqb vs ml mi i single fresh k v iu rest) as [[[[[k1 st1] rv1] ev1] f1] g1].
    destruct (tset_go Z Z.eqb vs' ml mi i single fresh k v iu rest) as [[[[[k2 st2] rv2] ev2] f2] g2].
    simpl in IH |- *. injection IH as F1 F2 F3 F4. subst. rewrite F2. reflexivity.
Qed.

Lemma tset_vs : forall (vs vs' : bool) (k v : Z) (iu : bool) (t : tree Z) (fresh : nat),
  score (tset Z Z.eqb vs ml mi fresh t k v iu) = score (tset Z Z.eqb vs' ml mi fresh t k v iu).
Proof.
  intros vs vs' k v iu t.
  induction t as [i l | i kids IH] using (TreeBase.tree_ind' Z); intros fresh.
  - simpl. pose proof (lset_vs vs vs' l k v iu) as [L1 L2].
    destruct (lset Z Z.eqb vs l k v iu) as [[l1 st1] rv1].
    destruct (lset Z Z.eqb vs' l k v iu) as [[l2 st2] rv2].
    simpl in L1, L2. unfold score. simpl. rewrite L1, L2. reflexivity.
  - destruct kids as [|x r]; [reflexivity|].
    rewrite !tset_Node.
    pose proof (tset_go_vs vs vs' k v iu (x :: r) IH i (length (x :: r) =? 1)%nat fresh) as G.
    destruct (tset_go Z Z.eqb vs ml mi i (length (x :: r) =? 1)%nat fresh k v iu (x :: r))
      as [[[[[k1 st1] rv1] ev1] f1] g1].
    destruct (tset_go Z Z.eqb vs' ml mi i (length (x :: r) =? 1)%nat fresh k v iu (x :: r))
      as [[[[[k2 st2] rv2] ev2] f2] g2].
    simpl in G. injection G as G1 G2 G3 G4. subst k2 f2 g2.
    destruct (g1 && (2 * mi <=? length k1)%nat).
    + destruct (split_root Z f1 k1) as [[kk ff] ee]. unfold score. simpl. rewrite G2. reflexivity.
    + unfold score. simpl. rewrite G2. reflexivity.
Qed.

(* ================================================================== *)
(* 3. setdefault on a present key leaves tree and allocation alone     *)
(* ================================================================== *)
Lemma lset_present : forall (vs : bool) (l : list (Z * Z)) (k v x : Z),
  llookup Z l k = Some x -> lset Z Z.eqb vs l k v true = (l, StNone, x).
Proof.
  intros vs l k v x. induction l as [|[k' v'] r IH]; simpl; intros H.
  - discriminate H.
  - destruct (k ?= k').
    + injection H as H. subst v'. reflexivity.
    + discriminate H.
    + rewrite (IH H). reflexivity.
Qed.

Lemma tset_go_present : forall (vs : bool) (k v x : Z) (l : list (Z * tree Z)),
  Forall (fun sc => forall fresh, tget Z (snd sc) k = Some x ->
            s_tree (tset Z Z.eqb vs ml mi fresh (snd sc) k v true) = snd sc /\
            s_fresh (tset Z Z.eqb vs ml mi fresh (snd sc) k v true) = fresh /\
            s_st (tset Z Z.eqb vs ml mi fresh (snd sc) k v true) = StNone) l ->
  forall (i : nat) (single : bool) (fresh : nat),
  tget_go Z k l = Some x ->
  exists rv ev, tset_go Z Z.eqb vs ml mi i single fresh k v true l = (l, StNone, rv, ev, fresh, false).
Proof.
  intros vs k v x l HF i single fresh.
  induction HF as [|[s c] rest Hc Hrest IH]; simpl tget_go; intros H.
  - discriminate H.
  - simpl tset_go. destruct (chosen Z k rest) eqn:Ch.
    + simpl in Hc. destruct (Hc fresh H) as (E1 & E2 & E3).
      rewrite E3, E1, E2. eexists. eexists. reflexivity.
    + destruct (IH H) as (rv & ev & E). rewrite E. eexists. eexists. reflexivity.
Qed.

Lemma tset_present : forall (vs : bool) (k v x : Z) (t : tree Z) (fresh : nat),
  tget Z t k = Some x ->
  s_tree (tset Z Z.eqb vs ml mi fresh t k v true) = t /\
  s_fresh (tset Z Z.eqb vs ml mi fresh t k v true) = fresh /\
  s_st (tset Z Z.eqb vs ml mi fresh t k v true) = StNone.
Proof.
  intros vs k v x t.
  induction t as [i l | i kids IH] using (TreeBase.tree_ind' Z); intros fresh H.
  - simpl in H. simpl. rewrite (lset_present vs l k v x H). simpl. repeat split; reflexivity.
  - destruct kids as [|y r]; [simpl in H; discriminate H|].
    rewrite tget_Node in H. rewrite tset_Node.
    destruct (tset_go_present vs k v x (y :: r) IH i (length (y :: r) =? 1)%nat fresh H) as (rv & ev & E).
    rewrite E. simpl. repeat split; reflexivity.
Qed.

(* ================================================================== *)
(* 4. States: tree and allocation counter (the event log is ignored)   *)
(* ================================================================== *)
Definition core (s : st) : tree Z * nat := (t_tree s, t_fresh s).

Lemma core_tree : forall s1 s2, core s1 = core s2 -> t_tree s1 = t_tree s2.
Proof. intros s1 s2 E. unfold core in E. injection E as E1 E2. exact E1. Qed.

Lemma do_set_core : forall (vs vs' : bool) (s1 s2 : st) (k v : Z) (iu : bool),
  core s1 = core s2 ->
  core (fst (fst (do_set vs ml mi s1 k v iu))) = core (fst (fst (do_set vs' ml mi s2 k v iu))) /\
  is1 (snd (fst (do_set vs ml mi s1 k v iu))) = is1 (snd (fst (do_set vs' ml mi s2 k v iu))).
Proof.
  intros vs vs' s1 s2 k v iu E. unfold core in E. injection E as Et Ef.
  unfold do_set, T_set, core. simpl. rewrite Et, Ef.
  pose proof (tset_vs vs vs' k v iu (t_tree s2) (t_fresh s2)) as S.
  unfold score in S. injection S as S1 S2 S3.
  rewrite S1, S2, S3. split; reflexivity.
Qed.

Lemma do_set_present : forall (vs : bool) (s : st) (k v x : Z),
  tget Z (t_tree s) k = Some x ->
  core (fst (fst (do_set vs ml mi s k v true))) = core s.
Proof.
  intros vs s k v x H. unfold do_set, T_set, core. simpl.
  destruct (tset_present vs k v x (t_tree s) (t_fresh s) H) as (E1 & E2 & _).
  rewrite E1, E2. reflexivity.
Qed.

Lemma del_failed_core : forall (ir : bool) (s : st) (k : Z), core (del_failed ir s k) = core s.
Proof.
  intros ir s k. destruct s as [t f e]. unfold del_failed, core. simpl.
  destruct t as [i l | i [|x r]]; destruct ir; reflexivity.
Qed.

Lemma quirk_core : forall (ir : bool) (s : st) (stt : status),
  core (set_nochange_quirk ir s stt) = core s.
Proof.
  intros ir s stt. destruct s as [t f e]. unfold set_nochange_quirk, core. simpl.
  destruct stt; try reflexivity.
  destruct t as [i l | i [|[z [j l | j kk]] [|y r]]]; try reflexivity.
  destruct ir; reflexivity.
Qed.

Lemma do_clear_core : forall (ir ir' : bool) (s1 s2 : st),
  core s1 = core s2 -> core (do_clear ir s1) = core (do_clear ir' s2).
Proof.
  intros ir ir' s1 s2 E. destruct s1 as [t1 f1 e1]. destruct s2 as [t2 f2 e2].
  unfold core in E. simpl in E. injection E as Et Ef. subst t2 f2.
  unfold do_clear, core. simpl.
  destruct t1 as [i [|p l] | i [|x r]]; reflexivity.
Qed.

Lemma do_del_core : forall (s1 s2 : st) (k : Z),
  core s1 = core s2 ->
  match do_del s1 k, do_del s2 k with
  | Some (a, x), Some (b, y) => core a = core b /\ x = y
  | None, None => True
  | _, _ => False
  end.
Proof.
  intros s1 s2 k E. destruct s1 as [t1 f1 e1]. destruct s2 as [t2 f2 e2].
  unfold core in E. simpl in E. injection E as Et Ef. subst t2 f2.
  unfold do_del, T_del. simpl.
  destruct (tdel Z t1 k) as [r|]; [|exact I].
  unfold core. simpl. split; reflexivity.
Qed.

Lemma has_core : forall (s1 s2 : st) (k : Z), core s1 = core s2 -> has s1 k = has s2 k.
Proof. intros s1 s2 k E. unfold has. rewrite (core_tree s1 s2 E). reflexivity. Qed.

Lemma discard_core : forall (ir ir' : bool) (s1 s2 : st) (k : Z),
  core s1 = core s2 -> core (discard ir s1 k) = core (discard ir' s2 k).
Proof.
  intros ir ir' s1 s2 k E. unfold discard. rewrite (has_core s1 s2 k E).
  destruct (has s2 k).
  - pose proof (do_del_core s1 s2 k E) as D.
    destruct (do_del s1 k) as [[a x]|]; destruct (do_del s2 k) as [[b y]|];
      try contradiction.
    + destruct D as [D _]. exact D.
    + exact E.
  - destruct ir, ir'; rewrite ?del_failed_core; exact E.
Qed.

Lemma add_core : forall (vs vs' ir ir' : bool) (s1 s2 : st) (k : Z),
  core s1 = core s2 -> core (add vs ir ml mi s1 k) = core (add vs' ir' ml mi s2 k).
Proof.
  intros vs vs' ir ir' s1 s2 k E. unfold add.
  pose proof (do_set_core vs vs' s1 s2 k 0 true E) as [D _].
  destruct (do_set vs ml mi s1 k 0 true) as [[a st1] rv1].
  destruct (do_set vs' ml mi s2 k 0 true) as [[b st2] rv2].
  simpl in D. rewrite !quirk_core. exact D.
Qed.

Lemma fold_core : forall (A : Type) (f g : st -> A -> st),
  (forall a s1 s2, core s1 = core s2 -> core (f s1 a) = core (g s2 a)) ->
  forall (l : list A) (s1 s2 : st),
  core s1 = core s2 -> core (fold_left f l s1) = core (fold_left g l s2).
Proof.
  intros A f g H l. induction l as [|a r IH]; intros s1 s2 E; simpl.
  - exact E.
  - apply IH. apply H. exact E.
Qed.

(* ================================================================== *)
(* 5. One call, then a history                                         *)
(* ================================================================== *)
Lemma step_core : forall (vs vs' : bool) (s1 s2 : st) (c : call),
  is_iand c = false -> core s1 = core s2 ->
  core (fst (step vs true ml mi s1 c)) = core (fst (step vs' false ml mi s2 c)).
Proof.
  intros vs vs' s1 s2 c Hc E.
  pose proof (core_tree s1 s2 E) as Et.
  assert (Hset : forall k v iu,
    core (fst (fst (do_set vs ml mi s1 k v iu))) = core (fst (fst (do_set vs' ml mi s2 k v iu)))).
  { intros k v iu. apply (do_set_core vs vs' s1 s2 k v iu E). }
  assert (Hdel : forall (k : Z) (o1 o2 : Z -> out) (f1 f2 : st) (e1 e2 : out),
    core f1 = core f2 ->
    core (fst (match do_del s1 k with Some (s', x) => (s', o1 x) | None => (f1, e1) end)) =
    core (fst (match do_del s2 k with Some (s', x) => (s', o2 x) | None => (f2, e2) end))).
  { intros k o1 o2 f1 f2 e1 e2 Ef. pose proof (do_del_core s1 s2 k E) as D.
    destruct (do_del s1 k) as [[a x]|]; destruct (do_del s2 k) as [[b y]|]; try contradiction.
    - destruct D as [D _]. exact D.
    - exact Ef. }
  destruct c; simpl in Hc; try discriminate Hc; cbv beta iota delta [step].
  - (* CSet *) specialize (Hset k v false).
    destruct (do_set vs ml mi s1 k v false) as [[a st1] rv1].
    destruct (do_set vs' ml mi s2 k v false) as [[b st2] rv2]. exact Hset.
  - (* CDel *) apply (Hdel k (fun _ => ONone) (fun _ => ONone)). rewrite !del_failed_core. exact E.
  - (* CInsert *) specialize (Hset k v true).
    destruct (do_set vs ml mi s1 k v true) as [[a st1] rv1].
    destruct (do_set vs' ml mi s2 k v true) as [[b st2] rv2]. exact Hset.
  - (* CSetdefault *)
    destruct (tget Z (t_tree s1) k) as [x|] eqn:G.
    + rewrite Et in G. pose proof (do_set_present vs' s2 k v x G) as P.
      destruct (do_set vs' ml mi s2 k v true) as [[b st2] rv2]. cbn [fst] in P |- *.
      rewrite P. exact E.
    + specialize (Hset k v true).
      destruct (do_set vs ml mi s1 k v true) as [[a st1] rv1].
      destruct (do_set vs' ml mi s2 k v true) as [[b st2] rv2]. exact Hset.
  - (* CPop *) apply (Hdel k OVal OVal). rewrite del_failed_core. exact E.
  - (* CPopD *) apply (Hdel k OVal OVal). rewrite del_failed_core. exact E.
  - (* CPopitem *) rewrite Et.
    destruct (contents Z (t_tree s2)) as [|[k v] r]; [exact E|].
    apply (Hdel k (fun _ => OKV k v) (fun _ => OKV k v)). exact E.
  - (* CUpdate *)
    apply fold_core; [|exact E].
    intros a u1 u2 Eu.
    pose proof (do_set_core vs vs' u1 u2 (fst (of_kv a)) (snd (of_kv a)) false Eu) as [D _].
    destruct (do_set vs ml mi u1 (fst (of_kv a)) (snd (of_kv a)) false) as [[a1 st1] rv1].
    destruct (do_set vs' ml mi u2 (fst (of_kv a)) (snd (of_kv a)) false) as [[a2 st2] rv2].
    exact D.
  - (* CClear *) apply do_clear_core. exact E.
  - exact E.
  - exact E.
  - exact E.
  - exact E.
  - exact E.
  - exact E.
  - exact E.
  - exact E.
  - exact E.
  - (* CAdd *) specialize (Hset k 0 true).
    destruct (do_set vs ml mi s1 k 0 true) as [[a st1] rv1].
    destruct (do_set vs' ml mi s2 k 0 true) as [[b st2] rv2].
    cbn [fst] in Hset |- *. rewrite !quirk_core. exact Hset.
  - (* CRemove *) apply (Hdel k (fun _ => ONone) (fun _ => ONone)). rewrite !del_failed_core. exact E.
  - (* CDiscard *) apply discard_core. exact E.
  - (* CSPop *) rewrite Et.
    destruct (contents Z (t_tree s2)) as [|[k v] r]; [exact E|].
    cbn [fst]. apply discard_core. exact E.
  - (* CSUpdate *) apply fold_core; [|exact E]. intros a u1 u2 Eu. apply add_core. exact Eu.
  - (* CIor *) apply fold_core; [|exact E]. intros a u1 u2 Eu. apply add_core. exact Eu.
  - (* CIsub *) apply fold_core; [|exact E]. intros a u1 u2 Eu. apply discard_core. exact Eu.
  - (* CIxor *) apply fold_core; [|exact E]. intros a u1 u2 Eu.
    rewrite (has_core u1 u2 a Eu). destruct (has u2 a); [apply discard_core | apply add_core]; exact Eu.
  - exact E.
Qed.

Lemma run_core : forall (vs vs' : bool) (calls : list call) (s1 s2 : st),
  existsb is_iand calls = false -> core s1 = core s2 ->
  core (fst (run vs true ml mi s1 calls)) = core (fst (run vs' false ml mi s2 calls)).
Proof.
  intros vs vs' calls. induction calls as [|c r IH]; intros s1 s2 Hc E; simpl.
  - exact E.
  - simpl in Hc. apply orb_false_iff in Hc. destruct Hc as [Hc Hr].
    pose proof (step_core vs vs' s1 s2 c Hc E) as S.
    destruct (step vs true ml mi s1 c) as [a1 o1].
    destruct (step vs' false ml mi s2 c) as [a2 o2].
    simpl in S. specialize (IH a1 a2 Hr S).
    destruct (run vs true ml mi a1 r) as [b1 os1].
    destruct (run vs' false ml mi a2 r) as [b2 os2].
    exact IH.
Qed.

End Core.

Theorem shape_equal : forall (vs vs' : bool) (ml mi : nat) (calls : list call),
  (1 <= ml)%nat -> (2 <= mi)%nat -> existsb is_iand calls = false ->
  t_tree (fst (run vs true ml mi init calls)) = t_tree (fst (run vs' false ml mi init calls)).
Proof.
  intros vs vs' ml mi calls _ _ Hc.
  apply core_tree. apply run_core; [exact Hc | reflexivity].
Qed.

Print Assumptions results_equal.
Print Assumptions shape_equal.
