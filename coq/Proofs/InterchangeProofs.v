(* InterchangeProofs -- the two implementation flavours of the tree model
   (Model/TreeRun.v: switches [vsame] and [iand_rebuilds]) are interchangeable
   (C09): equal results and contents for every history, and equal trees
   (identities included) as long as &= is not used.  No axioms. *)
From Coq Require Import ZArith List Bool Arith Lia.
From BT Require Import Model.RTree Model.TreeSpec Model.TreeRun.
From BT Require Import Proofs.TreeBase Proofs.TreeSetProofs Proofs.TreeProofs.
Import ListNotations.
Open Scope Z_scope.

(* ================================================================== *)
(* 1. Results and contents: both flavours refine the same reference    *)
(* ================================================================== *)
Theorem results_equal : forall (vs vs' : bool) (ml mi : nat) (calls : list call),
  (1 <= ml)%nat -> (2 <= mi)%nat -> set_calls_ok calls = true ->
  let '(s1, o1) := run vs true ml mi init calls in
  let '(s2, o2) := run vs' false ml mi init calls in
  o1 = o2 /\ contents Z (t_tree s1) = contents Z (t_tree s2).
Proof.
  intros vs vs' ml mi calls Hml Hmi Hok.
  pose proof (run_refines vs true ml mi calls Hml Hmi (fun _ => Hok)) as P1.
  assert (H2 : false = true -> set_calls_ok calls = true) by (intros X; discriminate X).
  pose proof (run_refines vs' false ml mi calls Hml Hmi H2) as P2.
  destruct (run vs true ml mi init calls) as [s1 o1].
  destruct (run vs' false ml mi init calls) as [s2 o2].
  destruct (Spec.run [] calls) as [m os].
  destruct P1 as [A1 B1]. destruct P2 as [A2 B2].
  split; congruence.
Qed.

(* ================================================================== *)
(* 2. The value-same short cut does not influence tree and allocation  *)
(* ================================================================== *)
Definition is1 (st : status) : bool := match st with St1 => true | _ => false end.

Lemma lset_vs : forall (vs vs' : bool) (l : list (Z * Z)) (k v : Z) (iu : bool),
  fst (fst (lset Z Z.eqb vs l k v iu)) = fst (fst (lset Z Z.eqb vs' l k v iu)) /\
  is1 (snd (fst (lset Z Z.eqb vs l k v iu))) = is1 (snd (fst (lset Z Z.eqb vs' l k v iu))).
Proof.
  intros vs vs' l k v iu.
  induction l as [|[k' v'] r IH]; simpl.
  - split; reflexivity.
  - destruct (k ?= k') eqn:C.
    + destruct iu; simpl; [split; reflexivity|].
      destruct (v =? v') eqn:E.
      * apply Z.eqb_eq in E. subst v'.
        destruct vs, vs'; simpl; split; reflexivity.
      * rewrite !andb_false_r. split; reflexivity.
    + split; reflexivity.
    + destruct (lset Z Z.eqb vs r k v iu) as [[r1 st1] rv1].
      destruct (lset Z Z.eqb vs' r k v iu) as [[r2 st2] rv2].
      simpl in IH |- *. destruct IH as [IH1 IH2].
      split; [rewrite IH1; reflexivity | exact IH2].
Qed.

Section Core.
Variables ml mi : nat.

Definition score (r : sres Z) : tree Z * bool * nat := (s_tree r, is1 (s_st r), s_fresh r).
Definition gcore (x : list (Z * tree Z) * status * option Z * list event * nat * bool)
  : list (Z * tree Z) * bool * nat * bool :=
  let '(kids, st, _, _, f, g) := x in (kids, is1 st, f, g).

Lemma tset_go_vs : forall (vs vs' : bool) (k v : Z) (iu : bool) (l : list (Z * tree Z)),
  Forall (fun sc => forall fresh,
            score (tset Z Z.eqb vs ml mi fresh (snd sc) k v iu) =
            score (tset Z Z.eqb vs' ml mi fresh (snd sc) k v iu)) l ->
  forall (i : nat) (single : bool) (fresh : nat),
  gcore (tset_go Z Z.eqb vs ml mi i single fresh k v iu l) =
  gcore (tset_go Z Z.eqb vs' ml mi i single fresh k v iu l).
Proof.
  intros vs vs' k v iu l HF i single fresh.
  induction HF as [|[s c] rest Hc Hrest IH]; [reflexivity|].
  simpl tset_go. destruct (chosen Z k rest) eqn:Ch.
  - simpl in Hc. specialize (Hc fresh). unfold score in Hc.
    set (r1 := tset Z Z.eqb vs ml mi fresh c k v iu) in *.
    set (r2 := tset Z Z.eqb vs' ml mi fresh c k v iu) in *.
    injection Hc as E1 E2 E3.
    rewrite E1, E3.
    destruct (s_st r1), (s_st r2); simpl in E2; try discriminate E2; try reflexivity.
    destruct (max_for Z ml mi (s_tree r2) <? tsize Z (s_tree r2))%nat; [|reflexivity].
    unfold grow_at. destruct (split_node Z (s_fresh r2) (s_tree r2)) as [a b]. reflexivity.
  - destruct (tset_go Z Z.eqb vs ml mi i single fresh k v iu rest) as [[[[[k1 st1] rv1] ev1] f1] g1].
    destruct (tset_go Z Z.eqb vs' ml mi i single fresh k v iu rest) as [[[[[k2 st2] rv2] ev2] f2] g2].
    simpl in IH |- *. injection IH as F1 F2 F3 F4. subst. rewrite F2. reflexivity.
Qed.

Lemma tset_vs : forall (vs vs' : bool) (k v : Z) (iu : bool) (t : tree Z) (fresh : nat),
  score (tset Z Z.eqb vs ml mi fresh t k v iu) = score (tset Z Z.eqb vs' ml mi fresh t k v iu).
Proof.
  intros vs vs' k v iu t.
  induction t as [i l | i kids IH] using (TreeBase.tree_ind' Z); intros fresh.
  - simpl. pose proof (lset_vs vs vs' l k v iu) as [L1 L2].
    destruct (lset Z Z.eqb vs l k v iu) as [[l1 st1] rv1].
    destruct (lset Z Z.eqb vs' l k v iu) as [[l2 st2] rv2].
    simpl in L1, L2. unfold score. simpl. rewrite L1, L2. reflexivity.
  - destruct kids as [|x r]; [reflexivity|].
    rewrite !tset_Node.
    pose proof (tset_go_vs vs vs' k v iu (x :: r) IH i (length (x :: r) =? 1)%nat fresh) as G.
    destruct (tset_go Z Z.eqb vs ml mi i (length (x :: r) =? 1)%nat fresh k v iu (x :: r))
      as [[[[[k1 st1] rv1] ev1] f1] g1].
    destruct (tset_go Z Z.eqb vs' ml mi i (length (x :: r) =? 1)%nat fresh k v iu (x :: r))
      as [[[[[k2 st2] rv2] ev2] f2] g2].
    simpl in G. injection G as G1 G2 G3 G4. subst k2 f2 g2.
    destruct (g1 && (2 * mi <=? length k1)%nat).
    + destruct (split_root Z f1 k1) as [[kk ff] ee]. unfold score. simpl. rewrite G2. reflexivity.
    + unfold score. simpl. rewrite G2. reflexivity.
Qed.

(* ================================================================== *)
(* 3. setdefault on a present key leaves tree and allocation alone     *)
(* ================================================================== *)
Lemma lset_present : forall (vs : bool) (l : list (Z * Z)) (k v x : Z),
  llookup Z l k = Some x -> lset Z Z.eqb vs l k v true = (l, StNone, x).
Proof.
  intros vs l k v x. induction l as [|[k' v'] r IH]; simpl; intros H.
  - discriminate H.
  - destruct (k ?= k').
    + injection H as H. subst v'. reflexivity.
    + discriminate H.
    + rewrite (IH H). reflexivity.
Qed.

Lemma tset_go_present : forall (vs : bool) (k v x : Z) (l : list (Z * tree Z)),
  Forall (fun sc => forall fresh, tget Z (snd sc) k = Some x ->
            s_tree (tset Z Z.eqb vs ml mi fresh (snd sc) k v true) = snd sc /\
            s_fresh (tset Z Z.eqb vs ml mi fresh (snd sc) k v true) = fresh /\
            s_st (tset Z Z.eqb vs ml mi fresh (snd sc) k v true) = StNone) l ->
  forall (i : nat) (single : bool) (fresh : nat),
  tget_go Z k l = Some x ->
  exists rv ev, tset_go Z Z.eqb vs ml mi i single fresh k v true l = (l, StNone, rv, ev, fresh, false).
Proof.
  intros vs k v x l HF i single fresh.
  induction HF as [|[s c] rest Hc Hrest IH]; simpl tget_go; intros H.
  - discriminate H.
  - simpl tset_go. destruct (chosen Z k rest) eqn:Ch.
    + simpl in Hc. destruct (Hc fresh H) as (E1 & E2 & E3).
      rewrite E3, E1, E2. eexists. eexists. reflexivity.
    + destruct (IH H) as (rv & ev & E). rewrite E. eexists. eexists. reflexivity.
Qed.

Lemma tset_present : forall (vs : bool) (k v x : Z) (t : tree Z) (fresh : nat),
  tget Z t k = Some x ->
  s_tree (tset Z Z.eqb vs ml mi fresh t k v true) = t /\
  s_fresh (tset Z Z.eqb vs ml mi fresh t k v true) = fresh /\
  s_st (tset Z Z.eqb vs ml mi fresh t k v true) = StNone.
Proof.
  intros vs k v x t.
  induction t as [i l | i kids IH] using (TreeBase.tree_ind' Z); intros fresh H.
  - simpl in H. simpl. rewrite (lset_present vs l k v x H). simpl. repeat split; reflexivity.
  - destruct kids as [|y r]; [simpl in H; discriminate H|].
    rewrite tget_Node in H. rewrite tset_Node.
    destruct (tset_go_present vs k v x (y :: r) IH i (length (y :: r) =? 1)%nat fresh H) as (rv & ev & E).
    rewrite E. simpl. repeat split; reflexivity.
Qed.
