(* WrapProofs -- what the C flavour of the weighted merges computes when the
   exact result leaves the value type (finding F10a): the exact value reduced
   modulo 2^w into the type's range -- nothing else.  No axioms. *)
From Coq Require Import ZArith Lia.
From BT Require Import Model.SetOps.
Open Scope Z_scope.

Lemma wrap_signed_add : forall m c a b, 0 < m ->
  ((((a + c) mod m - c) + ((b + c) mod m - c)) + c) mod m - c = ((a + b) + c) mod m - c.
Proof.
  intros m c a b Hm. f_equal.
  replace ((a + c) mod m - c + ((b + c) mod m - c) + c) with ((a + c) mod m + ((b + c) mod m - c)) by ring.
  rewrite Z.add_mod_idemp_l by lia.
  replace (a + c + ((b + c) mod m - c)) with ((b + c) mod m + a) by ring.
  rewrite Z.add_mod_idemp_l by lia. f_equal. ring.
Qed.

Theorem wmerge_is_reduction : forall kind w1 w2 v1 v2,
  wmerge (wrap_of kind) w1 w2 v1 v2 = wrap_of kind (v1 * w1 + v2 * w2).
Proof.
  intros kind w1 w2 v1 v2. unfold wmerge, wrap_of.
  destruct (kind =? 1); [apply wrap_signed_add; reflexivity|].
  destruct (kind =? 2); [apply wrap_signed_add; reflexivity|].
  destruct (kind =? 3); [rewrite <- Z.add_mod by (intro E; discriminate E); reflexivity|].
  destruct (kind =? 4); [rewrite <- Z.add_mod by (intro E; discriminate E); reflexivity|].
  reflexivity.
Qed.

(* the reduction is the identity on the type and lands in the type *)
Theorem wrap_of_range : forall x,
  (- 2^31 <= wrap_of 1 x < 2^31) /\ (- 2^63 <= wrap_of 2 x < 2^63) /\
  (0 <= wrap_of 3 x < 2^32) /\ (0 <= wrap_of 4 x < 2^64).
Proof.
  intros x.
  change (wrap_of 1 x) with ((x + 2^31) mod 2^32 - 2^31). change (wrap_of 2 x) with ((x + 2^63) mod 2^64 - 2^63).
  change (wrap_of 3 x) with (x mod 2^32). change (wrap_of 4 x) with (x mod 2^64).
  pose proof (Z.mod_pos_bound (x + 2^31) (2^32) ltac:(reflexivity)).
  pose proof (Z.mod_pos_bound (x + 2^63) (2^64) ltac:(reflexivity)).
  pose proof (Z.mod_pos_bound x (2^32) ltac:(reflexivity)).
  pose proof (Z.mod_pos_bound x (2^64) ltac:(reflexivity)).
  change (2^32) with 4294967296 in *. change (2^31) with 2147483648 in *.
  change (2^64) with 18446744073709551616 in *. change (2^63) with 9223372036854775808 in *. lia.
Qed.
