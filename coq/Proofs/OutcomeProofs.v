(* C08 at the level of one leaf: the second commit either conflicts or stores
   the original with both (disjoint) change sets applied -- nothing else.
   Corollary of the C07 theorems. *)
From Coq Require Import ZArith List Bool.
From BT Require Import Model.Merge Model.MergeSpec Proofs.MergeProofs.
Import ListNotations.
Open Scope Z_scope.

Section Outcome.
Variable V : Type.
Variable veq : V -> V -> bool.
Hypothesis veq_spec : forall a b, veq a b = true <-> a = b.

Lemma leaf_outcome : forall o c n : leafstate V,
  keys_sorted V (fst o) /\ keys_sorted V (fst c) /\ keys_sorted V (fst n) ->
  (exists p1 p2 p3 reason, bucket_resolve V veq o c n = RConflict p1 p2 p3 reason) \/
  (exists r, bucket_resolve V veq o c n = ROk (r, snd o) /\
             merged V (fst o) (fst c) (fst n) r /\ r <> [] /\
             (forall k, ~ (touched V (fst o) (fst c) k /\ touched V (fst o) (fst n) k))).
Proof.
  intros o c n S.
  destruct (bucket_resolve V veq o c n) as [[r x]|p1 p2 p3 reason| |] eqn:E.
  - right.
    assert (G : guard V o c n).
    { apply (resolve_exact V veq veq_spec o c n S). exists (r, x). exact E. }
    destruct (resolve_result V veq veq_spec o c n r x S E) as (Hx & Hm & Hne).
    exists r. subst x.
    destruct G as (_ & _ & _ & _ & D & _).
    split; [reflexivity | split; [exact Hm | split; [exact Hne | exact D]]].
  - left. eauto.
  - exfalso.
    assert (NG : ~ guard V o c n).
    { intro G. apply (resolve_exact V veq veq_spec o c n S) in G. destruct G as (s & Hs). congruence. }
    destruct (resolve_refusal V veq veq_spec o c n S NG) as (p1 & p2 & p3 & reason & Hr & _). congruence.
  - exfalso.
    assert (NG : ~ guard V o c n).
    { intro G. apply (resolve_exact V veq veq_spec o c n S) in G. destruct G as (s & Hs). congruence. }
    destruct (resolve_refusal V veq veq_spec o c n S NG) as (p1 & p2 & p3 & reason & Hr & _). congruence.
Qed.

Lemma opt_dec : forall a b : option V, a = b \/ a <> b.
Proof.
  intros [a|] [b|]; try (right; discriminate); try (left; reflexivity).
  destruct (veq a b) eqn:E.
  - left. f_equal. apply veq_spec. exact E.
  - right. intro H. inversion H; subst. assert (veq b b = true) by (apply veq_spec; reflexivity). congruence.
Qed.

(* a transaction that changed nothing does not disturb the other one: the
   serial result *)
Lemma leaf_outcome_serial : forall (o c n : leafstate V) r,
  keys_sorted V (fst o) /\ keys_sorted V (fst c) /\ keys_sorted V (fst n) ->
  bucket_resolve V veq o c n = ROk (r, snd o) ->
  (fst n = fst o -> forall k, lookup V r k = lookup V (fst c) k) /\
  (fst c = fst o -> forall k, lookup V r k = lookup V (fst n) k).
Proof.
  intros o c n r S E.
  destruct (resolve_result V veq veq_spec o c n r (snd o) S E) as (_ & (_ & Hm) & _).
  split; intros Heq k; destruct (Hm k) as (Ht & Hn).
  - destruct (opt_dec (lookup V (fst o) k) (lookup V (fst c) k)) as [e|ne].
    + rewrite (Hn (fun T => T e)). rewrite Heq. exact e.
    + apply Ht. exact ne.
  - apply Hn. unfold touched. rewrite Heq. intro T. apply T. reflexivity.
Qed.
End Outcome.
