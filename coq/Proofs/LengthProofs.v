(* Lemmas about the model of BTrees.Length that harness/translate.py
   regenerates from /repo/src/BTrees/Length.py on every run. *)
From Coq Require Import ZArith List Lia Permutation.
From BT Require Import Gen.LengthGen.
Import ListNotations.
Open Scope Z_scope.

Lemma resolve_no_lost_update self old a b :
  L_resolve self old (old + a) (old + b) = old + a + b.
Proof. unfold L_resolve; lia. Qed.

Lemma resolve_comm self old s1 s2 :
  L_resolve self old s1 s2 = L_resolve self old s2 s1.
Proof. unfold L_resolve; lia. Qed.

(* The answer does not depend on the in-memory object doing the resolution. *)
Lemma resolve_self_irrelevant s s' old s1 s2 :
  L_resolve s old s1 s2 = L_resolve s' old s1 s2.
Proof. unfold L_resolve; lia. Qed.

(* n concurrent transactions, each adding its own delta to the state it read
   (the committed state at its start, [old]); they are committed one after
   the other, each later one being resolved against what is then stored. *)
Fixpoint commit_all (self old cur : Z) (deltas : list Z) : Z :=
  match deltas with
  | [] => cur
  | d :: ds => commit_all self old (L_resolve self old cur (old + d)) ds
  end.

Definition zsum (l : list Z) : Z := fold_right Z.add 0 l.

Lemma commit_all_sum self old cur ds :
  commit_all self old cur ds = cur + zsum ds.
Proof.
  revert cur; induction ds as [|d ds IH]; intros cur; unfold zsum in *; cbn [commit_all fold_right].
  - lia.
  - rewrite IH. unfold L_resolve. lia.
Qed.

Lemma zsum_perm l l' : Permutation l l' -> zsum l = zsum l'.
Proof.
  induction 1 as [| x l l' _ IH | x y l | l l' l'' _ IH1 _ IH2]; unfold zsum in *; cbn [fold_right] in *; lia.
Qed.

Lemma n_way self old ds ds' :
  Permutation ds ds' ->
  commit_all self old old ds = old + zsum ds /\
  commit_all self old old ds' = commit_all self old old ds.
Proof.
  intros HP. rewrite !commit_all_sum. split; [reflexivity|].
  rewrite (zsum_perm _ _ HP). reflexivity.
Qed.

Lemma cell_laws v x d w :
  L_call (L_set v x) = x /\
  L_call (L_change v d) = v + d /\
  L_call (L_init w x) = x /\
  L_setstate w (L_getstate v) = v /\
  L_call v = v /\
  L_init_default = 0 /\ L_default = 0.
Proof. unfold L_call, L_set, L_change, L_init, L_setstate, L_getstate, L_init_default, L_default. repeat split; lia. Qed.
