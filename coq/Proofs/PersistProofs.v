(* Re-exports for Props/C04.v *)
From BT Require Import Proofs.FootprintProofs Proofs.StoreProofs.
Definition footprint_set := FootprintProofs.footprint_set.
Definition footprint_del := FootprintProofs.footprint_del.
Definition commit_current := StoreProofs.commit_current_partial.
Definition reader_sees := StoreProofs.reader_sees.
Definition commit_reload_refuted := StoreProofs.commit_reload_refuted.
