(* Proofs for C16 (Model/Refs.v): the net reference count taken by the
   extension equals the number of slots holding the object plus the
   references handed to the caller, after any history. *)
From Coq Require Import ZArith List Bool Arith Lia.
From BT Require Import Model.Refs.
Import ListNotations.
Open Scope Z_scope.

Definition ind (a b : nat) : Z := if Nat.eqb a b then 1 else 0.
Definition keys (l : list (nat * nat * nat)) : list nat := map (fun e => snd (fst e)) l.
Definition vals (l : list (nat * nat * nat)) : list nat := map (@snd (nat * nat) nat) l.

Arguments keys : simpl never.
Arguments vals : simpl never.

Lemma ind_range : forall a b, 0 <= ind a b <= 1.
Proof. intros a b. unfold ind. destruct (Nat.eqb a b); lia. Qed.

Lemma incref_at : forall x m y, incref x m y = m y + ind x y.
Proof. intros x m y. unfold incref, ind. destruct (Nat.eqb x y); lia. Qed.

Lemma decref_at : forall x m y, decref x m y = m y - ind x y.
Proof. intros x m y. unfold decref, ind. destruct (Nat.eqb x y); lia. Qed.

Lemma zcount_nil : forall x, zcount x [] = 0.
Proof. reflexivity. Qed.

Lemma zcount_cons : forall x y l, zcount x (y :: l) = ind y x + zcount x l.
Proof.
  intros x y l. unfold zcount, ind. simpl.
  destruct (Nat.eq_dec y x) as [e | n].
  - subst. rewrite Nat.eqb_refl. lia.
  - apply Nat.eqb_neq in n. rewrite n. lia.
Qed.

Lemma zcount_nonneg : forall x l, 0 <= zcount x l.
Proof. intros x l. unfold zcount. lia. Qed.

Lemma zcount_In : forall x l, In x l -> 1 <= zcount x l.
Proof.
  intros x l H. unfold zcount.
  apply (count_occ_In Nat.eq_dec) in H. lia.
Qed.

Lemma keys_cons : forall r k v l, keys ((r, k, v) :: l) = k :: keys l.
Proof. reflexivity. Qed.
Lemma vals_cons : forall r k v l, vals ((r, k, v) :: l) = v :: vals l.
Proof. reflexivity. Qed.

Lemma remove_rank_count : forall l r k v x,
  find_rank l r = Some (k, v) ->
  zcount x (keys (remove_rank l r)) = zcount x (keys l) - ind k x /\
  zcount x (vals (remove_rank l r)) = zcount x (vals l) - ind v x.
Proof.
  induction l as [| [[r' k'] v'] rest IH]; intros r k v x H; simpl in H.
  - discriminate.
  - simpl. destruct (Nat.eqb r r') eqn:E.
    + inversion H; subst. rewrite keys_cons, vals_cons, !zcount_cons. lia.
    + destruct (IH r k v x H) as [A B].
      rewrite !keys_cons, !vals_cons, !zcount_cons. lia.
Qed.

Lemma replace_val_count : forall l r k vold v x,
  find_rank l r = Some (k, vold) ->
  zcount x (keys (replace_val l r v)) = zcount x (keys l) /\
  zcount x (vals (replace_val l r v)) = zcount x (vals l) - ind vold x + ind v x.
Proof.
  induction l as [| [[r' k'] v'] rest IH]; intros r k vold v x H; simpl in H.
  - discriminate.
  - simpl. destruct (Nat.eqb r r') eqn:E.
    + inversion H; subst. rewrite !keys_cons, !vals_cons, !zcount_cons. lia.
    + destruct (IH r k vold v x H) as [A B].
      rewrite !keys_cons, !vals_cons, !zcount_cons. lia.
Qed.

Lemma insert_rank_count : forall l r k v x,
  zcount x (keys (insert_rank l r k v)) = ind k x + zcount x (keys l) /\
  zcount x (vals (insert_rank l r k v)) = ind v x + zcount x (vals l).
Proof.
  induction l as [| [[r' k'] v'] rest IH]; intros r k v x; simpl.
  - rewrite !keys_cons, !vals_cons, !zcount_cons. split; reflexivity.
  - destruct (r <? r')%nat.
    + rewrite !keys_cons, !vals_cons, !zcount_cons. split; reflexivity.
    + destruct (IH r k v x) as [A B].
      rewrite !keys_cons, !vals_cons, !zcount_cons. lia.
Qed.

Lemma clear_count : forall l m x,
  fold_left (fun m e => decref (snd e) (decref (snd (fst e)) m)) l m x
  = m x - zcount x (keys l) - zcount x (vals l).
Proof.
  induction l as [| [[r k] v] rest IH]; intros m x; simpl.
  - unfold keys, vals. simpl. rewrite !zcount_nil. lia.
  - rewrite IH. rewrite !decref_at, !keys_cons, !vals_cons, !zcount_cons. lia.
Qed.

Lemma release_one_count : forall x h h' y,
  release_one x h = Some h' -> zcount y h' = zcount y h - ind x y.
Proof.
  intros x h. induction h as [| a rest IH]; intros h' y H; simpl in H.
  - discriminate.
  - destruct (Nat.eqb x a) eqn:E.
    + inversion H; subst. apply Nat.eqb_eq in E. subst.
      rewrite zcount_cons. lia.
    + destruct (release_one x rest) as [r |] eqn:R; [| discriminate].
      inversion H; subst. rewrite !zcount_cons, (IH r y eq_refl). lia.
Qed.

Definition rinv (s : rstate) : Prop := forall x, rc s x = owned s x.

Lemma owned_eq : forall s x,
  owned s x = zcount x (keys (slots s)) + zcount x (vals (slots s)) + zcount x (held s).
Proof. reflexivity. Qed.

Lemma rstep_set_inv : forall s r k v u, rinv s -> rinv (rstep s (RSet r k v u)).
Proof.
  intros s r k v u H x. specialize (H x). rewrite owned_eq in H.
  unfold rstep. destruct (find_rank (slots s) r) as [[k0 vold] |] eqn:F.
  - destruct u.
    + rewrite owned_eq. exact H.
    + rewrite owned_eq. cbn [slots held rc].
      destruct (replace_val_count (slots s) r k0 vold v x F) as [A B].
      rewrite incref_at, decref_at, A, B. lia.
  - rewrite owned_eq. cbn [slots held rc].
    destruct (insert_rank_count (slots s) r k v x) as [A B].
    rewrite !incref_at, A, B. lia.
Qed.

Lemma rstep_del_inv : forall s r, rinv s -> rinv (rstep s (RDel r)).
Proof.
  intros s r H x. specialize (H x). rewrite owned_eq in H.
  unfold rstep. destruct (find_rank (slots s) r) as [[k v] |] eqn:F.
  - rewrite owned_eq. cbn [slots held rc].
    destruct (remove_rank_count (slots s) r k v x F) as [A B].
    rewrite !decref_at, A, B. lia.
  - rewrite owned_eq. exact H.
Qed.

Lemma rstep_clear_inv : forall s, rinv s -> rinv (rstep s RClear).
Proof.
  intros s H x. specialize (H x). rewrite owned_eq in H.
  unfold rstep. rewrite owned_eq. cbn [slots held rc]. rewrite clear_count.
  change (keys []) with (@nil nat). change (vals []) with (@nil nat).
  rewrite !zcount_nil. lia.
Qed.

Lemma rstep_pop_inv : forall s, rinv s -> rinv (rstep s RPop).
Proof.
  intros s H x. specialize (H x). rewrite owned_eq in H.
  unfold rstep. destruct (slots s) as [| [[r k] v] rest] eqn:S.
  - rewrite owned_eq, S. exact H.
  - rewrite owned_eq. cbn [slots held rc].
    rewrite keys_cons, vals_cons, !zcount_cons in H.
    rewrite !decref_at, incref_at, zcount_cons. lia.
Qed.

Lemma rstep_minkey_inv : forall s, rinv s -> rinv (rstep s RMinKey).
Proof.
  intros s H x. specialize (H x). rewrite owned_eq in H.
  unfold rstep. destruct (slots s) as [| [[r k] v] rest] eqn:S.
  - rewrite owned_eq, S. exact H.
  - rewrite owned_eq. cbn [slots held rc].
    rewrite keys_cons, vals_cons, !zcount_cons in H. rewrite keys_cons, vals_cons, !zcount_cons.
    rewrite incref_at. lia.
Qed.

Lemma rstep_release_inv : forall s y, rinv s -> rinv (rstep s (RRelease y)).
Proof.
  intros s y H x. specialize (H x). rewrite owned_eq in H.
  unfold rstep. destruct (release_one y (held s)) as [h |] eqn:R.
  - rewrite owned_eq. cbn [slots held rc].
    rewrite decref_at, (release_one_count y (held s) h x R). lia.
  - rewrite owned_eq. exact H.
Qed.

Lemma rstep_inv : forall s o, rinv s -> rinv (rstep s o).
Proof.
  intros s o H. destruct o.
  - apply rstep_set_inv; exact H.
  - apply rstep_del_inv; exact H.
  - apply rstep_clear_inv; exact H.
  - apply rstep_pop_inv; exact H.
  - apply rstep_minkey_inv; exact H.
  - apply rstep_release_inv; exact H.
Qed.

Lemma fold_rstep_inv : forall ops s, rinv s -> rinv (fold_left rstep ops s).
Proof.
  induction ops as [| o ops IH]; intros s H; simpl.
  - exact H.
  - apply IH. apply rstep_inv. exact H.
Qed.

Lemma rinv_init : rinv (mkR [] [] (fun _ => 0)).
Proof. intro x. reflexivity. Qed.

Lemma rinv_rrun : forall ops, rinv (rrun ops).
Proof. intro ops. unfold rrun. apply fold_rstep_inv. exact rinv_init. Qed.

Theorem rc_is_owned : forall (ops : list rop) (x : nat),
  rc (rrun ops) x = owned (rrun ops) x.
Proof. intros ops x. apply rinv_rrun. Qed.

Theorem all_released : forall (ops : list rop) (x : nat),
  slots (rrun ops) = [] -> held (rrun ops) = [] -> rc (rrun ops) x = 0.
Proof.
  intros ops x Hs Hh. rewrite rc_is_owned. unfold owned. rewrite Hs, Hh. reflexivity.
Qed.

Theorem stored_is_held : forall (ops : list rop) (x : nat),
  In x (map (fun e => snd (fst e)) (slots (rrun ops))) \/ In x (map snd (slots (rrun ops))) ->
  1 <= rc (rrun ops) x.
Proof.
  intros ops x H. rewrite rc_is_owned. unfold owned.
  pose proof (zcount_nonneg x (map (fun e => snd (fst e)) (slots (rrun ops)))) as A.
  pose proof (zcount_nonneg x (map snd (slots (rrun ops)))) as B.
  pose proof (zcount_nonneg x (held (rrun ops))) as C.
  destruct H as [H | H]; apply zcount_In in H; lia.
Qed.
