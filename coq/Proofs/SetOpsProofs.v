(* Proofs for C10 / C12: the set-operation walk, operand adaptation, the module
   functions union / intersection / difference and the weighted variants. *)
From Coq Require Import ZArith List Bool Sorted Lia Setoid.
From BT Require Import Model.SetOps Model.SetOpsSpec.
Import ListNotations.
Open Scope Z_scope.

(* ------------------------------------------------------------------ *)
(* strictly ascending lists                                            *)
(* ------------------------------------------------------------------ *)

Lemma ssorted_nil : ssorted [].
Proof. unfold ssorted. constructor. Qed.

Lemma ssorted_inv : forall (x : Z) (l : list Z),
  ssorted (x :: l) -> ssorted l /\ forall y, In y l -> x < y.
Proof.
  intros x l H. unfold ssorted in *.
  apply StronglySorted_inv in H. destruct H as [Hs Hf].
  split; [exact Hs|]. rewrite Forall_forall in Hf. exact Hf.
Qed.

Lemma ssorted_cons : forall (x : Z) (l : list Z),
  ssorted l -> (forall y, In y l -> x < y) -> ssorted (x :: l).
Proof.
  intros x l Hs Hf. unfold ssorted in *.
  constructor; [exact Hs|]. apply Forall_forall. exact Hf.
Qed.

Lemma In_cons_iff' : forall (A : Type) (k x : A) (l : list A),
  In k (x :: l) <-> x = k \/ In k l.
Proof. intros A k x l. simpl. tauto. Qed.

(* ------------------------------------------------------------------ *)
(* adapt = dedup . isort                                               *)
(* ------------------------------------------------------------------ *)

Lemma insert_sorted_in : forall (x : Z) (l : list Z) (k : Z),
  In k (insert_sorted x l) <-> k = x \/ In k l.
Proof.
  intros x l k. induction l as [|y r IH].
  - simpl. intuition congruence.
  - simpl. destruct (x <=? y).
    + simpl. intuition congruence.
    + rewrite In_cons_iff', IH. simpl. intuition congruence.
Qed.

Lemma insert_sorted_sorted : forall (x : Z) (l : list Z),
  StronglySorted Z.le l -> StronglySorted Z.le (insert_sorted x l).
Proof.
  intros x l H. induction H as [|y r Hr IH Hf].
  - simpl. constructor; constructor.
  - simpl. destruct (Z.leb_spec x y) as [Hle|Hgt].
    + constructor.
      * constructor; assumption.
      * apply Forall_forall. intros z Hz. rewrite Forall_forall in Hf.
        destruct Hz as [Hz|Hz]; [subst z; exact Hle|].
        specialize (Hf z Hz). lia.
    + constructor; [exact IH|].
      apply Forall_forall. intros z Hz. rewrite Forall_forall in Hf.
      apply insert_sorted_in in Hz. destruct Hz as [Hz|Hz]; [subst z; lia|].
      apply Hf; exact Hz.
Qed.

Lemma isort_cons : forall (x : Z) (l : list Z), isort (x :: l) = insert_sorted x (isort l).
Proof. reflexivity. Qed.

Lemma isort_in : forall (l : list Z) (k : Z), In k (isort l) <-> In k l.
Proof.
  induction l as [|x r IH]; intros k.
  - simpl. tauto.
  - rewrite isort_cons, insert_sorted_in, IH. simpl. intuition congruence.
Qed.

Lemma isort_sorted : forall l : list Z, StronglySorted Z.le (isort l).
Proof.
  induction l as [|x r IH].
  - constructor.
  - rewrite isort_cons. apply insert_sorted_sorted. exact IH.
Qed.

Lemma dedup_cons2 : forall (x y : Z) (r : list Z),
  dedup (x :: y :: r) = if x =? y then dedup (y :: r) else x :: dedup (y :: r).
Proof. reflexivity. Qed.

Lemma dedup_spec : forall l : list Z, StronglySorted Z.le l ->
  ssorted (dedup l) /\ forall k, In k (dedup l) <-> In k l.
Proof.
  induction l as [|x r IH]; intros H.
  - simpl. split; [apply ssorted_nil|tauto].
  - destruct r as [|y r'].
    + simpl. split; [apply ssorted_cons; [apply ssorted_nil|simpl; tauto]|tauto].
    + rewrite dedup_cons2. apply StronglySorted_inv in H. destruct H as [Hs Hf].
      destruct (IH Hs) as [IHs IHm].
      rewrite Forall_forall in Hf.
      destruct (Z.eqb_spec x y) as [Heq|Hne].
      * subst y. split; [exact IHs|]. intros k. rewrite IHm. simpl. tauto.
      * split.
        -- apply ssorted_cons; [exact IHs|]. intros z Hz. apply IHm in Hz.
           assert (Hxy : x <= y) by (apply Hf; left; reflexivity).
           apply StronglySorted_inv in Hs. destruct Hs as [_ Hf'].
           rewrite Forall_forall in Hf'.
           destruct Hz as [Hz|Hz]; [subst z; lia|].
           specialize (Hf' z Hz). lia.
        -- intros k. rewrite In_cons_iff', IHm. simpl. tauto.
Qed.

Lemma adapt_spec : forall l : list Z,
  ssorted (adapt l) /\ forall k, In k (adapt l) <-> In k l.
Proof.
  intros l. unfold adapt.
  destruct (dedup_spec (isort l) (isort_sorted l)) as [Hs Hm].
  split; [exact Hs|]. intros k. rewrite Hm. apply isort_in.
Qed.

(* ------------------------------------------------------------------ *)
(* unfolding the walk                                                  *)
(* ------------------------------------------------------------------ *)

Lemma walk_nil_l : forall (V : Type) (c1 c12 c2 : bool) (f1 f2 : V -> V) (f12 : V -> V -> V)
    (l2 : list (Z * V)),
  walk V c1 c12 c2 f1 f2 f12 [] l2 =
  if c2 then map (fun kv => (fst kv, f2 (snd kv))) l2 else [].
Proof. intros V c1 c12 c2 f1 f2 f12 l2. destruct l2; reflexivity. Qed.

Lemma walk_nil_r : forall (V : Type) (c1 c12 c2 : bool) (f1 f2 : V -> V) (f12 : V -> V -> V)
    (x : Z * V) (t : list (Z * V)),
  walk V c1 c12 c2 f1 f2 f12 (x :: t) [] =
  if c1 then map (fun kv => (fst kv, f1 (snd kv))) (x :: t) else [].
Proof. intros V c1 c12 c2 f1 f2 f12 x t. destruct x; reflexivity. Qed.

Lemma walk_cons : forall (V : Type) (c1 c12 c2 : bool) (f1 f2 : V -> V) (f12 : V -> V -> V)
    (k1 : Z) (v1 : V) (t1 : list (Z * V)) (k2 : Z) (v2 : V) (t2 : list (Z * V)),
  walk V c1 c12 c2 f1 f2 f12 ((k1, v1) :: t1) ((k2, v2) :: t2) =
  match k1 ?= k2 with
  | Lt => emit V c1 (k1, f1 v1) (walk V c1 c12 c2 f1 f2 f12 t1 ((k2, v2) :: t2))
  | Eq => emit V c12 (k1, f12 v1 v2) (walk V c1 c12 c2 f1 f2 f12 t1 t2)
  | Gt => emit V c2 (k2, f2 v2) (walk V c1 c12 c2 f1 f2 f12 ((k1, v1) :: t1) t2)
  end.
Proof. intros. reflexivity. Qed.

(* ------------------------------------------------------------------ *)
(* small facts about the selectors                                     *)
(* ------------------------------------------------------------------ *)

Lemma sel_keys : forall (V : Type) (b : bool) (f : V -> V) (l : list (Z * V)),
  map fst (if b then map (fun kv => (fst kv, f (snd kv))) l else []) =
  if b then map fst l else [].
Proof.
  intros V b f l. destruct b; [|reflexivity].
  rewrite map_map. apply map_ext. reflexivity.
Qed.

Lemma sel_in : forall (b : bool) (K : list Z) (k : Z),
  In k (if b then K else []) <-> b = true /\ In k K.
Proof. intros b K k. destruct b; simpl; intuition congruence. Qed.

Lemma sel_sorted : forall (b : bool) (K : list Z),
  ssorted K -> ssorted (if b then K else []).
Proof. intros b K H. destruct b; [exact H|apply ssorted_nil]. Qed.

Lemma emit_keys : forall (V : Type) (b : bool) (x : Z) (v : V) (r : list (Z * V)),
  map fst (emit V b (x, v) r) = if b then x :: map fst r else map fst r.
Proof. intros V b x v r. destruct b; reflexivity. Qed.

Lemma emit_in : forall (b : bool) (x : Z) (K : list Z) (k : Z),
  In k (if b then x :: K else K) <-> (b = true /\ k = x) \/ In k K.
Proof. intros b x K k. destruct b; simpl; intuition congruence. Qed.

Lemma emit_sorted : forall (b : bool) (x : Z) (K : list Z),
  ssorted K -> (forall y, In y K -> x < y) -> ssorted (if b then x :: K else K).
Proof. intros b x K Hs Hf. destruct b; [apply ssorted_cons; assumption|exact Hs]. Qed.

(* ------------------------------------------------------------------ *)
(* walk_spec                                                           *)
(* ------------------------------------------------------------------ *)

Definition wmem (c1 c12 c2 : bool) (k : Z) (K1 K2 : list Z) : Prop :=
  (c1 = true /\ In k K1 /\ ~ In k K2) \/
  (c12 = true /\ In k K1 /\ In k K2) \/
  (c2 = true /\ ~ In k K1 /\ In k K2).

Lemma wmem_sub : forall c1 c12 c2 k K1 K2,
  wmem c1 c12 c2 k K1 K2 -> In k K1 \/ In k K2.
Proof. intros c1 c12 c2 k K1 K2 H. unfold wmem in H. tauto. Qed.

Lemma walk_spec_aux : forall (V : Type) (c1 c12 c2 : bool) (f1 f2 : V -> V) (f12 : V -> V -> V)
    (l1 l2 : list (Z * V)),
  ssorted (map fst l1) -> ssorted (map fst l2) ->
  ssorted (map fst (walk V c1 c12 c2 f1 f2 f12 l1 l2)) /\
  forall k, In k (map fst (walk V c1 c12 c2 f1 f2 f12 l1 l2)) <->
            wmem c1 c12 c2 k (map fst l1) (map fst l2).
Proof.
  intros V c1 c12 c2 f1 f2 f12.
  induction l1 as [|[k1 v1] t1 IH1].
  - intros l2 _ H2. rewrite walk_nil_l, sel_keys. split.
    + apply sel_sorted; exact H2.
    + intros k. rewrite sel_in. unfold wmem. simpl. intuition.
  - induction l2 as [|[k2 v2] t2 IH2]; intros H1 H2.
    + rewrite walk_nil_r, sel_keys. split.
      * apply sel_sorted; exact H1.
      * intros k. rewrite sel_in. unfold wmem. simpl. intuition.
    + rewrite walk_cons.
      cbn [map fst] in H1, H2.
      destruct (ssorted_inv _ _ H1) as [H1s H1f].
      destruct (ssorted_inv _ _ H2) as [H2s H2f].
      destruct (Z.compare_spec k1 k2) as [Heq|Hlt|Hgt].
      * subst k2.
        destruct (IH1 t2 H1s H2s) as [Rs Rm].
        assert (N1 : ~ In k1 (map fst t1)) by (intro HH; apply H1f in HH; lia).
        assert (N2 : ~ In k1 (map fst t2)) by (intro HH; apply H2f in HH; lia).
        rewrite emit_keys. split.
        -- apply emit_sorted; [exact Rs|]. intros y Hy. apply Rm in Hy.
           apply wmem_sub in Hy. destruct Hy as [Hy|Hy]; auto.
        -- intros k. rewrite emit_in, Rm. unfold wmem. cbn [map fst In].
           destruct (Z.eq_dec k k1) as [Hk|Hne]; [subst k|]; intuition congruence.
      * destruct (IH1 ((k2, v2) :: t2) H1s H2) as [Rs Rm].
        cbn [map fst] in Rm.
        assert (F2 : forall y, In y (k2 :: map fst t2) -> k1 < y).
        { intros y [Hy|Hy]; [lia|]. apply H2f in Hy. lia. }
        assert (N1 : ~ In k1 (map fst t1)) by (intro HH; apply H1f in HH; lia).
        assert (N2 : ~ In k1 (k2 :: map fst t2)) by (intro HH; apply F2 in HH; lia).
        rewrite emit_keys. split.
        -- apply emit_sorted; [exact Rs|]. intros y Hy. apply Rm in Hy.
           apply wmem_sub in Hy. destruct Hy as [Hy|Hy]; auto.
        -- intros k. rewrite emit_in, Rm. unfold wmem. cbn [map fst].
           rewrite (In_cons_iff' Z k k1).
           destruct (Z.eq_dec k k1) as [Hk|Hne]; [subst k|]; intuition congruence.
      * assert (H1' : ssorted (map fst ((k1, v1) :: t1))) by exact H1.
        destruct (IH2 H1' H2s) as [Rs Rm].
        cbn [map fst] in Rm.
        assert (F1 : forall y, In y (k1 :: map fst t1) -> k2 < y).
        { intros y [Hy|Hy]; [lia|]. apply H1f in Hy. lia. }
        assert (N2 : ~ In k2 (map fst t2)) by (intro HH; apply H2f in HH; lia).
        assert (N1 : ~ In k2 (k1 :: map fst t1)) by (intro HH; apply F1 in HH; lia).
        rewrite emit_keys. split.
        -- apply emit_sorted; [exact Rs|]. intros y Hy. apply Rm in Hy.
           apply wmem_sub in Hy. destruct Hy as [Hy|Hy]; auto.
        -- intros k. rewrite emit_in, Rm. unfold wmem. cbn [map fst].
           rewrite (In_cons_iff' Z k k2).
           destruct (Z.eq_dec k k2) as [Hk|Hne]; [subst k|]; intuition congruence.
Qed.

Lemma walk_spec : forall (V : Type) (c1 c12 c2 : bool) (f1 f2 : V -> V) (f12 : V -> V -> V)
    (l1 l2 : list (Z * V)),
  ssorted (map fst l1) -> ssorted (map fst l2) ->
  let r := walk V c1 c12 c2 f1 f2 f12 l1 l2 in
  ssorted (map fst r) /\
  forall k, In k (map fst r) <->
    (c1 = true /\ In k (map fst l1) /\ ~ In k (map fst l2)) \/
    (c12 = true /\ In k (map fst l1) /\ In k (map fst l2)) \/
    (c2 = true /\ ~ In k (map fst l1) /\ In k (map fst l2)).
Proof.
  intros V c1 c12 c2 f1 f2 f12 l1 l2 H1 H2. cbv zeta.
  exact (walk_spec_aux V c1 c12 c2 f1 f2 f12 l1 l2 H1 H2).
Qed.

(* ------------------------------------------------------------------ *)
(* zlookup                                                             *)
(* ------------------------------------------------------------------ *)

Lemma zlookup_cons : forall (k' v : Z) (r : list (Z * Z)) (k : Z),
  zlookup ((k', v) :: r) k = if k =? k' then Some v else zlookup r k.
Proof. reflexivity. Qed.

Lemma zlookup_notin : forall (l : list (Z * Z)) (k : Z),
  ~ In k (map fst l) -> zlookup l k = None.
Proof.
  induction l as [|[k' v] r IH]; intros k H.
  - reflexivity.
  - rewrite zlookup_cons. cbn [map fst In] in H.
    destruct (Z.eqb_spec k k') as [Heq|Hne].
    + exfalso. apply H. left. congruence.
    + apply IH. intro Hin. apply H. right. exact Hin.
Qed.

Lemma zlookup_in : forall (l : list (Z * Z)) (k : Z),
  In k (map fst l) -> exists v, zlookup l k = Some v.
Proof.
  induction l as [|[k' v] r IH]; intros k H.
  - destruct H.
  - rewrite zlookup_cons. cbn [map fst In] in H.
    destruct (Z.eqb_spec k k') as [Heq|Hne].
    + exists v. reflexivity.
    + destruct H as [H|H]; [congruence|]. apply IH. exact H.
Qed.

Lemma zlookup_some_in : forall (l : list (Z * Z)) (k v : Z),
  zlookup l k = Some v -> In (k, v) l.
Proof.
  induction l as [|[k' v'] r IH]; intros k v H.
  - discriminate H.
  - rewrite zlookup_cons in H.
    destruct (Z.eqb_spec k k') as [Heq|Hne].
    + inversion H. subst. left. reflexivity.
    + right. apply IH. exact H.
Qed.

Lemma zlookup_none_iff : forall (l : list (Z * Z)) (k : Z),
  zlookup l k = None <-> ~ In k (map fst l).
Proof.
  intros l k. split.
  - intros H Hin. apply zlookup_in in Hin. destruct Hin as [v Hv]. congruence.
  - apply zlookup_notin.
Qed.

Lemma zlookup_In_iff : forall (l : list (Z * Z)), ssorted (map fst l) ->
  forall k v, In (k, v) l <-> zlookup l k = Some v.
Proof.
  intros l Hs k v. split; [|apply zlookup_some_in].
  revert Hs. induction l as [|[k' v'] r IH]; intros Hs H.
  - destruct H.
  - cbn [map fst] in Hs. destruct (ssorted_inv _ _ Hs) as [Hs' Hf].
    rewrite zlookup_cons.
    destruct (Z.eqb_spec k k') as [Heq|Hne].
    + subst k'. destruct H as [H|H].
      * inversion H. reflexivity.
      * exfalso. assert (Hk : In k (map fst r)).
        { change k with (fst (k, v)). apply in_map. exact H. }
        apply Hf in Hk. lia.
    + destruct H as [H|H]; [inversion H; congruence|].
      apply IH; assumption.
Qed.

Lemma zlookup_sel : forall (b : bool) (f : Z -> Z) (l : list (Z * Z)) (k : Z),
  zlookup (if b then map (fun kv => (fst kv, f (snd kv))) l else []) k =
  if b then option_map f (zlookup l k) else None.
Proof.
  intros b f l k. destruct b; [|reflexivity].
  induction l as [|[k' v] r IH].
  - reflexivity.
  - cbn [map fst snd]. rewrite !zlookup_cons. destruct (k =? k'); [reflexivity|exact IH].
Qed.

Lemma zlookup_emit : forall (b : bool) (x v : Z) (r : list (Z * Z)) (k : Z),
  zlookup (emit Z b (x, v) r) k =
  if b then (if k =? x then Some v else zlookup r k) else zlookup r k.
Proof. intros b x v r k. destruct b; reflexivity. Qed.

Definition comb (c1 c12 c2 : bool) (f1 f2 : Z -> Z) (f12 : Z -> Z -> Z)
    (o1 o2 : option Z) : option Z :=
  match o1, o2 with
  | Some v1, Some v2 => if c12 then Some (f12 v1 v2) else None
  | Some v1, None => if c1 then Some (f1 v1) else None
  | None, Some v2 => if c2 then Some (f2 v2) else None
  | None, None => None
  end.

Lemma walk_lookup : forall (c1 c12 c2 : bool) (f1 f2 : Z -> Z) (f12 : Z -> Z -> Z)
    (l1 l2 : list (Z * Z)),
  ssorted (map fst l1) -> ssorted (map fst l2) ->
  forall k, zlookup (walk Z c1 c12 c2 f1 f2 f12 l1 l2) k =
            comb c1 c12 c2 f1 f2 f12 (zlookup l1 k) (zlookup l2 k).
Proof.
  intros c1 c12 c2 f1 f2 f12.
  induction l1 as [|[k1 v1] t1 IH1].
  - intros l2 _ _ k. rewrite walk_nil_l, zlookup_sel. unfold comb.
    change (zlookup [] k) with (@None Z).
    destruct (zlookup l2 k), c2; reflexivity.
  - induction l2 as [|[k2 v2] t2 IH2]; intros H1 H2 k.
    + rewrite walk_nil_r, zlookup_sel. unfold comb.
      change (zlookup [] k) with (@None Z).
      destruct (zlookup ((k1, v1) :: t1) k), c1; reflexivity.
    + rewrite walk_cons.
      assert (H1' : ssorted (map fst ((k1, v1) :: t1))) by exact H1.
      assert (H2' : ssorted (map fst ((k2, v2) :: t2))) by exact H2.
      cbn [map fst] in H1, H2.
      destruct (ssorted_inv _ _ H1) as [H1s H1f].
      destruct (ssorted_inv _ _ H2) as [H2s H2f].
      destruct (Z.compare_spec k1 k2) as [Heq|Hlt|Hgt].
      * subst k2.
        assert (N1 : ~ In k1 (map fst t1)) by (intro HH; apply H1f in HH; lia).
        assert (N2 : ~ In k1 (map fst t2)) by (intro HH; apply H2f in HH; lia).
        rewrite zlookup_emit, (IH1 t2 H1s H2s k), !zlookup_cons.
        destruct (Z.eqb_spec k k1) as [Hk|Hne].
        -- subst k. rewrite (zlookup_notin t1 k1 N1), (zlookup_notin t2 k1 N2).
           unfold comb. destruct c12; reflexivity.
        -- destruct c12; reflexivity.
      * assert (N1 : ~ In k1 (map fst t1)) by (intro HH; apply H1f in HH; lia).
        assert (N2 : ~ In k1 (map fst ((k2, v2) :: t2))).
        { cbn [map fst]. intros [HH|HH]; [lia|]. apply H2f in HH. lia. }
        rewrite zlookup_emit, (IH1 ((k2, v2) :: t2) H1s H2' k).
        rewrite (zlookup_cons k1 v1 t1 k).
        destruct (Z.eqb_spec k k1) as [Hk|Hne].
        -- subst k. rewrite (zlookup_notin t1 k1 N1), (zlookup_notin _ k1 N2).
           unfold comb. destruct c1; reflexivity.
        -- destruct c1; reflexivity.
      * assert (N2 : ~ In k2 (map fst t2)) by (intro HH; apply H2f in HH; lia).
        assert (N1 : ~ In k2 (map fst ((k1, v1) :: t1))).
        { cbn [map fst]. intros [HH|HH]; [lia|]. apply H1f in HH. lia. }
        rewrite zlookup_emit, (IH2 H1' H2s k).
        rewrite (zlookup_cons k2 v2 t2 k).
        destruct (Z.eqb_spec k k2) as [Hk|Hne].
        -- subst k. rewrite (zlookup_notin t2 k2 N2), (zlookup_notin _ k2 N1).
           unfold comb. destruct c2; reflexivity.
        -- destruct c2; reflexivity.
Qed.

(* ------------------------------------------------------------------ *)
(* streams                                                             *)
(* ------------------------------------------------------------------ *)

Lemma map_fst_const : forall (d : Z) (l : list Z), map fst (map (fun k => (k, d)) l) = l.
Proof.
  intros d l. induction l as [|x r IH]; [reflexivity|].
  cbn [map fst]. rewrite IH. reflexivity.
Qed.

Lemma stream_spec : forall (d : Z) (o : operand), wf_operand o ->
  ssorted (map fst (stream d o)) /\
  forall k, In k (map fst (stream d o)) <-> In k (okeys o).
Proof.
  intros d o H. destruct o as [|l|l|l]; cbn [stream okeys wf_operand] in *.
  - split; [apply ssorted_nil|]. intros k. simpl. tauto.
  - split; [exact H|]. intros k. tauto.
  - rewrite map_fst_const. split; [exact H|]. intros k. tauto.
  - rewrite map_fst_const. apply adapt_spec.
Qed.

Lemma is_none_false : forall o : operand, o <> ONone -> is_none o = false.
Proof. intros o H. destruct o; [exfalso; apply H; reflexivity|reflexivity..]. Qed.

Lemma kwalk_spec : forall (c1 c12 c2 : bool) (a b : operand),
  wf_operand a -> wf_operand b ->
  ssorted (kwalk c1 c12 c2 a b) /\
  forall k, In k (kwalk c1 c12 c2 a b) <-> wmem c1 c12 c2 k (okeys a) (okeys b).
Proof.
  intros c1 c12 c2 a b Ha Hb. unfold kwalk, keys_of.
  destruct (stream_spec 0 a Ha) as [Sa Ma].
  destruct (stream_spec 0 b Hb) as [Sb Mb].
  destruct (walk_spec_aux Z c1 c12 c2 (fun v => v) (fun v => v) (fun v _ => v)
              (stream 0 a) (stream 0 b) Sa Sb) as [Rs Rm].
  split; [exact Rs|]. intros k. rewrite Rm. unfold wmem.
  pose proof (Ma k) as Mak. pose proof (Mb k) as Mbk. tauto.
Qed.

(* ------------------------------------------------------------------ *)
(* C10: union / intersection / difference                              *)
(* ------------------------------------------------------------------ *)

Lemma union_spec : forall a b : operand, wf_operand a -> wf_operand b ->
  a <> ONone -> b <> ONone ->
  exists r, m_union a b = SSet r /\ ssorted r /\
            forall k, In k r <-> In k (okeys a) \/ In k (okeys b).
Proof.
  intros a b Ha Hb Na Nb. unfold m_union.
  rewrite (is_none_false a Na), (is_none_false b Nb).
  exists (kwalk true true true a b). split; [reflexivity|].
  destruct (kwalk_spec true true true a b Ha Hb) as [Rs Rm].
  split; [exact Rs|]. intros k. rewrite Rm. unfold wmem.
  destruct (in_dec Z.eq_dec k (okeys a)) as [Ia|Ia];
  destruct (in_dec Z.eq_dec k (okeys b)) as [Ib|Ib]; intuition congruence.
Qed.

Lemma intersection_spec : forall a b : operand, wf_operand a -> wf_operand b ->
  a <> ONone -> b <> ONone ->
  exists r, m_intersection a b = SSet r /\ ssorted r /\
            forall k, In k r <-> In k (okeys a) /\ In k (okeys b).
Proof.
  intros a b Ha Hb Na Nb. unfold m_intersection.
  rewrite (is_none_false a Na), (is_none_false b Nb).
  exists (kwalk false true false a b). split; [reflexivity|].
  destruct (kwalk_spec false true false a b Ha Hb) as [Rs Rm].
  split; [exact Rs|]. intros k. rewrite Rm. unfold wmem. intuition congruence.
Qed.

Lemma difference_spec : forall a b : operand, wf_operand a -> wf_operand b ->
  b <> ONone ->
  (forall l, a = OSet l ->
     exists r, m_difference a b = SSet r /\ ssorted r /\
               forall k, In k r <-> In k l /\ ~ In k (okeys b)) /\
  (forall l, a = OMap l ->
     exists r, m_difference a b = SMap r /\ ssorted (map fst r) /\
               forall k v, In (k, v) r <-> In (k, v) l /\ ~ In k (okeys b)).
Proof.
  intros a b Ha Hb Nb. split.
  - intros l Ea. subst a. unfold m_difference.
    rewrite (is_none_false b Nb). cbn [is_none].
    exists (kwalk true false false (OSet l) b). split; [reflexivity|].
    destruct (kwalk_spec true false false (OSet l) b Ha Hb) as [Rs Rm].
    split; [exact Rs|]. intros k. rewrite Rm. unfold wmem. cbn [okeys].
    intuition congruence.
  - intros l Ea. subst a. unfold m_difference.
    rewrite (is_none_false b Nb). cbn [is_none].
    cbn [wf_operand] in Ha.
    destruct (stream_spec 0 b Hb) as [Sb Mb].
    pose proof (walk_spec_aux Z true false false (fun v => v) (fun v => v) (fun v _ => v)
                  l (stream 0 b) Ha Sb) as [Rs _].
    eexists. split; [reflexivity|]. split; [exact Rs|].
    intros k v.
    rewrite (zlookup_In_iff _ Rs k v), (zlookup_In_iff l Ha k v).
    rewrite (walk_lookup true false false _ _ _ l (stream 0 b) Ha Sb k).
    rewrite <- (Mb k), <- zlookup_none_iff.
    unfold comb.
    destruct (zlookup l k) as [v1|]; destruct (zlookup (stream 0 b) k) as [v2|];
      intuition congruence.
Qed.

Lemma none_table : forall a b : operand,
  m_union ONone ONone = SNone /\ m_intersection ONone ONone = SNone /\
  (b <> ONone -> m_union ONone b = SOp2 /\ m_intersection ONone b = SOp2) /\
  (a <> ONone -> m_union a ONone = SOp1 /\ m_intersection a ONone = SOp1 /\
                 m_difference a ONone = SOp1) /\
  m_difference ONone b = SNone.
Proof.
  intros a b. split; [reflexivity|]. split; [reflexivity|]. split; [|split].
  - intros Nb. unfold m_union, m_intersection. cbn [is_none].
    rewrite (is_none_false b Nb). split; reflexivity.
  - intros Na. unfold m_union, m_intersection, m_difference. cbn [is_none].
    rewrite (is_none_false a Na). repeat split; reflexivity.
  - reflexivity.
Qed.

(* ------------------------------------------------------------------ *)
(* C12: weighted union / intersection                                  *)
(* ------------------------------------------------------------------ *)

Lemma zlookup_const : forall (d : Z) (l : list Z) (k : Z),
  zlookup (map (fun x => (x, d)) l) k = if existsb (Z.eqb k) l then Some d else None.
Proof.
  intros d l k. induction l as [|x r IH]; [reflexivity|].
  cbn [map existsb]. rewrite zlookup_cons. destruct (k =? x); [reflexivity|exact IH].
Qed.

Lemma oval_stream : forall (o : operand) (k : Z), is_container o ->
  oval o k = match zlookup (stream 1 o) k with Some v => v | None => 0 end.
Proof.
  intros o k H. destruct o as [|l|l|l]; cbn [is_container] in H; try contradiction.
  - reflexivity.
  - cbn [oval stream]. rewrite zlookup_const. destruct (existsb (Z.eqb k) l); reflexivity.
Qed.

(* the weighted walk over two containers, in exact arithmetic *)
Lemma wwalk_spec : forall (c1 c12 c2 : bool) (x y : operand) (u1 u2 : Z),
  wf_operand x -> wf_operand y -> is_container x -> is_container y ->
  ssorted (map fst (walk Z c1 c12 c2 (wscale (fun z : Z => z) u1) (wscale (fun z : Z => z) u2)
                      (wmerge (fun z : Z => z) u1 u2) (stream 1 x) (stream 1 y))) /\
  (forall k, In k (map fst (walk Z c1 c12 c2 (wscale (fun z : Z => z) u1) (wscale (fun z : Z => z) u2)
                      (wmerge (fun z : Z => z) u1 u2) (stream 1 x) (stream 1 y))) <->
             wmem c1 c12 c2 k (okeys x) (okeys y)) /\
  (forall k, In k (map fst (walk Z c1 c12 c2 (wscale (fun z : Z => z) u1) (wscale (fun z : Z => z) u2)
                      (wmerge (fun z : Z => z) u1 u2) (stream 1 x) (stream 1 y))) ->
             zlookup (walk Z c1 c12 c2 (wscale (fun z : Z => z) u1) (wscale (fun z : Z => z) u2)
                      (wmerge (fun z : Z => z) u1 u2) (stream 1 x) (stream 1 y)) k =
             Some (oval x k * u1 + oval y k * u2)).
Proof.
  intros c1 c12 c2 x y u1 u2 Hx Hy Cx Cy.
  destruct (stream_spec 1 x Hx) as [Sx Mx].
  destruct (stream_spec 1 y Hy) as [Sy My].
  destruct (walk_spec_aux Z c1 c12 c2 (wscale (fun z : Z => z) u1) (wscale (fun z : Z => z) u2)
              (wmerge (fun z : Z => z) u1 u2) (stream 1 x) (stream 1 y) Sx Sy) as [Rs Rm].
  split; [exact Rs|]. split.
  - intros k. rewrite Rm. unfold wmem.
    pose proof (Mx k) as Mxk. pose proof (My k) as Myk. tauto.
  - intros k Hin. destruct (zlookup_in _ _ Hin) as [v Hv].
    rewrite (walk_lookup c1 c12 c2 _ _ _ _ _ Sx Sy k) in Hv |- *.
    rewrite (oval_stream x k Cx), (oval_stream y k Cy).
    unfold comb, wscale, wmerge in *.
    destruct (zlookup (stream 1 x) k) as [v1|]; destruct (zlookup (stream 1 y) k) as [v2|];
      destruct c1, c12, c2; try discriminate Hv; f_equal; ring.
Qed.

Lemma wunion_map_spec : forall (a b : operand) (w1 w2 : Z),
  wf_operand a -> wf_operand b -> is_container a -> is_container b ->
  is_map a = true \/ is_map b = true ->
  exists r, m_wunion (fun x : Z => x) a b w1 w2 = (1, SMap r) /\ ssorted (map fst r) /\
    (forall k, In k (map fst r) <-> In k (okeys a) \/ In k (okeys b)) /\
    (forall k, In k (map fst r) -> zlookup r k = Some (oval a k * w1 + oval b k * w2)).
Proof.
  intros a b w1 w2 Ha Hb Ca Cb Hm.
  assert (U : forall (x y : operand) (k : Z),
            wmem true true true k (okeys x) (okeys y) <-> In k (okeys x) \/ In k (okeys y)).
  { intros x y k. unfold wmem.
    destruct (in_dec Z.eq_dec k (okeys x)) as [Ix|Ix];
    destruct (in_dec Z.eq_dec k (okeys y)) as [Iy|Iy]; intuition congruence. }
  destruct a as [|la|la|la]; cbn [is_container] in Ca; try contradiction;
  destruct b as [|lb|lb|lb]; cbn [is_container] in Cb; try contradiction.
  - (* map, map *)
    destruct (wwalk_spec true true true (OMap la) (OMap lb) w1 w2 Ha Hb Ca Cb) as [Rs [Rm Rv]].
    eexists. split; [reflexivity|]. split; [exact Rs|]. split.
    + intros k. rewrite Rm. apply U.
    + exact Rv.
  - (* map, set *)
    destruct (wwalk_spec true true true (OMap la) (OSet lb) w1 w2 Ha Hb Ca Cb) as [Rs [Rm Rv]].
    eexists. split; [reflexivity|]. split; [exact Rs|]. split.
    + intros k. rewrite Rm. apply U.
    + exact Rv.
  - (* set, map: swapped *)
    destruct (wwalk_spec true true true (OMap lb) (OSet la) w2 w1 Hb Ha Cb Ca) as [Rs [Rm Rv]].
    eexists. split; [reflexivity|]. split; [exact Rs|]. split.
    + intros k. rewrite Rm, U. tauto.
    + intros k Hin. rewrite (Rv k Hin). f_equal. ring.
  - (* set, set *)
    exfalso. destruct Hm as [Hm|Hm]; discriminate Hm.
Qed.

Lemma winter_map_spec : forall (a b : operand) (w1 w2 : Z),
  wf_operand a -> wf_operand b -> is_container a -> is_container b ->
  is_map a = true \/ is_map b = true ->
  exists r, m_winter (fun x : Z => x) a b w1 w2 = (1, SMap r) /\ ssorted (map fst r) /\
    (forall k, In k (map fst r) <-> In k (okeys a) /\ In k (okeys b)) /\
    (forall k, In k (map fst r) -> zlookup r k = Some (oval a k * w1 + oval b k * w2)).
Proof.
  intros a b w1 w2 Ha Hb Ca Cb Hm.
  assert (U : forall (x y : operand) (k : Z),
            wmem false true false k (okeys x) (okeys y) <-> In k (okeys x) /\ In k (okeys y)).
  { intros x y k. unfold wmem. intuition congruence. }
  destruct a as [|la|la|la]; cbn [is_container] in Ca; try contradiction;
  destruct b as [|lb|lb|lb]; cbn [is_container] in Cb; try contradiction.
  - destruct (wwalk_spec false true false (OMap la) (OMap lb) w1 w2 Ha Hb Ca Cb) as [Rs [Rm Rv]].
    eexists. split; [reflexivity|]. split; [exact Rs|]. split.
    + intros k. rewrite Rm. apply U.
    + exact Rv.
  - destruct (wwalk_spec false true false (OMap la) (OSet lb) w1 w2 Ha Hb Ca Cb) as [Rs [Rm Rv]].
    eexists. split; [reflexivity|]. split; [exact Rs|]. split.
    + intros k. rewrite Rm. apply U.
    + exact Rv.
  - destruct (wwalk_spec false true false (OMap lb) (OSet la) w2 w1 Hb Ha Cb Ca) as [Rs [Rm Rv]].
    eexists. split; [reflexivity|]. split; [exact Rs|]. split.
    + intros k. rewrite Rm, U. tauto.
    + intros k Hin. rewrite (Rv k Hin). f_equal. ring.
  - exfalso. destruct Hm as [Hm|Hm]; discriminate Hm.
Qed.

Lemma weighted_both_sets : forall (la lb : list Z) (w1 w2 : Z), ssorted la -> ssorted lb ->
  (exists r, m_wunion (fun x : Z => x) (OSet la) (OSet lb) w1 w2 = (1, SSet r) /\ ssorted r /\
             forall k, In k r <-> In k la \/ In k lb) /\
  (exists r, m_winter (fun x : Z => x) (OSet la) (OSet lb) w1 w2 = (w1 + w2, SSet r) /\ ssorted r /\
             forall k, In k r <-> In k la /\ In k lb).
Proof.
  intros la lb w1 w2 Ha Hb. split.
  - destruct (kwalk_spec true true true (OSet la) (OSet lb) Ha Hb) as [Rs Rm].
    eexists. split; [reflexivity|]. split; [exact Rs|].
    intros k. rewrite Rm. unfold wmem. cbn [okeys].
    destruct (in_dec Z.eq_dec k la) as [Ia|Ia];
    destruct (in_dec Z.eq_dec k lb) as [Ib|Ib]; intuition congruence.
  - destruct (kwalk_spec false true false (OSet la) (OSet lb) Ha Hb) as [Rs Rm].
    eexists. split; [reflexivity|]. split; [exact Rs|].
    intros k. rewrite Rm. unfold wmem. cbn [okeys]. intuition congruence.
Qed.

Lemma weighted_none : forall (wrap : Z -> Z) (a b : operand) (w1 w2 : Z),
  m_wunion wrap ONone ONone w1 w2 = (0, SNone) /\ m_winter wrap ONone ONone w1 w2 = (0, SNone) /\
  (b <> ONone -> m_wunion wrap ONone b w1 w2 = (w2, SOp2) /\ m_winter wrap ONone b w1 w2 = (w2, SOp2)) /\
  (a <> ONone -> m_wunion wrap a ONone w1 w2 = (w1, SOp1) /\ m_winter wrap a ONone w1 w2 = (w1, SOp1)).
Proof.
  intros wrap a b w1 w2. split; [reflexivity|]. split; [reflexivity|]. split.
  - intros Nb. unfold m_wunion, m_winter. cbn [is_none].
    rewrite (is_none_false b Nb). split; reflexivity.
  - intros Na. unfold m_wunion, m_winter. cbn [is_none].
    rewrite (is_none_false a Na). split; reflexivity.
Qed.

(* the walk only ever applies its value functions to values it meets *)
Lemma walk_ext : forall (V : Type) (c1 c12 c2 : bool) (f1 f2 g1 g2 : V -> V)
    (f12 g12 : V -> V -> V) (l1 l2 : list (Z * V)),
  (forall k v, In (k, v) l1 -> f1 v = g1 v) ->
  (forall k v, In (k, v) l2 -> f2 v = g2 v) ->
  (forall k v v', In (k, v) l1 -> In (k, v') l2 -> f12 v v' = g12 v v') ->
  walk V c1 c12 c2 f1 f2 f12 l1 l2 = walk V c1 c12 c2 g1 g2 g12 l1 l2.
Proof.
  intros V c1 c12 c2 f1 f2 g1 g2 f12 g12.
  induction l1 as [|[k1 v1] t1 IH1].
  - intros l2 _ H2 _. rewrite !walk_nil_l. destruct c2; [|reflexivity].
    apply map_ext_in. intros [k v] Hin. cbn [fst snd]. f_equal. apply (H2 k v Hin).
  - induction l2 as [|[k2 v2] t2 IH2]; intros H1 H2 H12.
    + rewrite !walk_nil_r. destruct c1; [|reflexivity].
      apply map_ext_in. intros [k v] Hin. cbn [fst snd]. f_equal. apply (H1 k v Hin).
    + rewrite !walk_cons. destruct (Z.compare_spec k1 k2) as [Heq|Hlt|Hgt].
      * subst k2.
        rewrite (H12 k1 v1 v2 (or_introl eq_refl) (or_introl eq_refl)).
        rewrite (IH1 t2); [reflexivity| | |].
        -- intros k v Hin. apply (H1 k v). right. exact Hin.
        -- intros k v Hin. apply (H2 k v). right. exact Hin.
        -- intros k v v' Hin Hin'. apply (H12 k v v'); right; assumption.
      * rewrite (H1 k1 v1 (or_introl eq_refl)).
        rewrite (IH1 ((k2, v2) :: t2)); [reflexivity| | |].
        -- intros k v Hin. apply (H1 k v). right. exact Hin.
        -- exact H2.
        -- intros k v v' Hin Hin'. apply (H12 k v v'); [right|]; assumption.
      * rewrite (H2 k2 v2 (or_introl eq_refl)).
        rewrite IH2; [reflexivity| | |].
        -- exact H1.
        -- intros k v Hin. apply (H2 k v). right. exact Hin.
        -- intros k v v' Hin Hin'. apply (H12 k v v'); [|right]; assumption.
Qed.

Lemma wwalk_no_overflow : forall (wrap : Z -> Z) (lo hi : Z) (c1 c12 c2 : bool)
    (l1 l2 : list (Z * Z)) (u1 u2 : Z),
  (forall x, lo <= x <= hi -> wrap x = x) ->
  (forall k v, In (k, v) l1 -> lo <= v * u1 <= hi) ->
  (forall k v, In (k, v) l2 -> lo <= v * u2 <= hi) ->
  (forall k v v', In (k, v) l1 -> In (k, v') l2 -> lo <= v * u1 + v' * u2 <= hi) ->
  walk Z c1 c12 c2 (wscale wrap u1) (wscale wrap u2) (wmerge wrap u1 u2) l1 l2 =
  walk Z c1 c12 c2 (wscale (fun z : Z => z) u1) (wscale (fun z : Z => z) u2)
       (wmerge (fun z : Z => z) u1 u2) l1 l2.
Proof.
  intros wrap lo hi c1 c12 c2 l1 l2 u1 u2 Hw H1 H2 H12.
  apply walk_ext.
  - intros k v Hin. unfold wscale. apply Hw. apply (H1 k v Hin).
  - intros k v Hin. unfold wscale. apply Hw. apply (H2 k v Hin).
  - intros k v v' Hin Hin'. unfold wmerge.
    rewrite (Hw (v * u1) (H1 k v Hin)), (Hw (v' * u2) (H2 k v' Hin')).
    apply Hw. apply (H12 k v v' Hin Hin').
Qed.

Lemma no_overflow : forall (wrap : Z -> Z) (lo hi : Z) (a b : operand) (w1 w2 : Z),
  (forall x, lo <= x <= hi -> wrap x = x) ->
  (forall k v, In (k, v) (stream 1 a) ->
     lo <= v * w1 <= hi /\ lo <= v * w2 <= hi) ->
  (forall k v, In (k, v) (stream 1 b) ->
     lo <= v * w1 <= hi /\ lo <= v * w2 <= hi) ->
  (forall k v v', In (k, v) (stream 1 a) -> In (k, v') (stream 1 b) ->
     lo <= v * w1 + v' * w2 <= hi /\ lo <= v' * w1 + v * w2 <= hi) ->
  lo <= w1 + w2 <= hi ->
  m_wunion wrap a b w1 w2 = m_wunion (fun x : Z => x) a b w1 w2 /\
  m_winter wrap a b w1 w2 = m_winter (fun x : Z => x) a b w1 w2.
Proof.
  intros wrap lo hi a b w1 w2 Hw Ha Hb Hab Hsum.
  (* straight and swapped instances of the walk equation *)
  assert (S : forall c1 c12 c2,
    walk Z c1 c12 c2 (wscale wrap w1) (wscale wrap w2) (wmerge wrap w1 w2) (stream 1 a) (stream 1 b) =
    walk Z c1 c12 c2 (wscale (fun z : Z => z) w1) (wscale (fun z : Z => z) w2)
         (wmerge (fun z : Z => z) w1 w2) (stream 1 a) (stream 1 b)).
  { intros c1 c12 c2. apply (wwalk_no_overflow wrap lo hi); [exact Hw| | |].
    - intros k v Hin. apply (Ha k v Hin).
    - intros k v Hin. apply (Hb k v Hin).
    - intros k v v' Hin Hin'. apply (Hab k v v' Hin Hin'). }
  assert (T : forall c1 c12 c2,
    walk Z c1 c12 c2 (wscale wrap w2) (wscale wrap w1) (wmerge wrap w2 w1) (stream 1 b) (stream 1 a) =
    walk Z c1 c12 c2 (wscale (fun z : Z => z) w2) (wscale (fun z : Z => z) w1)
         (wmerge (fun z : Z => z) w2 w1) (stream 1 b) (stream 1 a)).
  { intros c1 c12 c2. apply (wwalk_no_overflow wrap lo hi); [exact Hw| | |].
    - intros k v Hin. apply (Hb k v Hin).
    - intros k v Hin. apply (Ha k v Hin).
    - intros k v v' Hin Hin'. destruct (Hab k v' v Hin' Hin) as [Hs _]. lia. }
  assert (Wsum : wrap (w1 + w2) = w1 + w2) by (apply Hw; exact Hsum).
  unfold m_wunion, m_winter.
  destruct (is_none a); [split; reflexivity|].
  destruct (is_none b); [split; reflexivity|].
  destruct (is_map a), (is_map b); cbn [negb andb orb];
    rewrite ?S, ?T, ?Wsum; split; reflexivity.
Qed.
