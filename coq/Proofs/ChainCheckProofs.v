(* ChainCheckProofs -- the state the two checkers look at, with next and
   firstbucket READ from the pointer heap, is the state CheckTree.stored
   computes from the tree, on every heap that realises the tree; hence both
   checkers accept the pointer state of every tree the API produces.  No axioms. *)
From Coq Require Import ZArith List Bool Arith Lia.
From BT Require Import Model.RTree Model.TreeSpec Model.TreeRun Model.Check Model.CheckTree Model.Persist Model.PersistSpec
                       Model.Chain Model.ChainRun Proofs.TreeBase Proofs.TreeProofs Proofs.StoreProofs Proofs.FootprintProofs
                       Proofs.CheckProofs Proofs.ChainProofs Proofs.ChainRunProofs.
Import ListNotations.
Local Open Scope nat_scope.

Section CC.
Variable V : Type.
Notation tree := (tree V).
Notation lids := (leaf_ids V).
Notation klids := (StoreProofs.kids_lids V).

Fixpoint to_ph_go (h : heap) (l : list (Z * tree)) : list (Z * pnode) :=
  match l with [] => [] | (s, c) :: rest => (s, to_ph V h c) :: to_ph_go h rest end.
Lemma to_ph_Node : forall h i kids, to_ph V h (Node i kids) = PNode i (fb h i) (to_ph_go h kids).
Proof.
  intros. simpl. f_equal. induction kids as [|[s c] r IH]; [reflexivity|]. simpl. rewrite <- IH. reflexivity.
Qed.
Fixpoint to_p_go (after : option nat) (l : list (Z * tree)) : list (Z * pnode) :=
  match l with
  | [] => []
  | (s, c) :: rest => (s, to_p V c (match rest with [] => after | (_, c2) :: _ => first_id V c2 end)) :: to_p_go after rest
  end.
Lemma to_p_Node : forall i kids after,
  to_p V (Node i kids) after = PNode i (first_id V (Node i kids)) (to_p_go after kids).
Proof.
  intros. simpl. f_equal. induction kids as [|[s c] r IH]; [reflexivity|]. simpl. rewrite <- IH. reflexivity.
Qed.

Lemma first_id_hd : forall t, lne V t -> first_id V t = hd_or (lids t) None.
Proof. intros t H. rewrite <- first_leaf_id. apply first_leaf_hd. exact H. Qed.

Lemma to_ph_to_p : forall (t : tree) h after, lne V t -> sub_ok V h t after -> to_ph V h t = to_p V t after.
Proof.
  induction t as [i l|i kids IH] using (tree_ind' V); intros h after Hl Hok.
  - simpl. destruct Hok as [[Hn _] _]. simpl in Hn. rewrite Hn. reflexivity.
  - rewrite to_ph_Node, to_p_Node. apply sub_ok_Node in Hok. destruct Hok as (Hc & Hf & Hk).
    f_equal.
    + rewrite Hf, (first_id_hd _ Hl), leaf_ids_Node. reflexivity.
    + assert (Lk : forall s c, In (s, c) kids -> lne V c) by (intros; eapply lne_child; eassumption).
      clear Hf Hl. revert Hc Hk Lk. induction IH as [|[s c] rest Hc0 _ IHr]; intros Hc Hk Lk; [reflexivity|].
      simpl in Hc0. unfold StoreProofs.kids_lids in Hc. simpl in Hc. apply chain_app in Hc. destruct Hc as [Hcc Hcr].
      unfold kfbs in Hk. simpl in Hk. apply fbs_ok_app in Hk. destruct Hk as [Hkc Hkr].
      simpl. f_equal.
      * f_equal. apply Hc0; [eapply Lk; left; reflexivity|]. split; [|exact Hkc].
        destruct rest as [|[s2 c2] r2]; [exact Hcc|].
        assert (L2 : lne V c2) by (eapply Lk; right; left; reflexivity).
        rewrite (first_id_hd _ L2).
        replace (hd_or (lids c2) None) with (hd_or (flat_map (fun sc => lids (snd sc)) ((s2, c2) :: r2)) after); [exact Hcc|].
        simpl. rewrite hd_or_app. apply hd_or_ne. apply lne_self. exact L2.
      * apply IHr; [exact Hcr | exact Hkr | intros s0 c0 Hin; eapply Lk; right; exact Hin].
Qed.
End CC.

Section CCTop.
Variables ml mi : nat.
Hypothesis Hml : 1 <= ml.
Hypothesis Hmi : 2 <= mi.

Theorem pointer_state_accepted : forall (V : Type) (t : tree V) (h : heap),
  Inv V ml mi t -> chain_ok V h t ->
  to_ph V h t = stored V t /\
  inv_stored (to_ph V h t) /\ check_fn (to_ph V h t) = true /\ pcheck_fn (to_ph V h t) = true.
Proof.
  intros V t h HI Hok.
  assert (E : to_ph V h t = stored V t).
  { destruct (Inv_facts V ml mi Hml Hmi t HI) as (i & kids & -> & [->|[Hl _]]).
    - unfold stored. simpl. destruct Hok as [_ Hf]. inversion Hf; subst. simpl in H1. rewrite H1. reflexivity.
    - apply to_ph_to_p; assumption. }
  split; [exact E|]. rewrite E. exact (api_trees_accepted V ml mi t HI).
Qed.

Theorem pointer_state_accepted_after_history : forall (vs ir : bool) (calls : list call),
  let sp := api_run vs ir ml mi calls in
  let p := to_ph Z (p_heap (snd sp)) (t_tree (fst (run vs ir ml mi init calls))) in
  inv_stored p /\ check_fn p = true /\ pcheck_fn p = true.
Proof.
  intros vs ir calls sp p.
  destruct (chain_calls vs ir ml mi Hml Hmi calls) as (A & _ & C & _). fold sp in A, C.
  pose proof (inv_reachable vs ir ml mi calls Hml Hmi) as HI.
  unfold p. rewrite <- A in *. 
  destruct (pointer_state_accepted Z _ _ HI C) as (_ & R). exact R.
Qed.
End CCTop.
