From Coq Require Import ZArith List Bool Lia ZifyBool.
From BT Require Import Gen.TablesGen Model.Conv.
Open Scope Z_scope.

Ltac Zify.zify_post_hook ::= Z.div_mod_to_equations.

Ltac fin :=
  split; intros H;
  [ first [ discriminate H | (injection H as <-; split; [reflexivity | lia]) ]
  | destruct H as [-> H]; first [ reflexivity | exfalso; lia ] ].
Ltac split_ifs :=
  repeat match goal with
         | |- context [if ?c then _ else _] => let E := fresh "E" in destruct c eqn:E
         end.

Lemma c_int_of_spec t z n :
  c_int_of t z = Some n <-> n = z /\ lo t <= z <= hi t.
Proof.
  unfold c_int_of, fits_long, wrap_s32, wrap_u32, lo, hi,
    I_lo, I_hi, U_lo, U_hi, L_lo, L_hi, Q_lo, Q_hi.
  change (2 ^ 63) with 9223372036854775808.
  change (2 ^ 64) with 18446744073709551616.
  change (2 ^ 31) with 2147483648.
  change (2 ^ 32) with 4294967296.
  destruct t; split_ifs; fin.
Qed.

Lemma py_int_of_spec t z n :
  py_int_of t z = Some n <-> n = z /\ lo t <= z <= hi t.
Proof.
  unfold py_int_of. destruct ((lo t <=? z) && (z <=? hi t)) eqn:E; fin.
Qed.

(* the integer a Python value denotes for the C extension / for Python *)
Definition c_intlike (v : pyval) : option Z :=
  match v with PInt z => Some z | PBool b => Some (if b then 1 else 0) | _ => None end.
Definition py_intlike (v : pyval) : option Z :=
  match v with PInt z => Some z | PBool b => Some (if b then 1 else 0) | PIndex z => Some z | _ => None end.

Lemma c_int_spec t v n :
  c_int t v = Some n <-> c_intlike v = Some n /\ lo t <= n <= hi t.
Proof.
  destruct v; cbn [c_int c_intlike]; try (split; [discriminate | intros [H _]; discriminate]).
  - rewrite c_int_of_spec. split; [intros [-> H]; split; [reflexivity|exact H] | intros [H1 H2]; injection H1 as <-; split; [reflexivity|exact H2]].
  - rewrite c_int_of_spec. split; [intros [-> H]; split; [reflexivity|exact H] | intros [H1 H2]; injection H1 as <-; split; [reflexivity|exact H2]].
Qed.

Lemma py_int_spec t v n :
  py_int t v = Some n <-> py_intlike v = Some n /\ lo t <= n <= hi t.
Proof.
  destruct v; cbn [py_int py_intlike]; try (split; [discriminate | intros [H _]; discriminate]);
    rewrite py_int_of_spec; (split; [intros [-> H]; split; [reflexivity|exact H] | intros [H1 H2]; injection H1 as <-; split; [reflexivity|exact H2]]).
Qed.

Lemma c_py_agree t v :
  (forall z, v <> PIndex z) -> c_int t v = py_int t v.
Proof.
  intros Hn. destruct (c_int t v) as [n|] eqn:Ec.
  - apply c_int_spec in Ec. destruct Ec as [H1 H2]. symmetry. apply py_int_spec.
    split; [|exact H2]. destruct v; cbn in *; try discriminate; exact H1.
  - destruct (py_int t v) as [m|] eqn:Ep; [|reflexivity].
    apply py_int_spec in Ep. destruct Ep as [H1 H2].
    assert (c_int t v = Some m) as Hc.
    { apply c_int_spec. split; [|exact H2]. destruct v; cbn in *; try discriminate; try exact H1.
      exfalso; eapply Hn; reflexivity. }
    congruence.
Qed.
