(* TreeProofs -- the public API (Model/TreeRun.v) refines the reference sorted
   map Spec and preserves the invariant Inv (C01 / C03). *)
From Coq Require Import ZArith List Bool Arith Sorted Lia.
From BT Require Import Model.RTree Model.TreeSpec Model.TreeRun.
From BT Require Import Proofs.TreeBase Proofs.TreeSetProofs Proofs.TreeDelProofs.
Import ListNotations.
Open Scope Z_scope.

(* ================================================================== *)
(* 1. The reference map: lookup equations, extensionality              *)
(* ================================================================== *)
Notation smap := (list (Z * Z)).
Definition allzero (m : smap) : Prop := Forall (fun kv => snd kv = 0) m.
Definition inl (l : list Z) (k : Z) : bool := existsb (Z.eqb k) l.
Definition addS (acc : smap) (k : Z) : smap :=
  if Spec.mem acc k then acc else Spec.insert acc k 0.

Lemma sorted_S : forall m : smap, ksorted m <-> StronglySorted Z.lt (map fst m).
Proof. intros. reflexivity. Qed.

Lemma lookup_insert : forall m k v x,
  Spec.lookup (Spec.insert m k v) x = if x =? k then Some v else Spec.lookup m x.
Proof.
  induction m as [|[k' v'] r IH]; simpl; intros k v x; [reflexivity|].
  destruct (Z.compare_spec k k').
  - subst. simpl. destruct (x =? k'); reflexivity.
  - simpl. reflexivity.
  - simpl. rewrite IH. destruct (Z.eqb_spec x k'), (Z.eqb_spec x k); try reflexivity; lia.
Qed.

Lemma lookup_remove : forall m k x, ksorted m ->
  Spec.lookup (Spec.remove m k) x = if x =? k then None else Spec.lookup m x.
Proof.
  induction m as [|[k' v'] r IH]; simpl; intros k x Hs.
  - destruct (x =? k); reflexivity.
  - apply ksorted_cons in Hs. destruct Hs as [Hg Hs].
    destruct (Z.eqb_spec k k').
    + subst. destruct (Z.eqb_spec x k'); [|reflexivity].
      subst. apply (alookup_all_gt Z). exact Hg.
    + simpl. rewrite IH by assumption.
      destruct (Z.eqb_spec x k'), (Z.eqb_spec x k); try reflexivity; lia.
Qed.

Lemma lookup_filter : forall (p : Z -> bool) m x,
  Spec.lookup (filter (fun kv => p (fst kv)) m) x = if p x then Spec.lookup m x else None.
Proof.
  induction m as [|[k' v'] r IH]; simpl; intros x.
  - destruct (p x); reflexivity.
  - destruct (p k') eqn:E; simpl.
    + destruct (Z.eqb_spec x k'); [subst; rewrite E; reflexivity | apply IH].
    + rewrite IH. destruct (Z.eqb_spec x k'); [subst; rewrite E; reflexivity | reflexivity].
Qed.

Lemma filter_sorted : forall (f : Z * Z -> bool) m, ksorted m -> ksorted (filter f m).
Proof.
  induction m as [|[k v] r IH]; simpl; intros Hs; [exact Hs|].
  apply ksorted_cons in Hs. destruct Hs as [Hg Hs].
  destruct (f (k, v)); [|auto].
  apply ksorted_cons. split; [|auto].
  unfold all_gt in *. rewrite Forall_forall in *. intros x Hx.
  apply filter_In in Hx. apply Hg. tauto.
Qed.

Lemma map_ext_sorted : forall m1 m2 : smap, ksorted m1 -> ksorted m2 ->
  (forall k, Spec.lookup m1 k = Spec.lookup m2 k) -> m1 = m2.
Proof.
  induction m1 as [|[k1 v1] r1 IH]; intros [|[k2 v2] r2] H1 H2 E.
  - reflexivity.
  - specialize (E k2). simpl in E. rewrite Z.eqb_refl in E. discriminate.
  - specialize (E k1). simpl in E. rewrite Z.eqb_refl in E. discriminate.
  - apply ksorted_cons in H1. destruct H1 as [G1 S1].
    apply ksorted_cons in H2. destruct H2 as [G2 S2].
    pose proof (alookup_all_gt Z _ _ G1) as N1. pose proof (alookup_all_gt Z _ _ G2) as N2.
    change (Spec.lookup r1 k1 = None) in N1. change (Spec.lookup r2 k2 = None) in N2.
    assert (k1 = k2) as ->.
    { pose proof (E k1) as E1. pose proof (E k2) as E2. simpl in E1, E2.
      rewrite Z.eqb_refl in E1, E2.
      destruct (Z.eqb_spec k1 k2); [assumption|].
      destruct (Z.eqb_spec k2 k1); [congruence|].
      destruct (Z.lt_total k1 k2) as [L|[L|L]]; [|assumption|].
      - assert (all_gt k1 r2) as G.
        { eapply all_gt_trans; [exact G2 | lia]. }
        apply (alookup_all_gt Z) in G. change (Spec.lookup r2 k1 = None) in G. congruence.
      - assert (all_gt k2 r1) as G.
        { eapply all_gt_trans; [exact G1 | lia]. }
        apply (alookup_all_gt Z) in G. change (Spec.lookup r1 k2 = None) in G. congruence. }
    pose proof (E k2) as E0. simpl in E0. rewrite Z.eqb_refl in E0. inversion E0; subst v2.
    f_equal. apply IH; try assumption.
    intros k. specialize (E k). simpl in E.
    destruct (Z.eqb_spec k k2); [subst; congruence | exact E].
Qed.

Lemma inl_cons : forall k l x, inl (k :: l) x = (x =? k) || inl l x.
Proof. reflexivity. Qed.
Lemma inl_filter : forall (p : Z -> bool) l x, inl (filter p l) x = p x && inl l x.
Proof.
  induction l as [|k l IH]; intros x; simpl; [rewrite andb_false_r; reflexivity|].
  destruct (p k) eqn:E; simpl; fold (inl (filter p l) x); fold (inl l x); rewrite IH.
  - destruct (Z.eqb_spec x k); [subst; rewrite E; reflexivity|reflexivity].
  - destruct (Z.eqb_spec x k); [subst; rewrite E; reflexivity|reflexivity].
Qed.
Lemma inl_keys : forall (m : smap) x, inl (map fst m) x = Spec.mem m x.
Proof.
  unfold Spec.mem. induction m as [|[k v] r IH]; intros x; simpl; [reflexivity|].
  fold (inl (map fst r) x). rewrite IH. destruct (x =? k); reflexivity.
Qed.

Lemma lookup_addS : forall acc k x,
  Spec.lookup (addS acc k) x =
  match Spec.lookup acc x with Some v => Some v | None => if x =? k then Some 0 else None end.
Proof.
  intros. unfold addS, Spec.mem. destruct (Spec.lookup acc k) eqn:E.
  - destruct (Spec.lookup acc x) eqn:E2; [reflexivity|].
    destruct (Z.eqb_spec x k); [subst; congruence | reflexivity].
  - rewrite lookup_insert. destruct (Z.eqb_spec x k); [subst; rewrite E; reflexivity|].
    destruct (Spec.lookup acc x); reflexivity.
Qed.
Lemma lookup_fold_addS : forall l acc x,
  Spec.lookup (fold_left addS l acc) x =
  match Spec.lookup acc x with Some v => Some v | None => if inl l x then Some 0 else None end.
Proof.
  induction l as [|k l IH]; intros acc x; simpl.
  - destruct (Spec.lookup acc x); reflexivity.
  - rewrite IH, lookup_addS. fold (inl l x).
    destruct (Spec.lookup acc x); [reflexivity|].
    destruct (x =? k); simpl; [destruct (inl l x)|]; reflexivity.
Qed.
Lemma insert_sorted : forall (m : smap) k v, ksorted m -> ksorted (Spec.insert m k v).
Proof. intros. apply (ainsert_sorted Z). assumption. Qed.
Lemma remove_sorted : forall (m : smap) k, ksorted m -> ksorted (Spec.remove m k).
Proof. intros. apply (aremove_sorted Z). assumption. Qed.
Lemma addS_sorted : forall acc k, ksorted acc -> ksorted (addS acc k).
Proof. intros. unfold addS. destruct (Spec.mem acc k); [assumption | apply insert_sorted; assumption]. Qed.
Lemma fold_sorted : forall (A : Type) (g : smap -> A -> smap),
  (forall m a, ksorted m -> ksorted (g m a)) ->
  forall l m, ksorted m -> ksorted (fold_left g l m).
Proof. induction l; simpl; intros; auto. Qed.
Lemma lookup_fold_remove : forall l m x, ksorted m ->
  Spec.lookup (fold_left Spec.remove l m) x = if inl l x then None else Spec.lookup m x.
Proof.
  induction l as [|k l IH]; intros m x Hs; simpl; [reflexivity|].
  fold (inl l x). rewrite IH by (apply remove_sorted; assumption).
  rewrite lookup_remove by assumption.
  destruct (x =? k), (inl l x); reflexivity.
Qed.

Lemma allzero_lookup : forall m x v, allzero m -> Spec.lookup m x = Some v -> v = 0.
Proof.
  induction m as [|[k' v'] r IH]; simpl; intros x v H E; [discriminate|].
  inversion H; subst. destruct (x =? k'); [inversion E; subst; assumption | eauto].
Qed.

Lemma iand_true_eq : forall l m, ksorted m -> allzero m ->
  fold_left addS (filter (Spec.mem m) l) [] = filter (fun kv => existsb (Z.eqb (fst kv)) l) m.
Proof.
  intros l m Hs Hz. apply map_ext_sorted.
  - apply fold_sorted; [intros; apply addS_sorted; assumption | apply (ksorted_nil Z)].
  - apply filter_sorted. assumption.
  - intros x. rewrite lookup_fold_addS. simpl.
    change (fun kv : Z * Z => existsb (Z.eqb (fst kv)) l) with (fun kv : Z * Z => inl l (fst kv)).
    rewrite (lookup_filter (inl l)). rewrite inl_filter. unfold Spec.mem.
    destruct (Spec.lookup m x) as [v|] eqn:E; simpl.
    + apply (allzero_lookup _ _ _ Hz) in E. subst. reflexivity.
    + destruct (inl l x); reflexivity.
Qed.
Lemma iand_false_eq : forall l m, ksorted m ->
  fold_left Spec.remove (filter (fun k => negb (existsb (Z.eqb k) l)) (map fst m)) m
  = filter (fun kv => existsb (Z.eqb (fst kv)) l) m.
Proof.
  intros l m Hs. apply map_ext_sorted.
  - apply fold_sorted; [intros; apply remove_sorted; assumption | assumption].
  - apply filter_sorted. assumption.
  - intros x. rewrite lookup_fold_remove by assumption.
    change (fun kv : Z * Z => existsb (Z.eqb (fst kv)) l) with (fun kv : Z * Z => inl l (fst kv)).
    rewrite (lookup_filter (inl l)).
    change (fun k => negb (existsb (Z.eqb k) l)) with (fun k => negb (inl l k)).
    rewrite (inl_filter (fun k => negb (inl l k))). rewrite inl_keys. unfold Spec.mem.
    destruct (inl l x), (Spec.lookup m x); reflexivity.
Qed.

(* ================================================================== *)
(* 2. The state transformers against the reference                     *)
(* ================================================================== *)
Section RunProofs.
Variables vsame ir : bool.
Variables ml mi : nat.
Hypothesis Hml : (1 <= ml)%nat.
Hypothesis Hmi : (2 <= mi)%nat.

Notation st := TreeRun.st.
Definition R (s : st) (m : smap) : Prop :=
  Inv Z ml mi (t_tree s) /\ contents Z (t_tree s) = m.

Lemma R_sorted : forall s m, R s m -> ksorted m.
Proof. intros s m [H <-]. apply (Inv_sorted Z ml mi). exact H. Qed.

Lemma R_tget : forall s m k, R s m -> tget Z (t_tree s) k = Spec.lookup m k.
Proof. intros s m k [H <-]. apply (Inv_tget Z ml mi). exact H. Qed.

Lemma has_R : forall s m k, R s m -> has s k = Spec.mem m k.
Proof. intros. unfold has, Spec.mem. rewrite (R_tget s m k H). reflexivity. Qed.

Lemma do_set_R : forall s m k v iu, R s m ->
  let '(s', stt, rv) := do_set vsame ml mi s k v iu in
  R s' (if iu && Spec.mem m k then m else Spec.insert m k v) /\
  (stt = St1 <-> Spec.mem m k = false) /\
  rv = Some (if iu then match Spec.lookup m k with Some x => x | None => v end else v).
Proof.
  intros s m k v iu [HI HC]. unfold do_set, T_set. simpl.
  pose proof (tset_contents Z Z.eqb vsame ml mi (t_fresh s) (t_tree s) k v iu Hml Hmi
                (fun a b => proj1 (Z.eqb_eq a b)) HI) as P.
  cbv zeta in P. destruct P as (P1 & P2 & P3).
  rewrite HC in *.
  split; [split|split].
  - apply inv_tset; assumption.
  - exact P1.
  - rewrite P2. unfold Spec.mem. change (alookup m k) with (Spec.lookup m k).
    destruct (Spec.lookup m k); split; congruence.
  - exact P3.
Qed.

Lemma do_del_R : forall s m k, R s m ->
  match do_del s k with
  | Some (s', x) => Spec.lookup m k = Some x /\ R s' (Spec.remove m k)
  | None => Spec.lookup m k = None
  end.
Proof.
  intros s m k [HI HC]. unfold do_del, T_del.
  pose proof (tdel_root Z ml mi (t_tree s) k HI) as P.
  destruct (tdel Z (t_tree s) k) as [r|]; rewrite HC in P.
  - destruct P as (P1 & P2 & P3). split; [exact P1|]. split; [exact P3 | exact P2].
  - exact P.
Qed.

Lemma del_failed_tree : forall s k, t_tree (del_failed ir s k) = t_tree s.
Proof.
  intros. unfold del_failed. destruct (t_tree s) as [i l|i [|x r]] eqn:E; simpl; try reflexivity.
  destruct ir; simpl; auto.
Qed.
Lemma del_failed_R : forall s m k, R s m -> R (del_failed ir s k) m.
Proof. intros s m k H. unfold R. rewrite del_failed_tree. exact H. Qed.

Lemma quirk_tree : forall s stt, t_tree (set_nochange_quirk ir s stt) = t_tree s.
Proof.
  intros. unfold set_nochange_quirk.
  destruct stt; try reflexivity.
  destruct (t_tree s) as [i l|i kids] eqn:E; [exact E|].
  destruct kids as [|[z c] r]; [exact E|].
  destruct c; [|exact E]. destruct r; [|exact E].
  destruct ir; simpl; auto.
Qed.

Lemma do_clear_R : forall s m, R s m -> R (do_clear ir s) [].
Proof.
  intros s m [HI _]. unfold do_clear.
  apply Inv_inv in HI. destruct HI as (i & kids & E & _). rewrite E.
  destruct kids as [|x r]; simpl; split; try reflexivity.
Qed.

Lemma remove_absent : forall m k, Spec.mem m k = false -> Spec.remove m k = m.
Proof.
  intros m k H. apply (aremove_absent Z). unfold Spec.mem in H.
  change (alookup m k) with (Spec.lookup m k). destruct (Spec.lookup m k); [discriminate|reflexivity].
Qed.

Lemma discard_R : forall s m k, R s m -> R (discard ir s k) (Spec.remove m k).
Proof.
  intros s m k H. unfold discard. rewrite (has_R s m k H).
  pose proof (do_del_R s m k H) as P. unfold Spec.mem.
  destruct (Spec.lookup m k) as [x|] eqn:E.
  - destruct (do_del s k) as [[s' y]|]; [apply P | discriminate].
  - rewrite remove_absent by (unfold Spec.mem; rewrite E; reflexivity).
    pose proof (del_failed_R s m k H) as Q. destruct ir; assumption.
Qed.

Lemma add_R : forall s m k, R s m -> R (add vsame ir ml mi s k) (addS m k).
Proof.
  intros s m k H. unfold add, addS.
  pose proof (do_set_R s m k 0 true H) as P.
  destruct (do_set vsame ml mi s k 0 true) as [[s' stt] rv].
  destruct P as (P & _). simpl in P. unfold R. rewrite quirk_tree. exact P.
Qed.

Lemma fold_R : forall (A : Type) (f : st -> A -> st) (g : smap -> A -> smap),
  (forall s m a, R s m -> R (f s a) (g m a)) ->
  forall l s m, R s m -> R (fold_left f l s) (fold_left g l m).
Proof. induction l; simpl; intros; auto. Qed.

(* ================================================================== *)
(* 3. One call                                                         *)
(* ================================================================== *)
(* the reference step, except that the rebuilding &= re-adds the kept keys *)
Definition step' (m : smap) (c : call) : smap :=
  match c with
  | CIand l => if ir then fold_left addS (filter (Spec.mem m) l) []
               else fold_left Spec.remove
                      (filter (fun k => negb (existsb (Z.eqb k) l)) (map fst m)) m
  | _ => fst (Spec.step m c)
  end.

Lemma step'_eq : forall m c, ksorted m ->
  (ir = true -> is_iand c = true -> allzero m) ->
  step' m c = fst (Spec.step m c).
Proof.
  intros m c Hs Hz. destruct c; try reflexivity. simpl.
  destruct ir eqn:E.
  - apply iand_true_eq; [assumption | apply Hz; reflexivity].
  - apply iand_false_eq. assumption.
Qed.

Lemma Inv_empty_iff : forall s m, R s m ->
  (tsize Z (t_tree s) =? 0)%nat = match m with [] => true | _ => false end.
Proof.
  intros s m [HI HC]. pose proof HI as HI'.
  apply Inv_inv in HI. destruct HI as (i & kids & E & [->|[Hl Hb]]).
  - rewrite E in *. simpl in HC. subst m. reflexivity.
  - rewrite E in *. pose proof (WFbody_nonempty Z ml mi _ _ _ Hb) as Hn.
    rewrite HC in Hn. simpl in Hn |- *. destruct kids as [|x r]; [simpl in Hl; lia|].
    simpl. destruct m; [exfalso; apply Hn; [lia|reflexivity] | reflexivity].
Qed.

Ltac dset s m k v iu H :=
  let P := fresh "P" in
  pose proof (do_set_R s m k v iu H) as P;
  destruct (do_set vsame ml mi s k v iu) as [[?s' ?stt] ?rv];
  destruct P as (?P1 & ?P2 & ?P3).
Ltac ddel s m k H :=
  let P := fresh "P" in
  pose proof (do_del_R s m k H) as P;
  destruct (do_del s k) as [[?s' ?y]|].

Lemma St1_bool : forall stt b, (stt = St1 <-> b = false) ->
  (match stt with St1 => true | _ => false end) = negb b.
Proof.
  intros stt b [H1 H2]. destruct b; simpl.
  - destruct stt; try reflexivity. specialize (H1 eq_refl). discriminate.
  - rewrite (H2 eq_refl). reflexivity.
Qed.

Lemma quirk_R : forall s m stt, R s m -> R (set_nochange_quirk ir s stt) m.
Proof. intros. unfold R. rewrite quirk_tree. assumption. Qed.
Lemma if_R1 : forall (b : bool) A B m, R A m -> R B m -> R (if b then A else B) m.
Proof. intros []; auto. Qed.
Lemma if_R2 : forall (b : bool) A B A' B', R A A' -> R B B' ->
  R (if b then A else B) (if b then A' else B').
Proof. intros []; auto. Qed.
Lemma if_pair : forall (b : bool) (A B : st) (o : out),
  (if b then (A, o) else (B, o)) = (if b then A else B, o).
Proof. intros []; auto. Qed.
Lemma existsb_ext' : forall (A : Type) (f g : A -> bool), (forall a, f a = g a) ->
  forall l, existsb f l = existsb g l.
Proof. induction l; simpl; [reflexivity|]. rewrite H, IHl. reflexivity. Qed.

Definition StepOK (s : st) (m : smap) (c : call) : Prop :=
  R (fst (step vsame ir ml mi s c)) (step' m c) /\
  snd (step vsame ir ml mi s c) = snd (Spec.step m c).

Lemma step_R_a : forall s m k v, R s m ->
  StepOK s m (CSet k v) /\ StepOK s m (CDel k) /\ StepOK s m (CInsert k v) /\
  StepOK s m (CSetdefault k v) /\ StepOK s m (CPop k) /\ StepOK s m (CPopD k v) /\
  StepOK s m (CRemove k) /\ StepOK s m (CAdd k) /\ StepOK s m (CDiscard k).
Proof.
  intros s m k v H. unfold StepOK.
  cbn [step step' Spec.step].
  repeat match goal with |- _ /\ _ => split end.
  - dset s m k v false H. simpl in *. assumption.
  - dset s m k v false H. reflexivity.
  - ddel s m k H; unfold Spec.mem.
    + destruct P as [Q1 Q2]. rewrite Q1. exact Q2.
    + rewrite P. apply del_failed_R. exact H.
  - ddel s m k H; unfold Spec.mem.
    + destruct P as [Q1 Q2]. rewrite Q1. reflexivity.
    + rewrite P. reflexivity.
  - dset s m k v true H. simpl in *. destruct (Spec.mem m k); exact P1.
  - dset s m k v true H. rewrite (St1_bool _ _ P2). destruct (Spec.mem m k); reflexivity.
  - rewrite (R_tget s m k H). dset s m k v true H. simpl in P1. unfold Spec.mem in P1.
    destruct (Spec.lookup m k) eqn:E; destruct ir; simpl; assumption.
  - rewrite (R_tget s m k H). dset s m k v true H. subst rv.
    destruct (Spec.lookup m k) eqn:E; destruct ir; reflexivity.
  - ddel s m k H.
    + destruct P as [Q1 Q2]. rewrite Q1. exact Q2.
    + rewrite P. simpl. apply if_R1; [exact H | apply del_failed_R; exact H].
  - ddel s m k H.
    + destruct P as [Q1 Q2]. rewrite Q1. reflexivity.
    + rewrite P. reflexivity.
  - ddel s m k H.
    + destruct P as [Q1 Q2]. rewrite Q1. exact Q2.
    + rewrite P. simpl. apply if_R1; [exact H | apply del_failed_R; exact H].
  - ddel s m k H.
    + destruct P as [Q1 Q2]. rewrite Q1. reflexivity.
    + rewrite P. reflexivity.
  - ddel s m k H; unfold Spec.mem.
    + destruct P as [Q1 Q2]. rewrite Q1. exact Q2.
    + rewrite P. apply del_failed_R. exact H.
  - ddel s m k H; unfold Spec.mem.
    + destruct P as [Q1 Q2]. rewrite Q1. reflexivity.
    + rewrite P. reflexivity.
  - dset s m k 0 true H. simpl in P1 |- *.
    destruct (Spec.mem m k); apply quirk_R; exact P1.
  - dset s m k 0 true H. rewrite (St1_bool _ _ P2). destruct (Spec.mem m k); reflexivity.
  - apply discard_R. exact H.
  - reflexivity.
Qed.

Lemma step_R_b : forall s m k d, R s m ->
  StepOK s m CPopitem /\ StepOK s m CClear /\ StepOK s m (CGet k) /\ StepOK s m (CGetD k d) /\
  StepOK s m (CItem k) /\ StepOK s m (CIn k) /\ StepOK s m (CHasKey k) /\ StepOK s m CLen /\
  StepOK s m CBool /\ StepOK s m CKeys /\ StepOK s m CItems /\ StepOK s m CSPop.
Proof.
  intros s m k d H. unfold StepOK. pose proof (proj2 H) as HC.
  cbn [step step' Spec.step].
  rewrite !(R_tget s m k H), !(has_R s m k H), (Inv_empty_iff s m H), !HC.
  repeat match goal with |- _ /\ _ => split end; try reflexivity; try exact H.
  - destruct m as [|[k0 v0] r]; [exact H|].
    ddel s ((k0, v0) :: r) k0 H; simpl in P; rewrite Z.eqb_refl in P.
    + apply P.
    + discriminate.
  - destruct m as [|[k0 v0] r]; [reflexivity|].
    ddel s ((k0, v0) :: r) k0 H; simpl in P; rewrite Z.eqb_refl in P.
    + destruct P as [Q _]. inversion Q. reflexivity.
    + discriminate.
  - eapply do_clear_R. exact H.
  - destruct m as [|[k0 v0] r]; [exact H|].
    pose proof (discard_R s _ k0 H) as Q. simpl in Q. rewrite Z.eqb_refl in Q. exact Q.
  - destruct m as [|[k0 v0] r]; reflexivity.
Qed.

Lemma step_R_c : forall s m (l : list Z) (lk : list wkv), R s m ->
  StepOK s m (CUpdate lk) /\ StepOK s m (CSUpdate l) /\ StepOK s m (CIor l) /\
  StepOK s m (CIand l) /\ StepOK s m (CIsub l) /\ StepOK s m (CIxor l) /\
  StepOK s m (CIsdisjoint l).
Proof.
  intros s m l lk H. unfold StepOK. pose proof (proj2 H) as HC.
  cbn [step step' Spec.step]. rewrite if_pair. cbn [fst snd].
  repeat match goal with |- _ /\ _ => split end; try reflexivity; try exact H.
  - apply fold_R; [|exact H]. intros s0 m0 a H0.
    dset s0 m0 (fst (of_kv a)) (snd (of_kv a)) false H0. exact P1.
  - exact (fold_R Z _ addS (fun s0 m0 a => add_R s0 m0 a) l s m H).
  - exact (fold_R Z _ addS (fun s0 m0 a => add_R s0 m0 a) l s m H).
  - apply if_R2.
    + rewrite (filter_ext (has s) (Spec.mem m) (fun a => has_R s m a H)).
      apply (fold_R Z _ addS (fun s0 m0 a => add_R s0 m0 a)).
      eapply do_clear_R. exact H.
    + rewrite HC. apply fold_R; [|exact H]. intros. apply discard_R. assumption.
  - apply fold_R; [|exact H]. intros. apply discard_R. assumption.
  - apply fold_R; [|exact H]. intros s0 m0 a H0. rewrite (has_R _ _ a H0).
    pose proof (add_R s0 m0 a H0) as Q. unfold addS in Q.
    destruct (Spec.mem m0 a); [apply discard_R; assumption | exact Q].
  - rewrite (existsb_ext' Z (has s) (Spec.mem m) (fun a => has_R s m a H)). reflexivity.
Qed.

Lemma step_R : forall s m c, R s m -> StepOK s m c.
Proof.
  intros s m c H. destruct c.
  all: try (apply (step_R_a s m k v H)); try (apply (step_R_a s m k 0 H)).
  all: try (apply (step_R_b s m k d H)); try (apply (step_R_b s m k 0 H));
       try (apply (step_R_b s m 0 0 H)).
  all: try (apply (step_R_c s m l [] H)); try (apply (step_R_c s m [] l H)).
  apply (step_R_a s m k d H).
Qed.

(* ================================================================== *)
(* 4. Set histories store only zero values                             *)
(* ================================================================== *)
Lemma allzero_insert : forall m k v, allzero m -> v = 0 -> allzero (Spec.insert m k v).
Proof. intros. apply (ainsert_Forall Z); assumption. Qed.
Lemma allzero_remove : forall m k, allzero m -> allzero (Spec.remove m k).
Proof. intros. apply (aremove_Forall Z); assumption. Qed.
Lemma allzero_fold : forall (A : Type) (g : smap -> A -> smap),
  (forall m a, allzero m -> allzero (g m a)) ->
  forall l m, allzero m -> allzero (fold_left g l m).
Proof. induction l; simpl; intros; auto. Qed.
Lemma allzero_filter : forall f m, allzero m -> allzero (filter f m).
Proof.
  unfold allzero. intros f m H. rewrite Forall_forall in *. intros x Hx.
  apply filter_In in Hx. apply H. tauto.
Qed.
Lemma allzero_update : forall l m, allzero m ->
  forallb (fun x => snd (of_kv x) =? 0) l = true ->
  allzero (fold_left (fun acc x => Spec.insert acc (fst (of_kv x)) (snd (of_kv x))) l m).
Proof.
  induction l as [|x l IH]; simpl; intros m H E; [exact H|].
  apply andb_true_iff in E. destruct E as [E1 E2]. apply IH; [|exact E2].
  apply allzero_insert; [exact H | apply Z.eqb_eq; exact E1].
Qed.

Lemma allzero_step : forall m c, allzero m -> zero_values c = true ->
  allzero (fst (Spec.step m c)).
Proof.
  intros m c H E.
  assert (forall k, allzero (Spec.insert m k 0)) as Hi by (intros; apply allzero_insert; auto).
  assert (forall k, allzero (Spec.remove m k)) as Hr by (intros; apply allzero_remove; auto).
  destruct c; simpl in *; try exact H; try apply Z.eqb_eq in E; subst;
    try (unfold Spec.mem; destruct (Spec.lookup m k); simpl; auto; fail).
  - destruct m as [|[k v] r]; simpl; [exact H | inversion H; assumption].
  - apply allzero_update; assumption.
  - constructor.
  - destruct m as [|[k v] r]; simpl; [exact H | inversion H; assumption].
  - apply allzero_fold; [|exact H]. intros m0 a H0.
    destruct (Spec.mem m0 a); [exact H0 | apply allzero_insert; auto].
  - apply allzero_fold; [|exact H]. intros m0 a H0.
    destruct (Spec.mem m0 a); [exact H0 | apply allzero_insert; auto].
  - apply allzero_filter. exact H.
  - apply allzero_fold; [|exact H]. intros. apply allzero_remove. assumption.
  - apply allzero_fold; [|exact H]. intros m0 a H0.
    destruct (Spec.mem m0 a); [apply allzero_remove | apply allzero_insert]; auto.
Qed.

(* ================================================================== *)
(* 5. Histories                                                        *)
(* ================================================================== *)
Definition side (m : smap) (calls : list call) : Prop :=
  ir = true -> existsb is_iand calls = false \/ (forallb zero_values calls = true /\ allzero m).

Lemma run_R : forall calls s m, R s m -> side m calls ->
  let '(s', outs) := run vsame ir ml mi s calls in
  let '(m', outs') := Spec.run m calls in
  outs = outs' /\ R s' m'.
Proof.
  induction calls as [|c r IH]; intros s m H Hs; simpl; [split; [reflexivity | exact H]|].
  destruct (step_R s m c H) as [Q1 Q2].
  rewrite step'_eq in Q1.
  2: { eapply R_sorted. exact H. }
  2: { intros Ei Ec. destruct (Hs Ei) as [X|[X Y]]; [|exact Y].
       simpl in X. rewrite Ec in X. discriminate. }
  assert (side (fst (Spec.step m c)) r) as Hs'.
  { intros Ei. destruct (Hs Ei) as [X|[X Y]]; simpl in X.
    - left. apply orb_false_iff in X. tauto.
    - right. apply andb_true_iff in X. destruct X as [X1 X2].
      split; [exact X2 | apply allzero_step; assumption]. }
  destruct (step vsame ir ml mi s c) as [s1 o].
  destruct (Spec.step m c) as [m1 o']. simpl in *. subst o'.
  specialize (IH s1 m1 Q1 Hs').
  destruct (run vsame ir ml mi s1 r) as [s2 os]. destruct (Spec.run m1 r) as [m2 os'].
  destruct IH as [I1 I2]. split; [f_equal; exact I1 | exact I2].
Qed.

Lemma inv_step0 : forall s c, Inv Z ml mi (t_tree s) ->
  Inv Z ml mi (t_tree (fst (step vsame ir ml mi s c))).
Proof.
  intros s c H. destruct (step_R s (contents Z (t_tree s)) c (conj H eq_refl)) as [[Q _] _].
  exact Q.
Qed.

Lemma inv_run0 : forall calls s, Inv Z ml mi (t_tree s) ->
  Inv Z ml mi (t_tree (fst (run vsame ir ml mi s calls))).
Proof.
  induction calls as [|c r IH]; intros s H; simpl; [exact H|].
  pose proof (inv_step0 s c H) as Q.
  destruct (step vsame ir ml mi s c) as [s1 o]. simpl in Q.
  specialize (IH s1 Q). destruct (run vsame ir ml mi s1 r) as [s2 os]. exact IH.
Qed.

Lemma spec_keyerror : forall m c, snd (Spec.step m c) = OKeyError -> step' m c = m.
Proof.
  intros m c E. destruct c; simpl in *; try discriminate; unfold Spec.mem in *;
    try (destruct (Spec.lookup m k); simpl in *; try discriminate; reflexivity);
    try (destruct m as [|[? ?] ?]; simpl in *; try discriminate; reflexivity).
Qed.

Lemma keyerror_step0 : forall s c, Inv Z ml mi (t_tree s) ->
  snd (step vsame ir ml mi s c) = OKeyError ->
  contents Z (t_tree (fst (step vsame ir ml mi s c))) = contents Z (t_tree s).
Proof.
  intros s c H E.
  destruct (step_R s (contents Z (t_tree s)) c (conj H eq_refl)) as [[_ Q1] Q2].
  rewrite Q1. apply spec_keyerror. rewrite <- Q2. exact E.
Qed.
End RunProofs.

(* ================================================================== *)
(* 6. Exported statements (Props/C01.v, Props/C03.v)                   *)
(* ================================================================== *)
Theorem inv_init : forall ml mi : nat, Inv Z ml mi (t_tree init).
Proof. intros. apply Inv_Node_nil. Qed.

Theorem inv_step : forall (vsame iand_rebuilds : bool) (ml mi : nat) (s : st) (c : call),
  (1 <= ml)%nat -> (2 <= mi)%nat ->
  Inv Z ml mi (t_tree s) -> Inv Z ml mi (t_tree (fst (step vsame iand_rebuilds ml mi s c))).
Proof. intros. apply inv_step0; assumption. Qed.

Theorem inv_reachable : forall (vsame iand_rebuilds : bool) (ml mi : nat) (calls : list call),
  (1 <= ml)%nat -> (2 <= mi)%nat ->
  Inv Z ml mi (t_tree (fst (run vsame iand_rebuilds ml mi init calls))).
Proof. intros. apply inv_run0; try assumption. apply inv_init. Qed.

Definition inv_tset := TreeSetProofs.inv_tset.
Definition inv_tdel := TreeDelProofs.inv_tdel.
Definition leaf_refines := TreeBase.leaf_refines.

Theorem run_refines : forall (vsame iand_rebuilds : bool) (ml mi : nat) (calls : list call),
  (1 <= ml)%nat -> (2 <= mi)%nat ->
  (iand_rebuilds = true -> set_calls_ok calls = true) ->
  let '(s, outs) := run vsame iand_rebuilds ml mi init calls in
  let '(m, outs') := Spec.run [] calls in
  outs = outs' /\ contents Z (t_tree s) = m.
Proof.
  intros vsame ir ml mi calls Hml Hmi Hok.
  assert (R ml mi init []) as H0 by (split; [apply inv_init | reflexivity]).
  assert (side ir [] calls) as Hs.
  { intros E. specialize (Hok E). unfold set_calls_ok in Hok.
    apply orb_true_iff in Hok. destruct Hok as [X|X].
    - left. apply negb_true_iff. exact X.
    - right. split; [exact X | constructor]. }
  pose proof (run_R vsame ir ml mi Hml Hmi calls init [] H0 Hs) as P.
  destruct (run vsame ir ml mi init calls) as [s outs].
  destruct (Spec.run [] calls) as [m outs'].
  destruct P as [P1 [_ P2]]. split; assumption.
Qed.

Theorem run_sorted : forall (vsame iand_rebuilds : bool) (ml mi : nat) (calls : list call),
  (1 <= ml)%nat -> (2 <= mi)%nat ->
  StronglySorted Z.lt (map fst (contents Z (t_tree (fst (run vsame iand_rebuilds ml mi init calls))))).
Proof.
  intros vsame ir ml mi calls Hml Hmi.
  apply (Inv_sorted Z ml mi). apply inv_reachable; assumption.
Qed.

Theorem keyerror_preserves : forall (vsame iand_rebuilds : bool) (ml mi : nat) (calls : list call) (c : call),
  (1 <= ml)%nat -> (2 <= mi)%nat ->
  let s := fst (run vsame iand_rebuilds ml mi init calls) in
  snd (step vsame iand_rebuilds ml mi s c) = OKeyError ->
  contents Z (t_tree (fst (step vsame iand_rebuilds ml mi s c))) = contents Z (t_tree s).
Proof.
  intros vsame ir ml mi calls c Hml Hmi s E.
  apply keyerror_step0; try assumption. apply inv_reachable; assumption.
Qed.

Print Assumptions run_refines.
Print Assumptions run_sorted.
Print Assumptions keyerror_preserves.
Print Assumptions leaf_refines.
Print Assumptions inv_init.
Print Assumptions inv_step.
Print Assumptions inv_reachable.
Print Assumptions inv_tset.
Print Assumptions inv_tdel.
