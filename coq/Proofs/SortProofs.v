(* Proofs for C11: LSB-first radix sort, uniq, multiunion (C and Python). *)
From Coq Require Import ZArith List Bool Arith Sorted Permutation Lia.
From BT Require Import Model.Sort Model.SortSpec.
Import ListNotations.
Open Scope Z_scope.

#[local] Arguments Z.pow : simpl never.

(* ================================================================== *)
(* Generic list facts                                                  *)
(* ================================================================== *)
Section Generic.
Variable A : Type.

Lemma SSorted_app (R : A -> A -> Prop) l1 l2 :
  StronglySorted R l1 -> StronglySorted R l2 ->
  (forall x y, In x l1 -> In y l2 -> R x y) -> StronglySorted R (l1 ++ l2).
Proof.
  induction l1 as [|a l1 IH]; simpl; intros H1 H2 H; auto.
  inversion H1; subst. constructor.
  - apply IH; auto.
  - apply Forall_app; split; auto. apply Forall_forall; intros; apply H; auto.
Qed.

Lemma SSorted_filter (R : A -> A -> Prop) p l :
  StronglySorted R l -> StronglySorted R (filter p l).
Proof.
  induction 1 as [|a l Hs IH Hall]; simpl; [constructor|].
  destruct (p a); auto. constructor; auto.
  apply Forall_forall. intros x Hx. apply filter_In in Hx. destruct Hx as [Hx _].
  rewrite Forall_forall in Hall; auto.
Qed.

Lemma SSorted_impl_in (R R' : A -> A -> Prop) l :
  StronglySorted R l ->
  (forall x y, In x l -> In y l -> R x y -> R' x y) -> StronglySorted R' l.
Proof.
  induction 1 as [|a l Hs IH Hall]; intros HI; constructor.
  - apply IH. intros; apply HI; simpl; auto.
  - rewrite Forall_forall in *. intros y Hy. apply HI; simpl; auto.
Qed.

Lemma SSorted_total (R : A -> A -> Prop) l :
  (forall x y, R x y) -> StronglySorted R l.
Proof.
  intros H. induction l; constructor; auto. apply Forall_forall; auto.
Qed.

Lemma filter_none (p : A -> bool) l :
  (forall x, In x l -> p x = false) -> filter p l = [].
Proof.
  induction l as [|a l IH]; simpl; intros H; auto.
  rewrite (H a) by auto. apply IH; auto.
Qed.

Lemma filter_all (p : A -> bool) l :
  (forall x, In x l -> p x = true) -> filter p l = l.
Proof.
  induction l as [|a l IH]; simpl; intros H; auto.
  rewrite (H a) by auto. f_equal. apply IH; auto.
Qed.

Lemma filter_split_perm (p q r : A -> bool) l :
  (forall x, In x l -> p x = q x || r x) ->
  (forall x, In x l -> q x && r x = false) ->
  Permutation (filter p l) (filter q l ++ filter r l).
Proof.
  induction l as [|a l IH]; simpl; intros Hp Hd; [constructor|].
  assert (IH' := IH (fun x Hx => Hp x (or_intror Hx)) (fun x Hx => Hd x (or_intror Hx))).
  specialize (Hp a (or_introl eq_refl)). specialize (Hd a (or_introl eq_refl)).
  rewrite Hp. destruct (q a), (r a); simpl in *; try discriminate.
  - constructor; auto.
  - apply Permutation_cons_app; auto.
  - auto.
Qed.

End Generic.
Arguments SSorted_app {A}.
Arguments SSorted_filter {A}.
Arguments SSorted_impl_in {A}.
Arguments SSorted_total {A}.
Arguments filter_none {A}.
Arguments filter_all {A}.
Arguments filter_split_perm {A}.

(* ================================================================== *)
(* Stable bucket distribution by a Z-valued key                        *)
(* ================================================================== *)
Definition bucket (f : Z -> Z) (order : list Z) (l : list Z) : list Z :=
  flat_map (fun b => filter (fun x => f x =? b) l) order.

Lemma distribute_tag f order l :
  distribute order (map (fun x => (f x, x)) l) = bucket f order l.
Proof.
  unfold distribute, bucket. apply flat_map_ext. intros b.
  induction l as [|a l IH]; simpl; auto.
  destruct (f a =? b); simpl; congruence.
Qed.

Lemma bucket_cons f b order l :
  bucket f (b :: order) l = filter (fun x => f x =? b) l ++ bucket f order l.
Proof. reflexivity. Qed.

Lemma bucket_app f o1 o2 l :
  bucket f (o1 ++ o2) l = bucket f o1 l ++ bucket f o2 l.
Proof. unfold bucket. apply flat_map_app. Qed.

Lemma in_bucket f order l x :
  In x (bucket f order l) <-> In x l /\ In (f x) order.
Proof.
  unfold bucket. rewrite in_flat_map. split.
  - intros [b [Hb Hx]]. apply filter_In in Hx. destruct Hx as [Hx He].
    apply Z.eqb_eq in He. subst. auto.
  - intros [Hx Hb]. exists (f x). split; auto. apply filter_In. split; auto.
    apply Z.eqb_refl.
Qed.

Lemma in_zrange : forall n lo b, In b (zrange lo n) <-> lo <= b < lo + Z.of_nat n.
Proof.
  induction n as [|n IH]; intros lo b.
  - simpl. lia.
  - change (zrange lo (S n)) with (lo :: zrange (lo + 1) n).
    rewrite Nat2Z.inj_succ. split.
    + intros [<-|H]; [lia|]. apply IH in H. lia.
    + intros H. destruct (Z.eq_dec lo b) as [->|Hne]; [left; auto|].
      right. apply IH. lia.
Qed.

Lemma bucket_perm_gen f l : forall n lo,
  Permutation (filter (fun x => (lo <=? f x) && (f x <? lo + Z.of_nat n)) l)
              (bucket f (zrange lo n) l).
Proof.
  induction n as [|n IH]; intros lo.
  - rewrite filter_none; [constructor|].
    intros x _. simpl Z.of_nat.
    destruct (Z.leb_spec lo (f x)), (Z.ltb_spec (f x) (lo + 0)); simpl; auto; lia.
  - change (zrange lo (S n)) with (lo :: zrange (lo + 1) n). rewrite bucket_cons.
    eapply Permutation_trans;
      [apply filter_split_perm with
         (q := fun x => f x =? lo)
         (r := fun x => (lo + 1 <=? f x) && (f x <? lo + 1 + Z.of_nat n))
      | apply Permutation_app_head, IH].
    + intros x _. rewrite Nat2Z.inj_succ.
      destruct (Z.leb_spec lo (f x)), (Z.ltb_spec (f x) (lo + Z.succ (Z.of_nat n))),
        (Z.eqb_spec (f x) lo), (Z.leb_spec (lo + 1) (f x)),
        (Z.ltb_spec (f x) (lo + 1 + Z.of_nat n)); simpl; auto; lia.
    + intros x _.
      destruct (Z.eqb_spec (f x) lo), (Z.leb_spec (lo + 1) (f x)); simpl; auto; lia.
Qed.

Lemma bucket_perm f l n lo :
  (forall x, In x l -> lo <= f x < lo + Z.of_nat n) ->
  Permutation l (bucket f (zrange lo n) l).
Proof.
  intros H. eapply Permutation_trans; [|apply bucket_perm_gen].
  rewrite filter_all; [reflexivity|].
  intros x Hx. specialize (H x Hx).
  destruct (Z.leb_spec lo (f x)), (Z.ltb_spec (f x) (lo + Z.of_nat n)); simpl; auto; lia.
Qed.

Definition lex (g old : Z -> Z) (x y : Z) : Prop :=
  g x < g y \/ (g x = g y /\ old x <= old y).
Definition le_on (k : Z -> Z) (x y : Z) : Prop := k x <= k y.

Lemma bucket_sorted g old l :
  StronglySorted (le_on old) l ->
  forall n lo, StronglySorted (lex g old) (bucket g (zrange lo n) l).
Proof.
  intros Hs. induction n as [|n IH]; intros lo.
  - constructor.
  - change (zrange lo (S n)) with (lo :: zrange (lo + 1) n). rewrite bucket_cons.
    apply SSorted_app.
    + apply SSorted_impl_in with (R := le_on old).
      * apply SSorted_filter; auto.
      * intros x y Hx Hy Hxy. apply filter_In in Hx, Hy.
        destruct Hx as [_ Hx], Hy as [_ Hy]. apply Z.eqb_eq in Hx, Hy.
        right. split; [lia|auto].
    + apply IH.
    + intros x y Hx Hy. apply filter_In in Hx. destruct Hx as [_ Hx].
      apply Z.eqb_eq in Hx. apply in_bucket in Hy. destruct Hy as [_ Hy].
      apply in_zrange in Hy. left. lia.
Qed.

Lemma bucket_shift f g d l : forall n lo,
  (forall x b, In x l -> lo <= b < lo + Z.of_nat n -> (g x =? b) = (f x =? b + d)) ->
  bucket g (zrange lo n) l = bucket f (zrange (lo + d) n) l.
Proof.
  induction n as [|n IH]; intros lo H; [reflexivity|].
  change (zrange lo (S n)) with (lo :: zrange (lo + 1) n).
  change (zrange (lo + d) (S n)) with ((lo + d) :: zrange (lo + d + 1) n).
  rewrite !bucket_cons. rewrite Nat2Z.inj_succ in H. f_equal.
  - apply filter_ext_in. intros x Hx. apply H; auto. lia.
  - replace (lo + d + 1) with (lo + 1 + d) by lia. apply IH.
    intros; apply H; auto; lia.
Qed.

(* the signed most-significant-byte order is the plain order on the key
   (b + 128) mod 256 *)
Definition sgkey (f : Z -> Z) (x : Z) : Z := (f x + 128) mod 256.

Lemma zrange_256_split : zrange 0 256 = zrange 0 128 ++ zrange 128 128.
Proof. reflexivity. Qed.

Lemma bucket_signed f l :
  (forall x, In x l -> 0 <= f x < 256) ->
  bucket f order_signed_msb l = bucket (sgkey f) (zrange 0 256) l.
Proof.
  intros Hf. unfold order_signed_msb. rewrite zrange_256_split, !bucket_app.
  f_equal; symmetry.
  - apply (bucket_shift f (sgkey f) 128 l 128 0).
    intros x b Hx Hb. unfold sgkey. specialize (Hf x Hx).
    change (Z.of_nat 128) with 128 in Hb.
    destruct (Z.eqb_spec ((f x + 128) mod 256) b), (Z.eqb_spec (f x) (b + 128));
      auto; exfalso; Z.div_mod_to_equations; lia.
  - apply (bucket_shift f (sgkey f) (-128) l 128 128).
    intros x b Hx Hb. unfold sgkey. specialize (Hf x Hx).
    change (Z.of_nat 128) with 128 in Hb.
    destruct (Z.eqb_spec ((f x + 128) mod 256) b), (Z.eqb_spec (f x) (b + -128));
      auto; exfalso; Z.div_mod_to_equations; lia.
Qed.

(* ================================================================== *)
(* Bytes and low parts                                                 *)
(* ================================================================== *)
Local Notation P i := (2 ^ (8 * Z.of_nat i)).

Lemma P_pos i : 0 < P i.
Proof. apply Z.pow_pos_nonneg; lia. Qed.

Lemma P_succ i : P (S i) = P i * 256.
Proof.
  rewrite Nat2Z.inj_succ.
  replace (8 * Z.succ (Z.of_nat i)) with (8 * Z.of_nat i + 8) by lia.
  rewrite Z.pow_add_r by lia. f_equal.
Qed.

Lemma P_half i : 2 ^ (8 * Z.of_nat (S i) - 1) = 128 * P i.
Proof.
  rewrite Nat2Z.inj_succ.
  replace (8 * Z.succ (Z.of_nat i) - 1) with (8 * Z.of_nat i + 7) by lia.
  rewrite Z.pow_add_r by lia. rewrite Z.mul_comm. f_equal.
Qed.

Lemma byte_range N i x : 0 <= byte N i x < 256.
Proof. unfold byte. apply Z.mod_pos_bound. lia. Qed.

Definition low (N i : nat) (x : Z) : Z := urepr N x mod P i.

Lemma low_range N i x : 0 <= low N i x < P i.
Proof. unfold low. apply Z.mod_pos_bound. apply P_pos. Qed.

Lemma low_succ N i x : low N (S i) x = byte N i x * P i + low N i x.
Proof.
  unfold low, byte. rewrite P_succ.
  pose proof (P_pos i).
  rewrite Z.rem_mul_r by lia. ring.
Qed.

Lemma low_0 N x : low N 0 x = 0.
Proof. unfold low. change (P 0) with 1. apply Z.mod_1_r. Qed.

Lemma low_full N x : low N N x = urepr N x.
Proof.
  unfold low, urepr. pose proof (P_pos N). apply Z.mod_mod. lia.
Qed.

Lemma lex_to_le (a b c d p : Z) :
  0 <= c < p -> 0 <= d < p -> (a < b \/ (a = b /\ c <= d)) -> a * p + c <= b * p + d.
Proof. intros Hc Hd [H|[-> H]]; nia. Qed.

Lemma signed_key p x : 0 < p -> - (128 * p) <= x < 128 * p ->
  x + 128 * p =
  ((((x mod (p * 256)) / p) mod 256 + 128) mod 256) * p + (x mod (p * 256)) mod p.
Proof.
  intros Hp Hx.
  rewrite Z.rem_mul_r by lia.
  pose proof (Z.div_mod x p ltac:(lia)) as Hdm.
  pose proof (Z.mod_pos_bound x p Hp) as Hr.
  set (q := x / p) in *. set (r := x mod p) in *.
  assert (Hq1 : -128 <= q) by nia.
  assert (Hq2 : q < 128) by nia.
  replace ((r + p * (q mod 256)) / p) with (q mod 256).
  2:{ rewrite (Z.mul_comm p), Z.div_add by lia. rewrite Z.div_small by lia. lia. }
  replace ((r + p * (q mod 256)) mod p) with r.
  2:{ rewrite (Z.mul_comm p), Z.mod_add by lia. rewrite Z.mod_small by lia. lia. }
  rewrite Z.mod_mod by lia. rewrite Zplus_mod_idemp_l.
  rewrite (Z.mod_small (q + 128)) by lia. nia.
Qed.

(* ================================================================== *)
(* One pass                                                            *)
(* ================================================================== *)
Lemma all_same_tag_spec f l :
  all_same_tag (map (fun x => (f x, x)) l) = true ->
  forall x y, In x l -> In y l -> f x = f y.
Proof.
  destruct l as [|a r]; simpl; [intros _ x y []|].
  intros H.
  assert (Ha : forall z, a = z \/ In z r -> f z = f a).
  { intros z [<-|Hz]; auto. rewrite forallb_forall in H.
    specialize (H (f z, z)). simpl in H. apply Z.eqb_eq, H.
    apply in_map_iff. exists z; auto. }
  intros x y Hx Hy. rewrite (Ha x Hx), (Ha y Hy). reflexivity.
Qed.

Lemma pass_sorted order N i l g old :
  (forall x y, In x l -> In y l -> byte N i x = byte N i y -> g x = g y) ->
  bucket (byte N i) order l = bucket g (zrange 0 256) l ->
  StronglySorted (le_on old) l ->
  StronglySorted (lex g old) (pass order N i l).
Proof.
  intros Hg Hb Hs. unfold pass, tag; cbv zeta.
  destruct (all_same_tag _) eqn:E.
  - apply SSorted_impl_in with (R := le_on old); auto.
    intros x y Hx Hy Hxy. right. split; auto. apply Hg; auto.
    apply (all_same_tag_spec (byte N i) l E); auto.
  - rewrite (distribute_tag (byte N i)), Hb. apply bucket_sorted; auto.
Qed.

Lemma pass_perm_plain N i l : Permutation l (pass order_plain N i l).
Proof.
  unfold pass, tag; cbv zeta. destruct (all_same_tag _); [reflexivity|].
  rewrite (distribute_tag (byte N i)). unfold order_plain.
  apply bucket_perm. intros x _. change (Z.of_nat 256) with 256.
  pose proof (byte_range N i x). lia.
Qed.

Lemma pass_perm_signed N i l : Permutation l (pass order_signed_msb N i l).
Proof.
  unfold pass, tag; cbv zeta. destruct (all_same_tag _); [reflexivity|].
  rewrite (distribute_tag (byte N i)).
  rewrite bucket_signed by (intros; apply byte_range).
  apply bucket_perm. intros x _. change (Z.of_nat 256) with 256.
  unfold sgkey. pose proof (Z.mod_pos_bound (byte N i x + 128) 256). lia.
Qed.

Lemma pass_plain_sorted N i l :
  StronglySorted (le_on (low N i)) l ->
  StronglySorted (le_on (low N (S i))) (pass order_plain N i l).
Proof.
  intros Hs.
  apply SSorted_impl_in with (R := lex (byte N i) (low N i)).
  - apply pass_sorted; auto.
  - intros x y _ _ H. unfold le_on. rewrite !low_succ.
    apply lex_to_le; auto using low_range.
Qed.

Lemma low_passes_sorted N : forall n i l,
  StronglySorted (le_on (low N i)) l ->
  StronglySorted (le_on (low N (i + n))) (low_passes N i n l).
Proof.
  induction n as [|n IH]; intros i l H.
  - rewrite Nat.add_0_r. exact H.
  - change (low_passes N i (S n) l)
      with (low_passes N (S i) n (pass order_plain N i l)).
    replace (i + S n)%nat with (S i + n)%nat by lia.
    apply IH. apply pass_plain_sorted; auto.
Qed.

Lemma low_passes_perm N : forall n i l, Permutation l (low_passes N i n l).
Proof.
  induction n as [|n IH]; intros i l; [reflexivity|].
  change (low_passes N i (S n) l)
    with (low_passes N (S i) n (pass order_plain N i l)).
  eapply Permutation_trans; [apply pass_perm_plain|apply IH].
Qed.

(* ================================================================== *)
(* 1. radix sort                                                       *)
(* ================================================================== *)
Theorem radixsort_correct : forall (signed : bool) (nbytes : nat) (l : list Z),
  (1 <= nbytes)%nat ->
  Forall (in_range signed nbytes) l ->
  ascending (radixsort signed nbytes l) /\ Permutation l (radixsort signed nbytes l).
Proof.
  intros signed N l HN Hr. destruct N as [|m]; [lia|].
  unfold radixsort. replace (S m - 1)%nat with m by lia. cbv zeta.
  set (l' := low_passes (S m) 0 m l).
  assert (Hp' : Permutation l l') by apply low_passes_perm.
  assert (Hs' : StronglySorted (le_on (low (S m) m)) l').
  { apply (low_passes_sorted (S m) m 0%nat l).
    apply SSorted_total. intros x y. unfold le_on. rewrite !low_0. lia. }
  assert (Hperm : Permutation l
            (pass (if signed then order_signed_msb else order_plain) (S m) m l')).
  { eapply Permutation_trans; [exact Hp'|].
    destruct signed; [apply pass_perm_signed|apply pass_perm_plain]. }
  split; auto.
  assert (Hr' : forall x,
            In x (pass (if signed then order_signed_msb else order_plain) (S m) m l') ->
            in_range signed (S m) x).
  { intros x Hx. rewrite Forall_forall in Hr. apply Hr.
    eapply Permutation_in; [symmetry; exact Hperm|exact Hx]. }
  apply StronglySorted_Sorted.
  destruct signed.
  - apply SSorted_impl_in with (R := lex (sgkey (byte (S m) m)) (low (S m) m)).
    + apply pass_sorted; auto.
      * intros x y _ _ H. unfold sgkey. congruence.
      * apply bucket_signed. intros; apply byte_range.
    + intros x y Hx Hy Hxy. apply Hr' in Hx, Hy. unfold in_range in Hx, Hy.
      rewrite P_half in Hx, Hy.
      pose proof (P_pos m) as HP.
      pose proof (signed_key (P m) x HP Hx) as Kx.
      pose proof (signed_key (P m) y HP Hy) as Ky.
      assert (Ex : x + 128 * P m =
                   sgkey (byte (S m) m) x * P m + low (S m) m x).
      { unfold sgkey, byte, low, urepr. rewrite P_succ. exact Kx. }
      assert (Ey : y + 128 * P m =
                   sgkey (byte (S m) m) y * P m + low (S m) m y).
      { unfold sgkey, byte, low, urepr. rewrite P_succ. exact Ky. }
      pose proof (lex_to_le _ _ _ _ (P m) (low_range (S m) m x)
                    (low_range (S m) m y) Hxy) as Hle.
      lia.
  - apply SSorted_impl_in with (R := le_on (low (S m) (S m))).
    + apply pass_plain_sorted; auto.
    + intros x y Hx Hy Hxy. apply Hr' in Hx, Hy. unfold in_range in Hx, Hy.
      unfold le_on in Hxy. rewrite !low_full in Hxy. unfold urepr in Hxy.
      rewrite !Z.mod_small in Hxy by lia. exact Hxy.
Qed.

(* ================================================================== *)
(* 2. uniq                                                             *)
(* ================================================================== *)
Lemma uniq_cons2 x y r :
  uniq (x :: y :: r) = if x =? y then uniq (y :: r) else x :: uniq (y :: r).
Proof. reflexivity. Qed.

Lemma uniq_In : forall l k, In k (uniq l) <-> In k l.
Proof.
  induction l as [|x r IH]; intros k; [simpl; tauto|].
  destruct r as [|y r']; [simpl; tauto|].
  rewrite uniq_cons2. destruct (Z.eqb_spec x y) as [->|Hne].
  - rewrite IH. simpl; tauto.
  - change (In k (x :: uniq (y :: r'))) with (x = k \/ In k (uniq (y :: r'))).
    rewrite IH. simpl; tauto.
Qed.

Lemma uniq_sorted : forall l, StronglySorted Z.le l -> StronglySorted Z.lt (uniq l).
Proof.
  induction l as [|x r IH]; intros H; [constructor|].
  destruct r as [|y r']; [simpl; constructor; constructor|].
  inversion H as [|? ? Hr Hall]; subst.
  rewrite uniq_cons2. destruct (Z.eqb_spec x y) as [->|Hne]; [auto|].
  constructor; auto.
  apply Forall_forall. intros k Hk. rewrite uniq_In in Hk.
  inversion Hall as [|? ? Hxy Hall']; subst.
  inversion Hr as [|? ? _ Hy]; subst.
  simpl in Hk. destruct Hk as [<-|Hk]; [lia|].
  rewrite Forall_forall in Hy. specialize (Hy k Hk). lia.
Qed.

Theorem uniq_correct : forall l : list Z, ascending l ->
  strictly_ascending (uniq l) /\ forall k, In k (uniq l) <-> In k l.
Proof.
  intros l H. split; [|apply uniq_In].
  apply uniq_sorted. apply Sorted_StronglySorted; auto.
  intros a b c; apply Z.le_trans.
Qed.

(* ================================================================== *)
(* 3. multiunion, Python                                               *)
(* ================================================================== *)
Lemma set_insert_In x : forall l k, In k (set_insert x l) <-> k = x \/ In k l.
Proof.
  induction l as [|y r IH]; intros k; simpl.
  - intuition congruence.
  - destruct (Z.compare_spec x y); simpl.
    + subst. intuition congruence.
    + intuition congruence.
    + rewrite IH. intuition congruence.
Qed.

Lemma set_insert_sorted x : forall l,
  StronglySorted Z.lt l -> StronglySorted Z.lt (set_insert x l).
Proof.
  induction l as [|y r IH]; intros H; simpl.
  - repeat constructor.
  - inversion H as [|? ? Hr Hall]; subst. destruct (Z.compare_spec x y).
    + auto.
    + constructor; auto. constructor; auto.
      eapply Forall_impl; [|exact Hall]. intros; lia.
    + constructor; auto. apply Forall_forall. intros k Hk.
      rewrite set_insert_In in Hk. destruct Hk as [->|Hk]; [lia|].
      rewrite Forall_forall in Hall; auto.
Qed.

Lemma fold_insert : forall l acc, StronglySorted Z.lt acc ->
  StronglySorted Z.lt (fold_left (fun acc x => set_insert x acc) l acc) /\
  forall k, In k (fold_left (fun acc x => set_insert x acc) l acc) <-> In k acc \/ In k l.
Proof.
  induction l as [|x l IH]; intros acc H; simpl.
  - split; auto. intuition.
  - destruct (IH (set_insert x acc) (set_insert_sorted x acc H)) as [H1 H2].
    split; auto. intros k. rewrite H2, set_insert_In. intuition congruence.
Qed.

Theorem multiunion_py_correct : forall operands : list (list Z),
  sorted_union operands (multiunion_py operands).
Proof.
  intros operands. unfold sorted_union, multiunion_py, strictly_ascending.
  destruct (fold_insert (concat operands) [] (SSorted_nil _)) as [H1 H2].
  split; auto. intros k. rewrite H2. simpl. tauto.
Qed.

(* ================================================================== *)
(* 4. multiunion, C                                                    *)
(* ================================================================== *)
Section WithQuicksort.
Hypothesis quicksort_ok :
  forall l : list Z, ascending (quicksort l) /\ Permutation l (quicksort l).

Lemma sort_nodups_correct signed N l :
  (1 <= N)%nat -> Forall (in_range signed N) l ->
  strictly_ascending (sort_nodups signed N l) /\
  forall k, In k (sort_nodups signed N l) <-> In k l.
Proof.
  intros HN Hr. unfold sort_nodups. destruct (QUICKSORT_BEATS_RADIXSORT <? length l)%nat.
  - destruct (radixsort_correct signed N l HN Hr) as [Ha Hp].
    destruct (uniq_correct _ Ha) as [Hs Hi]. split; auto.
    intros k. rewrite Hi. split; apply Permutation_in; [symmetry|]; auto.
  - destruct (quicksort_ok l) as [Ha Hp].
    destruct (uniq_correct _ Ha) as [Hs Hi]. split; auto.
    intros k. rewrite Hi. split; apply Permutation_in; [symmetry|]; auto.
Qed.

Lemma multiunion_c_correct_sec :
  forall (signed : bool) (nbytes : nat) (operands : list (list Z)),
  (1 <= nbytes)%nat ->
  Forall (in_range signed nbytes) (concat operands) ->
  sorted_union operands (multiunion_c signed nbytes operands).
Proof.
  intros signed N operands HN Hr. unfold sorted_union, multiunion_c.
  revert Hr. destruct (concat operands) as [|z l0] eqn:E; intros Hr.
  - split; [constructor|tauto].
  - apply sort_nodups_correct; auto.
Qed.

End WithQuicksort.

Theorem multiunion_c_correct :
  (forall l : list Z, ascending (quicksort l) /\ Permutation l (quicksort l)) ->
  forall (signed : bool) (nbytes : nat) (operands : list (list Z)),
  (1 <= nbytes)%nat ->
  Forall (in_range signed nbytes) (concat operands) ->
  sorted_union operands (multiunion_c signed nbytes operands).
Proof. exact multiunion_c_correct_sec. Qed.

(* ================================================================== *)
(* 5. both implementations agree                                       *)
(* ================================================================== *)
Lemma strict_sorted_ext : forall l1 l2 : list Z,
  StronglySorted Z.lt l1 -> StronglySorted Z.lt l2 ->
  (forall k, In k l1 <-> In k l2) -> l1 = l2.
Proof.
  induction l1 as [|x l1 IH]; intros l2 H1 H2 Hi.
  - destruct l2 as [|y l2]; auto. exfalso. apply (Hi y). simpl; auto.
  - destruct l2 as [|y l2]; [exfalso; apply (Hi x); simpl; auto|].
    inversion H1 as [|? ? S1 A1]; subst. inversion H2 as [|? ? S2 A2]; subst.
    rewrite Forall_forall in A1, A2.
    assert (x = y).
    { destruct (proj1 (Hi x) (or_introl eq_refl)) as [->|Hx]; auto.
      destruct (proj2 (Hi y) (or_introl eq_refl)) as [->|Hy]; auto.
      specialize (A1 y Hy). specialize (A2 x Hx). lia. }
    subst y. f_equal. apply IH; auto.
    intros k. split; intros Hk.
    + destruct (proj1 (Hi k) (or_intror Hk)) as [<-|]; auto.
      specialize (A1 x Hk). lia.
    + destruct (proj2 (Hi k) (or_intror Hk)) as [<-|]; auto.
      specialize (A2 x Hk). lia.
Qed.

Theorem multiunion_same :
  (forall l : list Z, ascending (quicksort l) /\ Permutation l (quicksort l)) ->
  forall (signed : bool) (nbytes : nat) (operands : list (list Z)),
  (1 <= nbytes)%nat ->
  Forall (in_range signed nbytes) (concat operands) ->
  multiunion_c signed nbytes operands = multiunion_py operands.
Proof.
  intros Hq signed N operands HN Hr.
  destruct (multiunion_c_correct Hq signed N operands HN Hr) as [S1 I1].
  destruct (multiunion_py_correct operands) as [S2 I2].
  apply strict_sorted_ext; auto.
  intros k. rewrite I1, I2. tauto.
Qed.
