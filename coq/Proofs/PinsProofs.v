(* The pin discipline of Model/Pins.v: for every path, every discipline and
   every position of a raising comparison
     - every PER_UNUSE releases a node that is pinned, and the call leaves the
       pin counts exactly as it found them (nothing stays pinned, nothing is
       released twice);
     - at every comparison the node whose key is compared is pinned;
     - insert / delete keep every node of the path above pinned, a range-end
       search keeps the root pinned;
     - the comparisons of a trace are the ones of Search.cmp_trace (C14), and
       a raising comparison cuts them short, nothing else. *)
From Coq Require Import ZArith List Bool Arith Lia.
From BT Require Import Model.RTree Model.Search Model.Pins Proofs.TreeBase.
Import ListNotations.
Open Scope Z_scope.

Definition ptr (x : list pev * option nat * bool) : list pev := fst (fst x).
Definition pfailed (x : list pev * option nat * bool) : bool := snd x.
Definition pleft (x : list pev * option nat * bool) : option nat := snd (fst x).

Definition onode (o : Z * nat * list nat) : nat := snd (fst o).
Definition opins (o : Z * nat * list nat) : list nat := snd o.
Definition okey (o : Z * nat * list nat) : Z := fst (fst o).

(* what holds of a piece of trace that starts with the pins [P0] and is meant to end with [P1];
   [F] = nodes that must be pinned at every comparison inside *)
Definition piece (tr : list pev) (P0 P1 F : list nat) : Prop :=
  pins_after tr P0 = P1 /\ unuse_ok tr P0 = true /\
  Forall (fun o => In (onode o) (opins o) /\ incl F (opins o)) (observe tr P0).

Lemma pins_after_app a b P : pins_after (a ++ b) P = pins_after b (pins_after a P).
Proof. unfold pins_after. apply fold_left_app. Qed.

Lemma observe_app a : forall b P, observe (a ++ b) P = observe a P ++ observe b (pins_after a P).
Proof.
  induction a as [|e a IH]; intros b P; [reflexivity|].
  destruct e as [i|i|i x]; cbn [app observe]; rewrite IH; reflexivity.
Qed.

Lemma unuse_ok_app a : forall b P, unuse_ok (a ++ b) P = unuse_ok a P && unuse_ok b (pins_after a P).
Proof.
  induction a as [|e a IH]; intros b P; [reflexivity|].
  destruct e as [i|i|i x]; cbn [app unuse_ok]; rewrite IH; cbn [pins_after fold_left pstep];
    try reflexivity.
  rewrite andb_assoc. reflexivity.
Qed.

Lemma piece_app a b P0 P1 P2 F :
  piece a P0 P1 F -> piece b P1 P2 F -> piece (a ++ b) P0 P2 F.
Proof.
  intros (Ha1 & Ha2 & Ha3) (Hb1 & Hb2 & Hb3). unfold piece.
  rewrite pins_after_app, unuse_ok_app, observe_app, Ha1, Ha2, Hb1, Hb2.
  repeat split; try reflexivity. apply Forall_app; split; assumption.
Qed.

Lemma piece_nil P F : piece [] P P F.
Proof. repeat split; constructor. Qed.

Lemma piece_use i P F : piece [PUse i] P (i :: P) F.
Proof. repeat split; constructor. Qed.

Lemma remove1_head i P : remove1 i (i :: P) = P.
Proof. cbn [remove1]. rewrite Nat.eqb_refl. reflexivity. Qed.

Lemma piece_unuse i P F : piece [PUnuse i] (i :: P) P F.
Proof.
  unfold piece. cbn [pins_after fold_left pstep unuse_ok observe existsb].
  rewrite remove1_head, Nat.eqb_refl. repeat split; constructor.
Qed.

Lemma piece_weaken tr P0 P1 F F' : incl F' F -> piece tr P0 P1 F -> piece tr P0 P1 F'.
Proof.
  intros Hi (H1 & H2 & H3). repeat split; try assumption.
  eapply Forall_impl; [|exact H3]. intros o [Ho1 Ho2]. split; [assumption|].
  intros x Hx. apply Ho2, Hi, Hx.
Qed.

(* the comparisons of one search leave the pins alone; the node must be pinned *)
Lemma cmps_piece id ps : forall c P F, In id P -> incl F P -> piece (ptr (cmps id ps c)) P P F.
Proof.
  induction ps as [|x r IH]; intros c P F Hin HF; [apply piece_nil|].
  assert (Hone : piece [PCmp id x] P P F).
  { repeat split. constructor; [split; assumption | constructor]. }
  cbn [cmps]. destruct c as [[|n]|].
  - exact Hone.
  - specialize (IH (Some n) P F Hin HF). destruct (cmps id r (Some n)) as [[e c'] f].
    change (piece ([PCmp id x] ++ e) P P F). eapply piece_app; [exact Hone | exact IH].
  - specialize (IH None P F Hin HF). destruct (cmps id r None) as [[e c'] f].
    change (piece ([PCmp id x] ++ e) P P F). eapply piece_app; [exact Hone | exact IH].
Qed.

(* ---------- insert / delete ---------- *)
Lemma set_piece p : forall c P, piece (ptr (set_tr p c)) P P P.
Proof.
  induction p as [|[id ps] rest IH]; intros c P; [apply piece_nil|].
  cbn [set_tr].
  pose proof (cmps_piece id ps c (id :: P) (id :: P) (or_introl eq_refl) (incl_refl _)) as H1.
  destruct (cmps id ps c) as [[e1 c1] f1]. cbn [ptr fst] in H1.
  assert (Hw : incl P (id :: P)) by (intros x Hx; right; exact Hx).
  destruct f1.
  - cbn [ptr fst]. change (piece ([PUse id] ++ e1 ++ [PUnuse id]) P P P).
    eapply piece_app; [apply piece_use|].
    eapply piece_app; [eapply piece_weaken; [exact Hw | exact H1] | apply piece_unuse].
  - specialize (IH c1 (id :: P)). destruct (set_tr rest c1) as [[e2 c2] f2]. cbn [ptr fst] in *.
    change (piece ([PUse id] ++ e1 ++ e2 ++ [PUnuse id]) P P P).
    eapply piece_app; [apply piece_use|].
    eapply piece_app; [eapply piece_weaken; [exact Hw | exact H1]|].
    eapply piece_app; [eapply piece_weaken; [exact Hw | exact IH] | apply piece_unuse].
Qed.

(* every node stays pinned at every comparison made below it *)
Lemma set_head_pinned id ps rest c P :
  Forall (fun o => In id (opins o)) (observe (ptr (set_tr ((id, ps) :: rest) c)) P).
Proof.
  cbn [set_tr].
  pose proof (cmps_piece id ps c (id :: P) (id :: P) (or_introl eq_refl) (incl_refl _)) as H1.
  destruct (cmps id ps c) as [[e1 c1] f1]. cbn [ptr fst] in H1.
  destruct H1 as (H1a & _ & H1c).
  assert (Hin : forall l, Forall (fun o => In (onode o) (opins o) /\ incl (id :: P) (opins o)) l ->
                          Forall (fun o : Z * nat * list nat => In id (opins o)) l).
  { intros l Hl. eapply Forall_impl; [|exact Hl]. intros o [_ Ho]. apply Ho. left. reflexivity. }
  destruct f1.
  - cbn [ptr fst]. cbn [observe pstep]. rewrite observe_app. apply Forall_app. split; [apply Hin, H1c|].
    cbn [observe]. constructor.
  - pose proof (set_piece rest c1 (id :: P)) as H2.
    destruct (set_tr rest c1) as [[e2 c2] f2]. cbn [ptr fst] in *. destruct H2 as (H2a & _ & H2c).
    cbn [observe pstep]. rewrite !observe_app. apply Forall_app. split; [apply Hin, H1c|].
    rewrite H1a. apply Forall_app. split; [apply Hin, H2c|]. cbn [observe]. constructor.
Qed.

(* ---------- lookup ---------- *)
Lemma get_loop_piece rest : forall id ps c P, piece (ptr (get_loop id ps rest c)) (id :: P) P P.
Proof.
  induction rest as [|[id2 ps2] rest2 IH]; intros id ps c P.
  - cbn [get_loop].
    pose proof (cmps_piece id ps c (id :: P) P (or_introl eq_refl) (fun x Hx => or_intror Hx)) as H1.
    destruct (cmps id ps c) as [[e1 c1] f1]. cbn [ptr fst] in H1.
    destruct f1; cbn [ptr fst]; (eapply piece_app; [exact H1 | apply piece_unuse]).
  - pose proof (cmps_piece id ps c (id :: P) P (or_introl eq_refl) (fun x Hx => or_intror Hx)) as H1.
    destruct rest2 as [|y rest3].
    + cbn [get_loop]. destruct (cmps id ps c) as [[e1 c1] f1]. cbn [ptr fst] in H1.
      destruct f1; cbn [ptr fst]; [eapply piece_app; [exact H1 | apply piece_unuse]|].
      pose proof (cmps_piece id2 ps2 c1 (id2 :: id :: P) P (or_introl eq_refl)
                             (fun x Hx => or_intror (or_intror Hx))) as H2.
      destruct (cmps id2 ps2 c1) as [[e2 c2] f2]. cbn [ptr fst] in *.
      eapply piece_app; [exact H1|].
      change (piece ([PUse id2] ++ e2 ++ [PUnuse id2] ++ [PUnuse id]) (id :: P) P P).
      eapply piece_app; [apply piece_use|]. eapply piece_app; [exact H2|].
      eapply piece_app; apply piece_unuse.
    + specialize (IH id2 ps2). cbn [get_loop] in *.
      destruct (cmps id ps c) as [[e1 c1] f1]. cbn [ptr fst] in H1.
      destruct f1; cbn [ptr fst]; [eapply piece_app; [exact H1 | apply piece_unuse]|].
      specialize (IH c1 P).
      destruct y as [id3 ps3].
      match type of IH with piece (ptr ?X) _ _ _ => destruct X as [[e2 c2] f2] end.
      cbn [ptr fst] in *.
      eapply piece_app; [exact H1|].
      change (piece ([PUnuse id] ++ [PUse id2] ++ e2) (id :: P) P P).
      eapply piece_app; [apply piece_unuse|]. eapply piece_app; [apply piece_use | exact IH].
Qed.

Lemma get_piece p c P : piece (ptr (get_tr p c)) P P P.
Proof.
  destruct p as [|[id ps] rest]; [apply piece_nil|].
  destruct rest as [|y rest].
  - cbn [get_tr].
    pose proof (cmps_piece id ps c (id :: P) P (or_introl eq_refl) (fun x Hx => or_intror Hx)) as H1.
    destruct (cmps id ps c) as [[e c'] f]. cbn [ptr fst] in *.
    change (piece ([PUse id] ++ e ++ [PUnuse id]) P P P).
    eapply piece_app; [apply piece_use|]. eapply piece_app; [exact H1 | apply piece_unuse].
  - cbn [get_tr]. pose proof (get_loop_piece (y :: rest) id ps c P) as H.
    destruct (get_loop id ps (y :: rest) c) as [[e c'] f]. cbn [ptr fst] in *.
    change (piece ([PUse id] ++ e) P P P). eapply piece_app; [apply piece_use | exact H].
Qed.

(* ---------- range end ---------- *)
(* [R] = the pins the caller holds, the root among them *)
Lemma range_loop_piece rest : forall id reb ps c R,
  (reb = false -> In id R) ->
  piece (ptr (range_loop id reb ps rest c)) (if reb then id :: R else R) R R.
Proof.
  induction rest as [|[id2 ps2] rest2 IH]; intros id reb ps c R Hroot.
  - cbn [range_loop].
    assert (H1 : piece (ptr (cmps id ps c)) (if reb then id :: R else R) (if reb then id :: R else R) R).
    { destruct reb; apply cmps_piece; try (left; reflexivity); try (apply Hroot; reflexivity);
        try (apply incl_refl); intros x Hx; right; exact Hx. }
    destruct (cmps id ps c) as [[e1 c1] f1]. cbn [ptr fst] in H1.
    destruct f1; cbn [ptr fst]; (eapply piece_app; [exact H1|]); destruct reb;
      try apply piece_unuse; apply piece_nil.
  - assert (H1 : piece (ptr (cmps id ps c)) (if reb then id :: R else R) (if reb then id :: R else R) R).
    { destruct reb; apply cmps_piece; try (left; reflexivity); try (apply Hroot; reflexivity);
        try (apply incl_refl); intros x Hx; right; exact Hx. }
    assert (Hdone : piece (if reb then [PUnuse id] else []) (if reb then id :: R else R) R R).
    { destruct reb; [apply piece_unuse | apply piece_nil]. }
    destruct rest2 as [|y rest3].
    + cbn [range_loop]. destruct (cmps id ps c) as [[e1 c1] f1]. cbn [ptr fst] in H1.
      destruct f1; cbn [ptr fst]; [eapply piece_app; [exact H1 | exact Hdone]|].
      assert (H2 : piece (ptr (cmps id2 ps2 c1)) (id2 :: (if reb then id :: R else R))
                         (id2 :: (if reb then id :: R else R)) R).
      { apply cmps_piece; [left; reflexivity|]. destruct reb; intros x Hx; right; [right|]; exact Hx. }
      destruct (cmps id2 ps2 c1) as [[e2 c2] f2]. cbn [ptr fst] in *.
      eapply piece_app; [exact H1|].
      change (piece ([PUse id2] ++ e2 ++ [PUnuse id2] ++ (if reb then [PUnuse id] else []))
                    (if reb then id :: R else R) R R).
      eapply piece_app; [apply piece_use|]. eapply piece_app; [exact H2|].
      eapply piece_app; [apply piece_unuse | exact Hdone].
    + specialize (IH id2 true ps2). cbn [range_loop] in *.
      destruct (cmps id ps c) as [[e1 c1] f1]. cbn [ptr fst] in H1.
      destruct f1; cbn [ptr fst]; [eapply piece_app; [exact H1 | exact Hdone]|].
      specialize (IH c1 R (fun H => ltac:(discriminate H))).
      destruct y as [id3 ps3].
      match type of IH with piece (ptr ?X) _ _ _ => destruct X as [[e2 c2] f2] end.
      cbn [ptr fst] in *.
      eapply piece_app; [exact H1|].
      change (piece ((if reb then [PUnuse id] else []) ++ [PUse id2] ++ e2) (if reb then id :: R else R) R R).
      eapply piece_app; [exact Hdone|]. eapply piece_app; [apply piece_use | exact IH].
Qed.

(* the whole call: the root is pinned at every comparison, whatever else is *)
Lemma range_piece p c P :
  piece (ptr (range_tr p c)) P P (match p with (id, _) :: _ => id :: P | [] => P end).
Proof.
  destruct p as [|[id ps] rest]; [apply piece_nil|].
  destruct rest as [|y rest].
  - cbn [range_tr].
    pose proof (cmps_piece id ps c (id :: P) (id :: P) (or_introl eq_refl) (incl_refl _)) as H1.
    destruct (cmps id ps c) as [[e c'] f]. cbn [ptr fst] in *.
    change (piece ([PUse id] ++ e ++ [PUnuse id]) P P (id :: P)).
    destruct H1 as (H1a & H1b & H1c). unfold piece.
    rewrite !pins_after_app, !unuse_ok_app, !observe_app.
    cbn [pins_after fold_left pstep unuse_ok observe]. fold (pins_after e (id :: P)).
    rewrite H1a, H1b. cbn [existsb]. rewrite remove1_head, Nat.eqb_refl.
    repeat split; try reflexivity. rewrite app_nil_r. exact H1c.
  - cbn [range_tr].
    pose proof (range_loop_piece (y :: rest) id false ps c (id :: P) (fun _ => or_introl eq_refl)) as H.
    destruct (range_loop id false ps (y :: rest) c) as [[e c'] f]. cbn [ptr fst] in *.
    destruct H as (Ha & Hb & Hc). unfold piece.
    change (PUse id :: e ++ [PUnuse id]) with ([PUse id] ++ e ++ [PUnuse id]).
    rewrite !pins_after_app, !unuse_ok_app, !observe_app.
    cbn [pins_after fold_left pstep unuse_ok observe]. fold (pins_after e (id :: P)).
    rewrite Ha, Hb. cbn [existsb]. rewrite remove1_head, Nat.eqb_refl.
    repeat split; try reflexivity. rewrite app_nil_r. exact Hc.
Qed.

(* both ends of keys(min, max): the root is pinned at every comparison of both searches, and every exit
   (a raising comparison in either search, nothing found at the low end, the normal end) releases everything *)
Lemma range2_piece p1 p2 lf c P :
  piece (ptr (range2_tr p1 p2 lf c)) P P (match p1 with (id, _) :: _ => id :: P | [] => P end).
Proof.
  destruct p1 as [|[id ps] rest]; [apply piece_nil|].
  assert (Hwrap : forall e, piece e (id :: P) (id :: P) (id :: P) ->
                  piece (PUse id :: e ++ [PUnuse id]) P P (id :: P)).
  { intros e (Ha & Hb & Hc). unfold piece.
    change (PUse id :: e ++ [PUnuse id]) with ([PUse id] ++ e ++ [PUnuse id]).
    rewrite !pins_after_app, !unuse_ok_app, !observe_app.
    cbn [pins_after fold_left pstep unuse_ok observe]. fold (pins_after e (id :: P)).
    rewrite Ha, Hb. cbn [existsb]. rewrite remove1_head, Nat.eqb_refl.
    repeat split; try reflexivity. rewrite app_nil_r. exact Hc. }
  cbn [range2_tr].
  pose proof (range_loop_piece rest id false ps c (id :: P) (fun _ => or_introl eq_refl)) as H1.
  destruct (range_loop id false ps rest c) as [[e1 c1] f1]. cbn [ptr fst] in H1.
  destruct f1; [cbn [ptr fst]; apply Hwrap, H1|].
  destruct lf; [|cbn [ptr fst]; apply Hwrap, H1].
  destruct p2 as [|[id' ps2] rest2]; [cbn [ptr fst]; apply Hwrap, H1|].
  pose proof (range_loop_piece rest2 id false ps2 c1 (id :: P) (fun _ => or_introl eq_refl)) as H2.
  destruct (range_loop id false ps2 rest2 c1) as [[e2 c2] f2]. cbn [ptr fst] in *.
  replace (e1 ++ e2 ++ [PUnuse id]) with ((e1 ++ e2) ++ [PUnuse id]) by (rewrite app_assoc; reflexivity).
  apply Hwrap. eapply piece_app; [exact H1 | exact H2].
Qed.

Theorem range2_balanced p1 p2 lf c P :
  pins_after (ptr (range2_tr p1 p2 lf c)) P = P /\ unuse_ok (ptr (range2_tr p1 p2 lf c)) P = true.
Proof. destruct (range2_piece p1 p2 lf c P) as (H1 & H2 & _). split; assumption. Qed.

Theorem range2_protect id ps rest p2 lf c P :
  Forall (fun o => In (onode o) (opins o) /\ In id (opins o))
         (observe (ptr (range2_tr ((id, ps) :: rest) p2 lf c)) P).
Proof.
  destruct (range2_piece ((id, ps) :: rest) p2 lf c P) as (_ & _ & H). eapply Forall_impl; [|exact H].
  intros o [H1 H2]. split; [exact H1|]. apply H2. left. reflexivity.
Qed.

(* ---------- the statements ---------- *)
Theorem pins_balanced d p c P :
  pins_after (ptr (pin_trace d p c)) P = P /\ unuse_ok (ptr (pin_trace d p c)) P = true.
Proof.
  destruct d; cbn [pin_trace].
  - destruct (get_piece p c P) as (H1 & H2 & _). split; assumption.
  - destruct (set_piece p c P) as (H1 & H2 & _). split; assumption.
  - destruct (range_piece p c P) as (H1 & H2 & _). split; assumption.
Qed.

Theorem pins_protect d p c P :
  Forall (fun o => In (onode o) (opins o) /\ incl P (opins o)) (observe (ptr (pin_trace d p c)) P).
Proof.
  destruct d; cbn [pin_trace].
  - destruct (get_piece p c P) as (_ & _ & H). exact H.
  - destruct (set_piece p c P) as (_ & _ & H). exact H.
  - destruct (range_piece p c P) as (_ & _ & H). eapply Forall_impl; [|exact H].
    intros o [H1 H2]. split; [exact H1|]. destruct p as [|[id ps] rest]; [exact H2|].
    intros x Hx. apply H2. right. exact Hx.
Qed.

Theorem range_root_pinned id ps rest c P :
  Forall (fun o => In id (opins o)) (observe (ptr (range_tr ((id, ps) :: rest) c)) P).
Proof.
  destruct (range_piece ((id, ps) :: rest) c P) as (_ & _ & H). eapply Forall_impl; [|exact H].
  intros o [_ Ho]. apply Ho. left. reflexivity.
Qed.

(* ---------- the comparisons are the ones of C14's model ---------- *)
Definition cmp_keys (tr : list pev) : list Z :=
  flat_map (fun e => match e with PCmp _ x => [x] | _ => [] end) tr.

Lemma cmp_keys_app a b : cmp_keys (a ++ b) = cmp_keys a ++ cmp_keys b.
Proof. unfold cmp_keys. apply flat_map_app. Qed.

Lemma cmps_none id ps : cmps id ps None = (map (PCmp id) ps, None, false).
Proof.
  induction ps as [|x r IH]; [reflexivity|]. cbn [cmps]. rewrite IH. reflexivity.
Qed.

Lemma cmp_keys_map id ps : cmp_keys (map (PCmp id) ps) = ps.
Proof. induction ps as [|x r IH]; [reflexivity|]. cbn. f_equal. exact IH. Qed.

Definition all_probes (p : list (nat * list Z)) : list Z := flat_map snd p.

Lemma set_keys p : cmp_keys (ptr (set_tr p None)) = all_probes p /\ pfailed (set_tr p None) = false
                   /\ pleft (set_tr p None) = None.
Proof.
  induction p as [|[id ps] rest IH]; [repeat split|].
  cbn [set_tr]. rewrite cmps_none. destruct (set_tr rest None) as [[e2 c2] f2].
  cbn [ptr pfailed pleft fst snd] in *. destruct IH as (IH1 & IH2 & IH3).
  change (PUse id :: map (PCmp id) ps ++ e2 ++ [PUnuse id])
    with ([PUse id] ++ map (PCmp id) ps ++ e2 ++ [PUnuse id]).
  rewrite !cmp_keys_app, cmp_keys_map, IH1. cbn [cmp_keys flat_map app all_probes snd].
  rewrite app_nil_r. repeat split; assumption.
Qed.

Lemma get_loop_step id ps id2 ps2 y rest3 c :
  get_loop id ps ((id2, ps2) :: y :: rest3) c =
  let '(e1, c1, f1) := cmps id ps c in
  if f1 then (e1 ++ [PUnuse id], c1, true)
  else let '(e2, c2, f2) := get_loop id2 ps2 (y :: rest3) c1 in (e1 ++ PUnuse id :: PUse id2 :: e2, c2, f2).
Proof. reflexivity. Qed.

Lemma range_loop_step id reb ps id2 ps2 y rest3 c :
  range_loop id reb ps ((id2, ps2) :: y :: rest3) c =
  let '(e1, c1, f1) := cmps id ps c in
  if f1 then (e1 ++ (if reb then [PUnuse id] else []), c1, true)
  else let '(e2, c2, f2) := range_loop id2 true ps2 (y :: rest3) c1 in
       (e1 ++ (if reb then [PUnuse id] else []) ++ PUse id2 :: e2, c2, f2).
Proof. reflexivity. Qed.

Lemma get_loop_keys rest : forall id ps,
  cmp_keys (ptr (get_loop id ps rest None)) = ps ++ all_probes rest.
Proof.
  induction rest as [|[id2 ps2] rest2 IH]; intros id ps.
  - cbn [get_loop]. rewrite cmps_none. cbn [ptr fst]. rewrite cmp_keys_app, cmp_keys_map. reflexivity.
  - destruct rest2 as [|y rest3].
    + cbn [get_loop]. rewrite !cmps_none. cbn [ptr fst].
      change (map (PCmp id) ps ++ PUse id2 :: map (PCmp id2) ps2 ++ [PUnuse id2; PUnuse id])
        with (map (PCmp id) ps ++ [PUse id2] ++ map (PCmp id2) ps2 ++ [PUnuse id2; PUnuse id]).
      rewrite !cmp_keys_app, !cmp_keys_map. cbn. rewrite !app_nil_r. reflexivity.
    + specialize (IH id2 ps2). rewrite get_loop_step, cmps_none.
      destruct (get_loop id2 ps2 (y :: rest3) None) as [[e2 c2] f2].
      cbn [ptr fst] in *.
      change (map (PCmp id) ps ++ PUnuse id :: PUse id2 :: e2)
        with (map (PCmp id) ps ++ [PUnuse id; PUse id2] ++ e2).
      rewrite !cmp_keys_app, cmp_keys_map, IH. reflexivity.
Qed.

Lemma range_loop_keys rest : forall id reb ps,
  cmp_keys (ptr (range_loop id reb ps rest None)) = ps ++ all_probes rest.
Proof.
  induction rest as [|[id2 ps2] rest2 IH]; intros id reb ps.
  - cbn [range_loop]. rewrite cmps_none. cbn [ptr fst]. rewrite cmp_keys_app, cmp_keys_map.
    destruct reb; reflexivity.
  - destruct rest2 as [|y rest3].
    + cbn [range_loop]. rewrite !cmps_none. cbn [ptr fst].
      change (map (PCmp id) ps ++ PUse id2 :: map (PCmp id2) ps2 ++ PUnuse id2 :: (if reb then [PUnuse id] else []))
        with (map (PCmp id) ps ++ [PUse id2] ++ map (PCmp id2) ps2 ++ [PUnuse id2] ++ (if reb then [PUnuse id] else [])).
      rewrite !cmp_keys_app, !cmp_keys_map. destruct reb; cbn; rewrite !app_nil_r; reflexivity.
    + specialize (IH id2 true ps2). rewrite range_loop_step, cmps_none.
      destruct (range_loop id2 true ps2 (y :: rest3) None) as [[e2 c2] f2].
      cbn [ptr fst] in *.
      change (map (PCmp id) ps ++ (if reb then [PUnuse id] else []) ++ PUse id2 :: e2)
        with (map (PCmp id) ps ++ (if reb then [PUnuse id] else []) ++ [PUse id2] ++ e2).
      rewrite !cmp_keys_app, cmp_keys_map, IH. destruct reb; reflexivity.
Qed.

Theorem trace_keys d p : cmp_keys (ptr (pin_trace d p None)) = all_probes p.
Proof.
  destruct d; cbn [pin_trace].
  - destruct p as [|[id ps] rest]; [reflexivity|]. destruct rest as [|y rest].
    + cbn [get_tr]. rewrite cmps_none. cbn [ptr fst].
      change (PUse id :: map (PCmp id) ps ++ [PUnuse id]) with ([PUse id] ++ map (PCmp id) ps ++ [PUnuse id]).
      rewrite !cmp_keys_app, cmp_keys_map. cbn. rewrite !app_nil_r. reflexivity.
    + cbn [get_tr]. pose proof (get_loop_keys (y :: rest) id ps) as H.
      destruct (get_loop id ps (y :: rest) None) as [[e c'] f]. cbn [ptr fst] in *.
      change (PUse id :: e) with ([PUse id] ++ e). rewrite cmp_keys_app, H. reflexivity.
  - apply set_keys.
  - destruct p as [|[id ps] rest]; [reflexivity|]. destruct rest as [|y rest].
    + cbn [range_tr]. rewrite cmps_none. cbn [ptr fst].
      change (PUse id :: map (PCmp id) ps ++ [PUnuse id]) with ([PUse id] ++ map (PCmp id) ps ++ [PUnuse id]).
      rewrite !cmp_keys_app, cmp_keys_map. cbn. rewrite !app_nil_r. reflexivity.
    + cbn [range_tr]. pose proof (range_loop_keys (y :: rest) id false ps) as H.
      destruct (range_loop id false ps (y :: rest) None) as [[e c'] f]. cbn [ptr fst] in *.
      change (PUse id :: e ++ [PUnuse id]) with ([PUse id] ++ e ++ [PUnuse id]).
      rewrite !cmp_keys_app, H. cbn. rewrite app_nil_r. reflexivity.
Qed.


(* ---------- a raising comparison cuts the comparisons short, nothing else ---------- *)
Lemma cmps_some id ps : forall n,
  cmps id ps (Some n) =
  if (n <? length ps)%nat then (map (PCmp id) (firstn (S n) ps), Some 0%nat, true)
  else (map (PCmp id) ps, Some (n - length ps)%nat, false).
Proof.
  induction ps as [|x r IH]; intro n; [cbn; rewrite Nat.sub_0_r; reflexivity|].
  destruct n as [|n]; [reflexivity|].
  cbn [cmps length]. rewrite IH. change (S n <? S (length r))%nat with (n <? length r)%nat.
  destruct (n <? length r)%nat; reflexivity.
Qed.

Lemma firstn_app_le {A} (a b : list A) n : (n <= length a)%nat -> firstn n (a ++ b) = firstn n a.
Proof.
  intro H. rewrite firstn_app. replace (n - length a)%nat with 0%nat by lia. cbn. apply app_nil_r.
Qed.

Lemma firstn_app_ge {A} (a b : list A) n : (length a <= n)%nat -> firstn n (a ++ b) = a ++ firstn (n - length a) b.
Proof. intro H. rewrite firstn_app. rewrite firstn_all2 by exact H. reflexivity. Qed.

Lemma set_cut p : forall n, cmp_keys (ptr (set_tr p (Some n))) = firstn (S n) (all_probes p) /\
  pfailed (set_tr p (Some n)) = (n <? length (all_probes p))%nat /\
  (pfailed (set_tr p (Some n)) = false -> pleft (set_tr p (Some n)) = Some (n - length (all_probes p))%nat).
Proof.
  induction p as [|[id ps] rest IH]; intro n.
  - cbn. rewrite Nat.sub_0_r. repeat split.
  - cbn [set_tr all_probes flat_map snd]. rewrite cmps_some. rewrite app_length.
    destruct (n <? length ps)%nat eqn:E.
    + apply Nat.ltb_lt in E. cbn [ptr pfailed pleft fst snd].
      change (PUse id :: map (PCmp id) (firstn (S n) ps) ++ [PUnuse id])
        with ([PUse id] ++ map (PCmp id) (firstn (S n) ps) ++ [PUnuse id]).
      rewrite !cmp_keys_app, cmp_keys_map. cbn [cmp_keys flat_map app]. rewrite app_nil_r.
      rewrite firstn_app_le by lia. split; [reflexivity|]. split; [|discriminate].
      symmetry. apply Nat.ltb_lt. lia.
    + apply Nat.ltb_ge in E. specialize (IH (n - length ps)%nat).
      destruct (set_tr rest (Some (n - length ps)%nat)) as [[e2 c2] f2].
      cbn [ptr pfailed pleft fst snd] in *. destruct IH as (IH1 & IH2 & IH3).
      change (PUse id :: map (PCmp id) ps ++ e2 ++ [PUnuse id])
        with ([PUse id] ++ map (PCmp id) ps ++ e2 ++ [PUnuse id]).
      rewrite !cmp_keys_app, cmp_keys_map, IH1. cbn [cmp_keys flat_map app]. rewrite app_nil_r.
      rewrite firstn_app_ge by lia. replace (S n - length ps)%nat with (S (n - length ps)) by lia.
      split; [reflexivity|]. split.
      * rewrite IH2. unfold all_probes.
        destruct (Nat.ltb_spec (n - length ps) (length (flat_map snd rest)));
          destruct (Nat.ltb_spec n (length ps + length (flat_map snd rest))); try reflexivity; lia.
      * intro Hf. rewrite (IH3 Hf). unfold all_probes. f_equal. lia.
Qed.

Theorem set_trace_cut p n : cmp_keys (ptr (set_tr p (Some n))) = firstn (S n) (all_probes p).
Proof. apply set_cut. Qed.

Lemma cmp_keys_use i l : cmp_keys (PUse i :: l) = cmp_keys l.  Proof. reflexivity. Qed.
Lemma cmp_keys_unuse i l : cmp_keys (PUnuse i :: l) = cmp_keys l.  Proof. reflexivity. Qed.
Lemma cmp_keys_nil : cmp_keys [] = [].  Proof. reflexivity. Qed.
Lemma cmp_keys_done (reb : bool) id : cmp_keys (if reb then [PUnuse id] else []) = [].
Proof. destruct reb; reflexivity. Qed.
Ltac ck := repeat (rewrite cmp_keys_app || rewrite cmp_keys_use || rewrite cmp_keys_unuse || rewrite cmp_keys_map
                   || rewrite cmp_keys_nil || rewrite cmp_keys_done); rewrite ?app_nil_r.

Lemma get_loop_cut rest : forall id ps n,
  cmp_keys (ptr (get_loop id ps rest (Some n))) = firstn (S n) (ps ++ all_probes rest).
Proof.
  induction rest as [|[id2 ps2] rest2 IH]; intros id ps n.
  - cbn [get_loop all_probes flat_map]. rewrite cmps_some, app_nil_r.
    destruct (n <? length ps)%nat eqn:E; cbn [ptr fst]; ck; [reflexivity|].
    apply Nat.ltb_ge in E. rewrite firstn_all2 by lia. reflexivity.
  - destruct rest2 as [|y rest3].
    + cbn [get_loop all_probes flat_map snd]. rewrite cmps_some, app_nil_r.
      destruct (n <? length ps)%nat eqn:E.
      * apply Nat.ltb_lt in E. cbn [ptr fst]. ck. rewrite firstn_app_le by lia. reflexivity.
      * apply Nat.ltb_ge in E. rewrite cmps_some.
        rewrite firstn_app_ge by lia. replace (S n - length ps)%nat with (S (n - length ps)) by lia.
        destruct (n - length ps <? length ps2)%nat eqn:E2; cbn [ptr fst]; ck; [reflexivity|].
        apply Nat.ltb_ge in E2. rewrite (firstn_all2 ps2) by lia. reflexivity.
    + specialize (IH id2 ps2). rewrite get_loop_step, cmps_some.
      destruct (n <? length ps)%nat eqn:E.
      * apply Nat.ltb_lt in E. cbn [ptr fst]. ck. rewrite firstn_app_le by lia. reflexivity.
      * apply Nat.ltb_ge in E. specialize (IH (n - length ps)%nat).
        destruct (get_loop id2 ps2 (y :: rest3) (Some (n - length ps)%nat)) as [[e2 c2] f2].
        cbn [ptr fst] in *. ck. rewrite IH.
        rewrite (firstn_app_ge ps) by lia. replace (S n - length ps)%nat with (S (n - length ps)) by lia.
        reflexivity.
Qed.

Lemma range_loop_cut rest : forall id reb ps n,
  cmp_keys (ptr (range_loop id reb ps rest (Some n))) = firstn (S n) (ps ++ all_probes rest).
Proof.
  induction rest as [|[id2 ps2] rest2 IH]; intros id reb ps n.
  - cbn [range_loop all_probes flat_map]. rewrite cmps_some, app_nil_r.
    destruct (n <? length ps)%nat eqn:E; cbn [ptr fst]; ck; [reflexivity|].
    apply Nat.ltb_ge in E. rewrite firstn_all2 by lia. reflexivity.
  - destruct rest2 as [|y rest3].
    + cbn [range_loop all_probes flat_map snd]. rewrite cmps_some, app_nil_r.
      destruct (n <? length ps)%nat eqn:E.
      * apply Nat.ltb_lt in E. cbn [ptr fst]. ck. rewrite firstn_app_le by lia. reflexivity.
      * apply Nat.ltb_ge in E. rewrite cmps_some.
        rewrite firstn_app_ge by lia. replace (S n - length ps)%nat with (S (n - length ps)) by lia.
        destruct (n - length ps <? length ps2)%nat eqn:E2; cbn [ptr fst]; ck; [reflexivity|].
        apply Nat.ltb_ge in E2. rewrite (firstn_all2 ps2) by lia. reflexivity.
    + specialize (IH id2 true ps2). rewrite range_loop_step, cmps_some.
      destruct (n <? length ps)%nat eqn:E.
      * apply Nat.ltb_lt in E. cbn [ptr fst]. ck. rewrite firstn_app_le by lia. reflexivity.
      * apply Nat.ltb_ge in E. specialize (IH (n - length ps)%nat).
        destruct (range_loop id2 true ps2 (y :: rest3) (Some (n - length ps)%nat)) as [[e2 c2] f2].
        cbn [ptr fst] in *. ck. rewrite IH.
        rewrite (firstn_app_ge ps) by lia. replace (S n - length ps)%nat with (S (n - length ps)) by lia.
        reflexivity.
Qed.

(* the comparisons of a call in which comparison number n (from 0) raises are the first n + 1
   comparisons of the complete call *)
Theorem trace_cut d p n : cmp_keys (ptr (pin_trace d p (Some n))) = firstn (S n) (all_probes p).
Proof.
  destruct d; cbn [pin_trace].
  - destruct p as [|[id ps] rest]; [reflexivity|]. destruct rest as [|y rest].
    + cbn [get_tr all_probes flat_map snd]. rewrite cmps_some, app_nil_r.
      destruct (n <? length ps)%nat eqn:E; cbn [ptr fst]; ck; [reflexivity|].
      apply Nat.ltb_ge in E. rewrite firstn_all2 by lia. reflexivity.
    + cbn [get_tr]. pose proof (get_loop_cut (y :: rest) id ps n) as H.
      destruct (get_loop id ps (y :: rest) (Some n)) as [[e c'] f]. cbn [ptr fst] in *.
      ck. rewrite H. reflexivity.
  - apply set_trace_cut.
  - destruct p as [|[id ps] rest]; [reflexivity|]. destruct rest as [|y rest].
    + cbn [range_tr all_probes flat_map snd]. rewrite cmps_some, app_nil_r.
      destruct (n <? length ps)%nat eqn:E; cbn [ptr fst]; ck; [reflexivity|].
      apply Nat.ltb_ge in E. rewrite firstn_all2 by lia. reflexivity.
    + cbn [range_tr]. pose proof (range_loop_cut (y :: rest) id false ps n) as H.
      destruct (range_loop id false ps (y :: rest) (Some n)) as [[e c'] f]. cbn [ptr fst] in *.
      ck. rewrite H. reflexivity.
Qed.

(* the probes along the path are Search.cmp_trace *)
Section PathTrace.
Variable V : Type.

Lemma path_probes_trace sc (t : tree V) k : all_probes (path_probes V sc t k) = cmp_trace V sc t k.
Proof.
  revert k. induction t as [id items | id kids IH] using (tree_ind' V); intro k.
  - cbn [path_probes cmp_trace all_probes flat_map snd]. apply app_nil_r.
  - destruct kids as [|kc kids']; [reflexivity|].
    cbn [path_probes cmp_trace].
    destruct (btree_search (map fst (kc :: kids')) k) as [i tr].
    cbn [all_probes flat_map snd]. rewrite <- app_assoc. f_equal. f_equal.
    set (l := kc :: kids') in *.
    assert (Hgo : forall (l' : list (Z * tree V)) j,
               Forall (fun sc' => forall k, all_probes (path_probes V sc (snd sc') k) = cmp_trace V sc (snd sc') k) l' ->
               flat_map snd ((fix go (l0 : list (Z * tree V)) (j0 : nat) : list (nat * list Z) :=
                  match l0 with
                  | [] => []
                  | (_, c') :: rest => if (j0 =? i)%nat then path_probes V sc c' k else go rest (S j0)
                  end) l' j) =
               (fix go (l0 : list (Z * tree V)) (j0 : nat) : list Z :=
                  match l0 with
                  | [] => []
                  | (_, c') :: rest => if (j0 =? i)%nat then cmp_trace V sc c' k else go rest (S j0)
                  end) l' j).
    { induction l' as [|[s c'] r IHr]; intros j HF; [reflexivity|].
      inversion HF as [|? ? Hh Ht]; subst. destruct (j =? i)%nat.
      - apply (Hh k).
      - apply IHr, Ht. }
    destruct (nth_error l i) as [[s c]|]; [|reflexivity].
    exact (Hgo l 0%nat IH).
Qed.
End PathTrace.
