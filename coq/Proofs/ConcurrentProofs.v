(* C08 for a tree of several leaves and leaf-local transactions
   (Model/Concurrent.v): the second commit raises a conflict, or the stored
   tree is sound and contains the base with both disjoint change sets applied.
   Lifts the one-leaf theorems of Proofs/MergeProofs.v along the leaf
   sequence: a key's lookup in the whole tree is decided by the one leaf whose
   interval contains it. *)
From Coq Require Import ZArith List Bool Sorted Lia Arith.
From BT Require Import Model.Merge Model.MergeSpec Model.RTree Model.TreeSpec Proofs.MergeProofs.
From BT Require Import Model.Concurrent.
From BT Require Proofs.TreeBase Proofs.RangeProofs.
Import ListNotations.
Open Scope Z_scope.

Notation lookup := (MergeSpec.lookup Z).
Notation keys_sorted := (MergeSpec.keys_sorted Z).
Notation touched := (MergeSpec.touched Z).
Notation merged := (MergeSpec.merged Z).

(* ------------------------------------------------------------------ *)
(* 1. intervals                                                        *)
(* ------------------------------------------------------------------ *)

Lemma within_lo : forall s hi k, within (Some s) hi k = true -> s <= k.
Proof.
  intros s hi k H. unfold within, above in H.
  apply andb_true_iff in H. destruct H as [H _]. apply Z.leb_le. exact H.
Qed.

Lemma within_hi : forall lo s k, within lo (Some s) k = true -> k < s.
Proof.
  intros lo s k H. unfold within, below in H.
  apply andb_true_iff in H. destruct H as [_ H]. apply Z.ltb_lt. exact H.
Qed.

Lemma inside_skel : forall l l' k, skel l' = skel l -> inside l' k = inside l k.
Proof.
  intros l l' k H. unfold skel in H. inversion H as [[H1 H2 H3]].
  unfold inside. congruence.
Qed.

Lemma skel_with_items : forall l its, skel (with_items l its) = skel l.
Proof. intros l its. reflexivity. Qed.

Lemma skel_leaf_after : forall x l, skel (leaf_after x l) = skel l.
Proof. intros x l. unfold leaf_after. destruct (change x (lid l)); reflexivity. Qed.

Lemma cons_inj : forall (A : Type) (a b : A) x y, a :: x = b :: y -> a = b /\ x = y.
Proof. intros A a b x y H. inversion H. split; reflexivity. Qed.

Lemma skel_inj : forall l l', skel l' = skel l ->
  lid l' = lid l /\ llo l' = llo l /\ lhi l' = lhi l.
Proof. intros l l' H. unfold skel in H. inversion H. repeat split; reflexivity. Qed.

Lemma consecutive_skel : forall b b',
  map skel b' = map skel b -> consecutive b -> consecutive b'.
Proof.
  induction b as [|l rest IH]; intros b' Hm Hc.
  - destruct b'; [exact I | simpl in Hm; discriminate Hm].
  - destruct b' as [|l' rest']; [simpl in Hm; discriminate Hm|].
    simpl in Hm. apply cons_inj in Hm. destruct Hm as [Hl Hr].
    destruct rest as [|l1 rest1].
    + destruct rest'; [exact I | simpl in Hr; discriminate Hr].
    + destruct rest' as [|l1' rest1']; [simpl in Hr; discriminate Hr|].
      destruct Hc as [[s [Hs1 Hs2]] Hc].
      pose proof Hr as Hr'. simpl in Hr'. apply cons_inj in Hr'. destruct Hr' as [Hl1 _].
      apply skel_inj in Hl. destruct Hl as (A1 & A2 & A3).
      apply skel_inj in Hl1. destruct Hl1 as (B1 & B2 & B3).
      split.
      * exists s. rewrite A3, B2. split; assumption.
      * apply IH; assumption.
Qed.

Lemma consecutive_tail : forall l rest, consecutive (l :: rest) -> consecutive rest.
Proof. intros l [|l1 rest1] H; [exact I | exact (proj2 H)]. Qed.

(* every leaf after the first starts at or above the first one's upper bound *)
Lemma rest_lo : forall rest l l',
  Forall leaf_ok (l :: rest) -> consecutive (l :: rest) -> In l' rest ->
  exists s s', lhi l = Some s /\ llo l' = Some s' /\ s <= s'.
Proof.
  induction rest as [|l1 rest1 IH]; intros l l' Hok Hc Hin; [destruct Hin|].
  destruct Hc as [[s [Hs1 Hs2]] Hc].
  destruct Hin as [E|Hin].
  - subst l'. exists s, s. split; [exact Hs1 | split; [exact Hs2 | lia]].
  - inversion Hok as [|x y Hl Hok1]; subst.
    destruct (IH l1 l' Hok1 Hc Hin) as [s1 [s' [H1 [H2 H3]]]].
    exists s, s'. split; [exact Hs1 | split; [exact H2|]].
    inversion Hok1 as [|x y Hl1 _]; subst.
    destruct Hl1 as [Hne [_ Hin1]].
    destruct (litems l1) as [|[k v] its] eqn:E; [congruence|].
    specialize (Hin1 k v (or_introl eq_refl)). unfold inside in Hin1.
    rewrite Hs2, H1 in Hin1.
    pose proof (within_lo _ _ _ Hin1). pose proof (within_hi _ _ _ Hin1). lia.
Qed.

(* ------------------------------------------------------------------ *)
(* 2. lookup in the concatenated contents                              *)
(* ------------------------------------------------------------------ *)

Lemma lookup_app : forall a b k,
  lookup (a ++ b) k = match lookup a k with Some v => Some v | None => lookup b k end.
Proof.
  induction a as [|[k' v'] a IH]; intros b k; simpl; [reflexivity|].
  destruct (Z.eqb k k'); [reflexivity | apply IH].
Qed.

Lemma lookup_none : forall a k,
  (forall k' v, In (k', v) a -> k' <> k) -> lookup a k = None.
Proof.
  intros a k H. destruct (lookup a k) as [v|] eqn:E; [|reflexivity].
  apply lookup_some_in in E. exfalso. exact (H k v E eq_refl).
Qed.

Lemma in_contents : forall b k v,
  In (k, v) (contents_of b) <-> exists l, In l b /\ In (k, v) (litems l).
Proof. intros b k v. unfold contents_of. apply in_flat_map. Qed.

(* no leaf's interval contains k: k is not in the tree *)
Lemma lookup_no_owner : forall b k,
  Forall leaf_ok b -> (forall l, In l b -> inside l k = false) ->
  lookup (contents_of b) k = None.
Proof.
  intros b k Hok Hno. apply lookup_none. intros k' v Hin E. subst k'.
  apply in_contents in Hin. destruct Hin as [l [Hl Hkv]].
  rewrite Forall_forall in Hok. destruct (Hok l Hl) as [_ [_ Hin]].
  specialize (Hno l Hl). rewrite (Hin k v Hkv) in Hno. discriminate Hno.
Qed.

(* the leaf whose interval contains k decides *)
Lemma lookup_owner : forall b l k,
  Forall leaf_ok b -> consecutive b -> In l b -> inside l k = true ->
  lookup (contents_of b) k = lookup (litems l) k.
Proof.
  induction b as [|l0 rest IH]; intros l k Hok Hc Hin Hk; [destruct Hin|].
  change (contents_of (l0 :: rest)) with (litems l0 ++ contents_of rest).
  rewrite lookup_app.
  inversion Hok as [|x y Hl0 Hrest]; subst.
  destruct Hin as [E|Hin].
  - subst l0. destruct (lookup (litems l) k) as [v|] eqn:E; [reflexivity|].
    apply lookup_none. intros k' v Hin' E'. subst k'.
    apply in_contents in Hin'. destruct Hin' as [l' [Hl' Hkv]].
    destruct (rest_lo rest l l' Hok Hc Hl') as [s [s' [H1 [H2 H3]]]].
    rewrite Forall_forall in Hrest. destruct (Hrest l' Hl') as [_ [_ Hin']].
    specialize (Hin' k v Hkv). unfold inside in Hin', Hk. rewrite H2 in Hin'. rewrite H1 in Hk.
    pose proof (within_lo _ _ _ Hin'). pose proof (within_hi _ _ _ Hk). lia.
  - assert (Hnone : lookup (litems l0) k = None).
    { apply lookup_none. intros k' v Hin' E'. subst k'.
      destruct (rest_lo rest l0 l Hok Hc Hin) as [s [s' [H1 [H2 H3]]]].
      destruct Hl0 as [_ [_ Hin0]]. specialize (Hin0 k v Hin').
      unfold inside in Hin0, Hk. rewrite H1 in Hin0. rewrite H2 in Hk.
      pose proof (within_lo _ _ _ Hk). pose proof (within_hi _ _ _ Hin0). lia. }
    rewrite Hnone. apply IH; try assumption. exact (consecutive_tail _ _ Hc).
Qed.

(* a sound leaf sequence has strictly ascending contents *)
Lemma sorted_app : forall x y : list (Z * Z),
  keys_sorted x -> keys_sorted y ->
  (forall k v k' v', In (k, v) x -> In (k', v') y -> k < k') ->
  keys_sorted (x ++ y).
Proof.
  induction x as [|[k v] x IH]; intros y Hx Hy Hlt; [exact Hy|].
  apply sorted_cons_iff in Hx. destruct Hx as [Hx Hlb].
  change (((k, v) :: x) ++ y) with ((k, v) :: (x ++ y)).
  apply sorted_cons_iff. split.
  - apply IH; [exact Hx | exact Hy |].
    intros k1 v1 k2 v2 H1 H2. apply (Hlt k1 v1 k2 v2); [right; exact H1 | exact H2].
  - intros z Hz. rewrite lookup_app. rewrite (Hlb z Hz).
    apply lookup_none. intros k' v' Hin E. subst k'.
    pose proof (Hlt k v z v' (or_introl eq_refl) Hin). lia.
Qed.

Lemma contents_sorted : forall b,
  Forall leaf_ok b -> consecutive b -> keys_sorted (contents_of b).
Proof.
  induction b as [|l rest IH]; intros Hok Hc; [apply sorted_nil|].
  change (contents_of (l :: rest)) with (litems l ++ contents_of rest).
  inversion Hok as [|x y Hl Hrest]; subst.
  apply sorted_app.
  - exact (proj1 (proj2 Hl)).
  - apply IH; [exact Hrest | exact (consecutive_tail _ _ Hc)].
  - intros k v k' v' H1 H2.
    apply in_contents in H2. destruct H2 as [l' [Hl' Hkv]].
    destruct (rest_lo rest l l' Hok Hc Hl') as [s [s' [E1 [E2 E3]]]].
    destruct Hl as [_ [_ Hin]]. specialize (Hin k v H1).
    rewrite Forall_forall in Hrest. destruct (Hrest l' Hl') as [_ [_ Hin']].
    specialize (Hin' k' v' Hkv). unfold inside in Hin, Hin'.
    rewrite E1 in Hin. rewrite E2 in Hin'.
    pose proof (within_hi _ _ _ Hin). pose proof (within_lo _ _ _ Hin'). lia.
Qed.

(* ------------------------------------------------------------------ *)
(* 3. a leaf-local transaction leaves a sound tree                     *)
(* ------------------------------------------------------------------ *)

Lemma change_in : forall x i its, change x i = Some its -> In (i, its) x.
Proof.
  induction x as [|[j its'] x IH]; intros i its H; simpl in H; [discriminate H|].
  destruct (Nat.eqb_spec i j) as [E|E].
  - inversion H; subst. left; reflexivity.
  - right. apply IH. exact H.
Qed.

Lemma lid_inj : forall b l l0,
  NoDup (map lid b) -> In l b -> In l0 b -> lid l = lid l0 -> l = l0.
Proof.
  induction b as [|a b IH]; intros l l0 Hnd Hl Hl0 E; [destruct Hl|].
  simpl in Hnd. inversion Hnd as [|x y Hnotin Hnd']; subst.
  destruct Hl as [El|Hl]; destruct Hl0 as [El0|Hl0].
  - congruence.
  - subst a. exfalso. apply Hnotin. rewrite E. apply in_map. exact Hl0.
  - subst a. exfalso. apply Hnotin. rewrite <- E. apply in_map. exact Hl.
  - apply IH; assumption.
Qed.

Lemma leaf_after_ok : forall b x l,
  base_ok b -> txn_ok b x -> In l b -> leaf_ok (leaf_after x l).
Proof.
  intros b x l (Hnd & Hok & _) (_ & Hx) Hl. unfold leaf_after.
  destruct (change x (lid l)) as [its|] eqn:E.
  - apply change_in in E. destruct (Hx _ _ E) as [l0 [Hl0 [Eid Hl0ok]]].
    assert (l0 = l) by (apply (lid_inj b); assumption). subst l0. exact Hl0ok.
  - rewrite Forall_forall in Hok. apply Hok. exact Hl.
Qed.

Lemma map_skel_apply : forall b x, map skel (apply b x) = map skel b.
Proof.
  intros b x. unfold apply. rewrite map_map. apply map_ext.
  intros l. apply skel_leaf_after.
Qed.

Lemma map_lid_skel : forall b, map lid b = map (fun s => fst (fst s)) (map skel b).
Proof. intros b. rewrite map_map. apply map_ext. intros l. reflexivity. Qed.

Lemma apply_ok : forall b x, base_ok b -> txn_ok b x -> base_ok (apply b x).
Proof.
  intros b x Hb Hx. split; [|split].
  - rewrite map_lid_skel, map_skel_apply, <- map_lid_skel. exact (proj1 Hb).
  - apply Forall_forall. intros l' Hl'. unfold apply in Hl'.
    apply in_map_iff in Hl'. destruct Hl' as [l [E Hl]]. subst l'.
    exact (leaf_after_ok b x l Hb Hx Hl).
  - apply (consecutive_skel b); [apply map_skel_apply | exact (proj2 (proj2 Hb))].
Qed.

(* ------------------------------------------------------------------ *)
(* 4. what the commit stores in one leaf                               *)
(* ------------------------------------------------------------------ *)

(* l' is l with both change sets applied, and the change sets are disjoint *)
Definition leaf_rel (t1 t2 : txn) (l l' : leaf) : Prop :=
  skel l' = skel l /\ leaf_ok l' /\
  merged (litems l) (litems (leaf_after t1 l)) (litems (leaf_after t2 l)) (litems l') /\
  (forall k, ~ (touched (litems l) (litems (leaf_after t1 l)) k /\
                touched (litems l) (litems (leaf_after t2 l)) k)).

Lemma untouched_eq : forall (o c : list (Z * Z)) k, ~ touched o c k -> lookup o k = lookup c k.
Proof.
  intros o c k H. unfold MergeSpec.touched in H.
  destruct (opt_dec Z Z.eqb Z.eqb_eq (lookup o k) (lookup c k)) as [E|E]; [exact E | contradiction].
Qed.

Lemma commit_leaf_spec : forall t1 t2 l nx l',
  leaf_ok l -> leaf_ok (leaf_after t1 l) -> leaf_ok (leaf_after t2 l) ->
  commit_leaf t1 t2 l nx = Some l' -> leaf_rel t1 t2 l l'.
Proof.
  intros t1 t2 l nx l' Hl H1 H2 Hc. unfold leaf_rel.
  unfold commit_leaf in Hc. unfold leaf_after in *.
  destruct (change t1 (lid l)) as [c|]; destruct (change t2 (lid l)) as [n|]; cbn [litems with_items] in *.
  - (* both wrote the leaf: conflict resolution *)
    destruct (bucket_resolve Z Z.eqb (litems l, nx) (c, nx) (n, nx)) as [[r x]|p1 p2 p3 reason| |] eqn:E;
      try discriminate Hc.
    inversion Hc; subst l'. clear Hc.
    assert (S : keys_sorted (fst (litems l, nx)) /\ keys_sorted (fst (c, nx)) /\ keys_sorted (fst (n, nx))).
    { cbn [fst]. split; [exact (proj1 (proj2 Hl))|].
      split; [exact (proj1 (proj2 H1)) | exact (proj1 (proj2 H2))]. }
    destruct (resolve_result Z Z.eqb Z.eqb_eq _ _ _ r x S E) as (_ & Hm & Hne).
    assert (G : guard Z (litems l, nx) (c, nx) (n, nx)).
    { apply (resolve_exact Z Z.eqb Z.eqb_eq _ _ _ S). exists (r, x). exact E. }
    destruct G as (_ & _ & _ & _ & D & _). cbn [fst] in Hm, D.
    split; [reflexivity|]. split; [|split; [exact Hm | exact D]].
    split; [exact Hne|]. split; [exact (proj1 Hm)|].
    intros k v Hin. cbn [litems with_items] in Hin.
    destruct (resolve_no_invention Z Z.eqb Z.eqb_eq _ _ _ r x k v S E) as [Hinv _].
    destruct (Hinv Hin) as [Hc|Hn]; cbn [fst] in *.
    + exact (proj2 (proj2 H1) k v Hc).
    + exact (proj2 (proj2 H2) k v Hn).
  - (* only t1 wrote it: t1's state stays *)
    inversion Hc; subst l'. clear Hc.
    split; [reflexivity|]. split; [exact H1|]. split.
    + split; [exact (proj1 (proj2 H1))|]. intros k. split; [reflexivity|].
      intros Hu. symmetry. apply untouched_eq. exact Hu.
    + intros k [_ Hn]. apply Hn. reflexivity.
  - (* only t2 wrote it: stored as is *)
    inversion Hc; subst l'. clear Hc.
    split; [reflexivity|]. split; [exact H2|]. split.
    + split; [exact (proj1 (proj2 H2))|]. intros k. split; [|reflexivity].
      intros Ht. exfalso. apply Ht. reflexivity.
    + intros k [Hn _]. apply Hn. reflexivity.
  - (* nobody wrote it *)
    inversion Hc; subst l'. clear Hc.
    split; [reflexivity|]. split; [exact Hl|]. split.
    + split; [exact (proj1 (proj2 Hl))|]. intros k. split; reflexivity.
    + intros k [Hn _]. apply Hn. reflexivity.
Qed.

Lemma commit2_rel : forall b t1 t2 final,
  Forall leaf_ok b -> Forall leaf_ok (apply b t1) -> Forall leaf_ok (apply b t2) ->
  commit2 b t1 t2 = Some final -> Forall2 (leaf_rel t1 t2) b final.
Proof.
  induction b as [|l rest IH]; intros t1 t2 final Hb H1 H2 Hc; simpl in Hc.
  - inversion Hc; subst. constructor.
  - destruct (commit_leaf t1 t2 l (next_of rest)) as [l'|] eqn:El; [|discriminate Hc].
    destruct (commit2 rest t1 t2) as [rest'|] eqn:Er; [|discriminate Hc].
    inversion Hc; subst final. clear Hc.
    inversion Hb as [|x y Hl Hb']; subst.
    simpl in H1, H2.
    inversion H1 as [|x y Hl1 H1']; subst. inversion H2 as [|x y Hl2 H2']; subst.
    constructor.
    + exact (commit_leaf_spec t1 t2 l _ l' Hl Hl1 Hl2 El).
    + apply IH; assumption.
Qed.

Lemma Forall2_in_l : forall (A B : Type) (R : A -> B -> Prop) a b x,
  Forall2 R a b -> In x a -> exists y, In y b /\ R x y.
Proof.
  intros A B R a b x H. induction H as [|a0 b0 a b HR H IH]; intros Hin; [destruct Hin|].
  destruct Hin as [E|Hin].
  - subst a0. exists b0. split; [left; reflexivity | exact HR].
  - destruct (IH Hin) as [y [Hy HRy]]. exists y. split; [right; exact Hy | exact HRy].
Qed.

Lemma Forall2_in_r : forall (A B : Type) (R : A -> B -> Prop) a b y,
  Forall2 R a b -> In y b -> exists x, In x a /\ R x y.
Proof.
  intros A B R a b y H. induction H as [|a0 b0 a b HR H IH]; intros Hin; [destruct Hin|].
  destruct Hin as [E|Hin].
  - subst b0. exists a0. split; [left; reflexivity | exact HR].
  - destruct (IH Hin) as [x [Hx HRx]]. exists x. split; [right; exact Hx | exact HRx].
Qed.

Lemma rel_skel : forall t1 t2 b final,
  Forall2 (leaf_rel t1 t2) b final -> map skel final = map skel b.
Proof.
  intros t1 t2 b final H. induction H as [|l l' b final HR H IH]; [reflexivity|].
  simpl. rewrite IH. rewrite (proj1 HR). reflexivity.
Qed.

(* ------------------------------------------------------------------ *)
(* 5. the outcome of the second commit                                 *)
(* ------------------------------------------------------------------ *)

(* seen from one key, the four trees are four leaf states related by the
   one-leaf merge (the leaf owning the key, or nothing at all) *)
Lemma key_view : forall base t1 t2 final k,
  base_ok base -> base_ok (apply base t1) -> base_ok (apply base t2) -> base_ok final ->
  Forall2 (leaf_rel t1 t2) base final ->
  exists o c n r : list (Z * Z),
    lookup (contents_of base) k = lookup o k /\
    lookup (contents_of (apply base t1)) k = lookup c k /\
    lookup (contents_of (apply base t2)) k = lookup n k /\
    lookup (contents_of final) k = lookup r k /\
    merged o c n r /\
    (forall k', ~ (touched o c k' /\ touched o n k')).
Proof.
  intros base t1 t2 final k Hb H1 H2 Hf HR.
  destruct (find (fun l => inside l k) base) as [l|] eqn:F.
  - apply find_some in F. destruct F as [Hl Hk].
    destruct (Forall2_in_l _ _ _ _ _ l HR Hl) as [l' [Hl' (Hs & _ & Hm & D)]].
    exists (litems l), (litems (leaf_after t1 l)), (litems (leaf_after t2 l)), (litems l').
    split; [|split; [|split; [|split; [|split; [exact Hm | exact D]]]]].
    + apply lookup_owner; [exact (proj1 (proj2 Hb)) | exact (proj2 (proj2 Hb)) | exact Hl | exact Hk].
    + apply lookup_owner; [exact (proj1 (proj2 H1)) | exact (proj2 (proj2 H1)) | |].
      * unfold apply. apply in_map. exact Hl.
      * rewrite (inside_skel l); [exact Hk | apply skel_leaf_after].
    + apply lookup_owner; [exact (proj1 (proj2 H2)) | exact (proj2 (proj2 H2)) | |].
      * unfold apply. apply in_map. exact Hl.
      * rewrite (inside_skel l); [exact Hk | apply skel_leaf_after].
    + apply lookup_owner; [exact (proj1 (proj2 Hf)) | exact (proj2 (proj2 Hf)) | exact Hl' |].
      rewrite (inside_skel l); [exact Hk | exact Hs].
  - pose proof (find_none _ _ F) as Hno. cbv beta in Hno.
    assert (Ha : forall x l', In l' (apply base x) -> inside l' k = false).
    { intros x l' Hl'. unfold apply in Hl'. apply in_map_iff in Hl'.
      destruct Hl' as [l [E Hl]]. subst l'.
      rewrite (inside_skel l); [exact (Hno l Hl) | apply skel_leaf_after]. }
    exists [], [], [], [].
    split; [|split; [|split; [|split; [|split]]]].
    + apply lookup_no_owner; [exact (proj1 (proj2 Hb)) | exact Hno].
    + apply lookup_no_owner; [exact (proj1 (proj2 H1)) | apply Ha].
    + apply lookup_no_owner; [exact (proj1 (proj2 H2)) | apply Ha].
    + apply lookup_no_owner; [exact (proj1 (proj2 Hf))|].
      intros l' Hl'. destruct (Forall2_in_r _ _ _ _ _ l' HR Hl') as [l [Hl (Hs & _)]].
      rewrite (inside_skel l); [exact (Hno l Hl) | exact Hs].
    + apply merged_nil_n. apply sorted_nil.
    + intros k' [Hn _]. apply Hn. reflexivity.
Qed.

(* C08 for leaf-local transactions: the second commit is a conflict error, or
   the stored tree
     - is sound, with the same leaves and intervals as before,
     - contains the base with both transactions' change sets applied,
     - and these change sets are disjoint. *)
Theorem tree_outcome : forall base t1 t2,
  base_ok base -> txn_ok base t1 -> txn_ok base t2 ->
  match commit2 base t1 t2 with
  | None => True
  | Some final =>
      base_ok final /\ map skel final = map skel base /\
      merged (contents_of base) (contents_of (apply base t1))
             (contents_of (apply base t2)) (contents_of final) /\
      (forall k, ~ (touched (contents_of base) (contents_of (apply base t1)) k /\
                    touched (contents_of base) (contents_of (apply base t2)) k))
  end.
Proof.
  intros base t1 t2 Hb Ht1 Ht2.
  destruct (commit2 base t1 t2) as [final|] eqn:E; [|exact I].
  pose proof (apply_ok base t1 Hb Ht1) as H1.
  pose proof (apply_ok base t2 Hb Ht2) as H2.
  pose proof (commit2_rel base t1 t2 final (proj1 (proj2 Hb)) (proj1 (proj2 H1))
                          (proj1 (proj2 H2)) E) as HR.
  pose proof (rel_skel _ _ _ _ HR) as Hs.
  assert (Hf : base_ok final).
  { split; [|split].
    - rewrite map_lid_skel, Hs, <- map_lid_skel. exact (proj1 Hb).
    - apply Forall_forall. intros l' Hl'.
      destruct (Forall2_in_r _ _ _ _ _ l' HR Hl') as [l [_ (_ & Hok & _)]]. exact Hok.
    - apply (consecutive_skel base); [exact Hs | exact (proj2 (proj2 Hb))]. }
  split; [exact Hf|]. split; [exact Hs|]. split.
  - split; [apply contents_sorted; [exact (proj1 (proj2 Hf)) | exact (proj2 (proj2 Hf))]|].
    intros k.
    destruct (key_view base t1 t2 final k Hb H1 H2 Hf HR)
      as (o & c & n & r & Eo & Ec & En & Er & [_ Hm] & _).
    unfold MergeSpec.touched. rewrite Eo, Ec, En, Er. exact (Hm k).
  - intros k.
    destruct (key_view base t1 t2 final k Hb H1 H2 Hf HR)
      as (o & c & n & r & Eo & Ec & En & _ & _ & D).
    unfold MergeSpec.touched. rewrite Eo, Ec, En. exact (D k).
Qed.

(* ------------------------------------------------------------------ *)
(* 6. when the commit succeeds                                         *)
(* ------------------------------------------------------------------ *)

(* no hypotheses needed: where the two transactions wrote different leaves
   nothing is resolved and nothing can conflict *)
Lemma commit_leaf_disjoint : forall t1 t2 l nx,
  change t1 (lid l) = None \/ change t2 (lid l) = None ->
  commit_leaf t1 t2 l nx = Some (leaf_after t2 (leaf_after t1 l)).
Proof.
  intros t1 t2 l nx H. unfold commit_leaf, leaf_after.
  destruct (change t1 (lid l)) as [c|] eqn:E1; destruct (change t2 (lid l)) as [n|] eqn:E2;
    cbn [lid with_items]; rewrite ?E2; try reflexivity.
  destruct H as [H|H]; discriminate H.
Qed.

Theorem different_leaves_commit : forall base t1 t2,
  (forall l, In l base -> change t1 (lid l) = None \/ change t2 (lid l) = None) ->
  commit2 base t1 t2 = Some (apply (apply base t1) t2).
Proof.
  induction base as [|l rest IH]; intros t1 t2 H; [reflexivity|].
  simpl. rewrite (commit_leaf_disjoint t1 t2 l _ (H l (or_introl eq_refl))).
  rewrite IH; [reflexivity|]. intros l' Hl'. apply H. right. exact Hl'.
Qed.

Lemma apply_nil : forall base, apply base [] = base.
Proof.
  intros base. unfold apply. rewrite <- (map_id base) at 2. apply map_ext.
  intros l. reflexivity.
Qed.

(* the serial results: a transaction that wrote nothing does not disturb the other *)
Corollary tree_outcome_serial : forall base t1,
  commit2 base t1 [] = Some (apply base t1).
Proof.
  intros base t1. rewrite different_leaves_commit; [|intros l _; right; reflexivity].
  rewrite apply_nil. reflexivity.
Qed.

Corollary tree_outcome_serial' : forall base t2,
  commit2 base [] t2 = Some (apply base t2).
Proof.
  intros base t2. rewrite different_leaves_commit; [|intros l _; left; reflexivity].
  rewrite apply_nil. reflexivity.
Qed.

(* the condition under which a leaf written by both can be resolved: disjoint
   change sets, and neither removed what was the leaf's smallest key
   (MergeSpec.guard without the clauses that hold here by construction) *)
Definition resolvable (o c n : list (Z * Z)) : Prop :=
  (forall k, ~ (touched o c k /\ touched o n k)) /\
  ~ min_raised Z o c /\ ~ min_raised Z o n.

Lemma commit_leaf_exact : forall t1 t2 l nx,
  leaf_ok l -> leaf_ok (leaf_after t1 l) -> leaf_ok (leaf_after t2 l) ->
  ((exists l', commit_leaf t1 t2 l nx = Some l') <->
   (forall c n, change t1 (lid l) = Some c -> change t2 (lid l) = Some n ->
                resolvable (litems l) c n)).
Proof.
  intros t1 t2 l nx Hl H1 H2. unfold commit_leaf. unfold leaf_after in H1, H2.
  destruct (change t1 (lid l)) as [c|]; destruct (change t2 (lid l)) as [n|];
    try (split; [intros _ c' n' Ec En; discriminate | intros _; eexists; reflexivity]).
  assert (S : keys_sorted (fst (litems l, nx)) /\ keys_sorted (fst (c, nx)) /\ keys_sorted (fst (n, nx))).
  { cbn [fst]. split; [exact (proj1 (proj2 Hl))|].
    split; [exact (proj1 (proj2 H1)) | exact (proj1 (proj2 H2))]. }
  pose proof (resolve_exact Z Z.eqb Z.eqb_eq _ _ _ S) as Hex.
  split.
  - intros [l' Hc] c' n' Ec En. inversion Ec; subst c'. inversion En; subst n'.
    assert (G : guard Z (litems l, nx) (c, nx) (n, nx)).
    { apply Hex.
      destruct (bucket_resolve Z Z.eqb (litems l, nx) (c, nx) (n, nx)) as [s| | |];
        try discriminate Hc. exists s. reflexivity. }
    destruct G as (_ & _ & _ & _ & D & M1 & M2). split; [exact D | split; [exact M1 | exact M2]].
  - intros H. destruct (H c n eq_refl eq_refl) as (D & M1 & M2).
    assert (G : guard Z (litems l, nx) (c, nx) (n, nx)).
    { unfold guard. cbn [fst snd].
      split; [reflexivity|]. split; [reflexivity|].
      split; [exact (proj1 H1)|]. split; [exact (proj1 H2)|].
      split; [exact D | split; [exact M1 | exact M2]]. }
    apply Hex in G. destruct G as [[r x] Hs]. rewrite Hs. eexists; reflexivity.
Qed.

Lemma commit2_exact : forall b t1 t2,
  Forall leaf_ok b -> Forall leaf_ok (apply b t1) -> Forall leaf_ok (apply b t2) ->
  ((exists final, commit2 b t1 t2 = Some final) <->
   (forall l c n, In l b -> change t1 (lid l) = Some c -> change t2 (lid l) = Some n ->
                  resolvable (litems l) c n)).
Proof.
  induction b as [|l rest IH]; intros t1 t2 Hb H1 H2.
  - split; [intros _ l c n Hin; destruct Hin | intros _; exists []; reflexivity].
  - inversion Hb as [|x y Hl Hb']; subst. simpl in H1, H2.
    inversion H1 as [|x y Hl1 H1']; subst. inversion H2 as [|x y Hl2 H2']; subst.
    pose proof (commit_leaf_exact t1 t2 l (next_of rest) Hl Hl1 Hl2) as Hleaf.
    pose proof (IH t1 t2 Hb' H1' H2') as Hrest.
    cbn [commit2]. split.
    + intros [final Hc].
      destruct (commit_leaf t1 t2 l (next_of rest)) as [l'|]; [|discriminate Hc].
      destruct (commit2 rest t1 t2) as [rest'|]; [|discriminate Hc].
      intros l0 c n [E|Hin] Ec En.
      * subst l0. apply (proj1 Hleaf); [exists l'; reflexivity | exact Ec | exact En].
      * apply (proj1 Hrest) with (l := l0); [exists rest'; reflexivity | exact Hin | exact Ec | exact En].
    + intros H.
      destruct (proj2 Hleaf) as [l' El].
      { intros c n Ec En. apply (H l c n); [left; reflexivity | exact Ec | exact En]. }
      destruct (proj2 Hrest) as [rest' Er].
      { intros l0 c n Hin Ec En. apply (H l0 c n); [right; exact Hin | exact Ec | exact En]. }
      rewrite El, Er. eexists; reflexivity.
Qed.

(* the commit succeeds EXACTLY when every leaf written by both transactions
   is resolvable: no spurious conflict, no missed one *)
Theorem tree_commit_exact : forall base t1 t2,
  base_ok base -> txn_ok base t1 -> txn_ok base t2 ->
  ((exists final, commit2 base t1 t2 = Some final) <->
   (forall l c n, In l base -> change t1 (lid l) = Some c -> change t2 (lid l) = Some n ->
                  resolvable (litems l) c n)).
Proof.
  intros base t1 t2 Hb Ht1 Ht2. apply commit2_exact.
  - exact (proj1 (proj2 Hb)).
  - exact (proj1 (proj2 (apply_ok base t1 Hb Ht1))).
  - exact (proj1 (proj2 (apply_ok base t2 Hb Ht2))).
Qed.

(* ------------------------------------------------------------------ *)
(* 7. the leaf sequence of a sound RTree is a sound base               *)
(* ------------------------------------------------------------------ *)

(* the inner loop of tree_leaves as a function of its own *)
Fixpoint kids_leaves (hi : option Z) (first : bool) (lo' : option Z)
         (l : list (Z * tree Z)) : list leaf :=
  match l with
  | [] => []
  | (s, c) :: rest =>
    let lo1 := if first then lo' else Some s in
    let hi1 := match rest with [] => hi | (s2, _) :: _ => Some s2 end in
    tree_leaves lo1 hi1 c ++ kids_leaves hi false lo1 rest
  end.

Lemma tree_leaves_node : forall i kids lo hi,
  tree_leaves lo hi (Node i kids) = kids_leaves hi true lo kids.
Proof.
  intros i kids lo hi. cbn [tree_leaves].
  match goal with |- ?f true lo kids = _ =>
    assert (H : forall l first lo', f first lo' l = kids_leaves hi first lo' l) end.
  { induction l as [|[s c] rest IH]; intros; [reflexivity|].
    cbn [kids_leaves]. rewrite <- IH. reflexivity. }
  apply H.
Qed.

(* forgetting the intervals gives RTree.leaves *)
Theorem tree_leaves_leaves : forall t lo hi,
  map (fun l => (lid l, litems l)) (tree_leaves lo hi t) = leaves Z t.
Proof.
  induction t as [i l|i kids IH] using (RangeProofs.tree_ind2 Z); intros lo hi; [reflexivity|].
  rewrite tree_leaves_node. cbn [leaves]. generalize true as first. revert lo.
  induction kids as [|[s c] rest IHk]; intros lo first; [reflexivity|].
  inversion IH as [|x y Hc Hrest]; subst. cbn [kids_leaves flat_map snd].
  rewrite map_app. rewrite (Hc _ _). rewrite (IHk Hrest). reflexivity.
Qed.

Corollary tree_leaves_contents : forall t lo hi,
  contents_of (tree_leaves lo hi t) = flat_map snd (leaves Z t).
Proof.
  intros t lo hi. rewrite <- (tree_leaves_leaves t lo hi). unfold contents_of.
  rewrite !flat_map_concat_map, map_map. reflexivity.
Qed.

(* a non-empty leaf sequence covering [lo, hi) without gaps *)
Fixpoint chain (lo : option Z) (b : list leaf) (hi : option Z) : Prop :=
  match b with
  | [] => False
  | l :: rest =>
    llo l = lo /\
    match rest with
    | [] => lhi l = hi
    | _ :: _ => exists s, lhi l = Some s /\ chain (Some s) rest hi
    end
  end.

Lemma chain_app : forall a lo s b hi,
  chain lo a (Some s) -> chain (Some s) b hi -> chain lo (a ++ b) hi.
Proof.
  induction a as [|l rest IH]; intros lo s b hi Ha Hb; [destruct Ha|].
  destruct Ha as [Hlo Ha]. destruct rest as [|l1 rest1].
  - destruct b as [|l2 b2]; [destruct Hb|].
    split; [exact Hlo|]. exists s. split; [exact Ha | exact Hb].
  - destruct Ha as [s1 [Hs1 Ha]]. split; [exact Hlo|].
    exists s1. split; [exact Hs1|]. exact (IH _ _ _ _ Ha Hb).
Qed.

Lemma chain_consecutive : forall b lo hi, chain lo b hi -> consecutive b.
Proof.
  induction b as [|l rest IH]; intros lo hi H; [exact I|].
  destruct H as [_ H]. destruct rest as [|l1 rest1]; [exact I|].
  destruct H as [s [Hs H]]. split.
  - exists s. split; [exact Hs | exact (proj1 H)].
  - exact (IH _ _ H).
Qed.

Definition kids_lo (first : bool) (lo' : option Z) (l : list (Z * tree Z)) : option Z :=
  match l with (s, _) :: _ => if first then lo' else Some s | [] => lo' end.

Lemma kids_leaves_ok : forall b0 hi l,
  Forall (fun sc : Z * tree Z => forall lo hi,
            wf_search_node Z lo hi (snd sc) = true ->
            Forall leaf_ok (tree_leaves lo hi (snd sc)) /\
            chain lo (tree_leaves lo hi (snd sc)) hi) l ->
  forall first lo', l <> [] ->
  RangeProofs.wfs_kids Z b0 hi first lo' l = true ->
  Forall leaf_ok (kids_leaves hi first lo' l) /\
  chain (kids_lo first lo' l) (kids_leaves hi first lo' l) hi.
Proof.
  intros b0 hi. induction l as [|[s c] rest IHl]; intros IH first lo' Hne H; [congruence|].
  inversion IH as [|x y Hc Hrest]; subst. cbn [snd] in Hc.
  cbn [RangeProofs.wfs_kids] in H.
  apply andb_true_iff in H. destruct H as [H Hk].
  apply andb_true_iff in H. destruct H as [_ Hw].
  cbn [kids_leaves kids_lo].
  destruct (Hc _ _ Hw) as [Hok Hch].
  destruct rest as [|[s2 c2] rest2].
  - cbn [kids_leaves]. rewrite app_nil_r. split; [exact Hok | exact Hch].
  - destruct (IHl Hrest false (if first then lo' else Some s)) as [Hok2 Hch2];
      [discriminate | exact Hk |].
    cbn [kids_lo] in Hch2. split.
    + apply Forall_app. split; [exact Hok | exact Hok2].
    + exact (chain_app _ _ _ _ _ Hch Hch2).
Qed.

Lemma tree_leaves_ok : forall t lo hi,
  wf_search_node Z lo hi t = true ->
  Forall leaf_ok (tree_leaves lo hi t) /\ chain lo (tree_leaves lo hi t) hi.
Proof.
  induction t as [i l|i kids IH] using (RangeProofs.tree_ind2 Z); intros lo hi H.
  - cbn [wf_search_node] in H.
    apply andb_true_iff in H. destruct H as [H Hin].
    apply andb_true_iff in H. destruct H as [Hne Hs].
    cbn [tree_leaves]. split; [|split; reflexivity].
    constructor; [|constructor]. split; [|split]; cbn [litems].
    + intros E. subst l. discriminate Hne.
    + apply TreeBase.strictly_sorted_b_iff. exact Hs.
    + intros k v Hkv. unfold inside. cbn [llo lhi].
      rewrite forallb_forall in Hin. apply Hin.
      change k with (fst (k, v)). apply in_map. exact Hkv.
  - rewrite RangeProofs.wfs_node_eq in H. rewrite tree_leaves_node.
    apply andb_true_iff in H. destruct H as [Hne H].
    destruct kids as [|[s0 c0] r]; [discriminate Hne|].
    exact (kids_leaves_ok _ hi _ IH true lo ltac:(discriminate) H).
Qed.

(* the hypotheses of tree_outcome hold for the leaf sequence of any tree
   that satisfies the stored invariant and whose leaves are distinct objects *)
Theorem tree_base_ok : forall t lo hi,
  wf_search_node Z lo hi t = true -> NoDup (map fst (leaves Z t)) ->
  base_ok (tree_leaves lo hi t).
Proof.
  intros t lo hi Hw Hnd. destruct (tree_leaves_ok t lo hi Hw) as [Hok Hch].
  split; [|split; [exact Hok | exact (chain_consecutive _ _ _ Hch)]].
  rewrite <- (tree_leaves_leaves t lo hi), map_map in Hnd. exact Hnd.
Qed.

Corollary inv_base_ok : forall ml mi t,
  Inv Z ml mi t -> NoDup (map fst (leaves Z t)) -> base_ok (tree_leaves None None t).
Proof.
  intros ml mi t HI Hnd. pose proof (RangeProofs.inv_wf_search Z ml mi t HI) as Hw.
  unfold wf_search in Hw. destruct t as [i l|i [|sc r]]; [discriminate Hw| |].
  - split; [constructor | split; [constructor | exact I]].
  - exact (tree_base_ok _ None None Hw Hnd).
Qed.

(* ------------------------------------------------------------------ *)
(* 8. examples                                                         *)
(* ------------------------------------------------------------------ *)

Definition ex_base : list leaf :=
  [ Lf 1 None (Some 10) [(1, 0); (5, 0)];
    Lf 2 (Some 10) (Some 20) [(10, 0); (15, 0)];
    Lf 3 (Some 20) None [(20, 0); (25, 0)] ].

(* t1 inserts key 3 into leaf 1 *)
Definition ex_t1 : txn := [ (1%nat, [(1, 0); (3, 7); (5, 0)]) ].
(* t2 changes the value of key 5 in leaf 1 and inserts key 30 into leaf 3 *)
Definition ex_t2 : txn := [ (1%nat, [(1, 0); (5, 9)]); (3%nat, [(20, 0); (25, 0); (30, 1)]) ].
(* t1' also changes the value of key 5; t1'' and t2'' both delete key 5 *)
Definition ex_t1' : txn := [ (1%nat, [(1, 0); (5, 8)]) ].
Definition ex_t1'' : txn := [ (1%nat, [(1, 0)]) ].
Definition ex_t2'' : txn := [ (1%nat, [(1, 0)]); (3%nat, [(20, 0); (25, 0); (30, 1)]) ].

Example ex_merge :
  commit2 ex_base ex_t1 ex_t2 =
  Some [ Lf 1 None (Some 10) [(1, 0); (3, 7); (5, 9)];
         Lf 2 (Some 10) (Some 20) [(10, 0); (15, 0)];
         Lf 3 (Some 20) None [(20, 0); (25, 0); (30, 1)] ].
Proof. vm_compute. reflexivity. Qed.

Example ex_merge_other_order :
  commit2 ex_base ex_t2 ex_t1 = commit2 ex_base ex_t1 ex_t2.
Proof. vm_compute. reflexivity. Qed.

Example ex_conflict_same_key_modified : commit2 ex_base ex_t1' ex_t2 = None.
Proof. vm_compute. reflexivity. Qed.

Example ex_conflict_same_key_deleted : commit2 ex_base ex_t1'' ex_t2'' = None.
Proof. vm_compute. reflexivity. Qed.

(* the hypotheses of tree_outcome are satisfiable: they hold for the example *)
Ltac leaf_ok_tac :=
  split; [discriminate|]; split;
  [ unfold MergeSpec.keys_sorted; simpl; repeat constructor
  | let k := fresh "k" in let v := fresh "v" in let H := fresh "H" in
    intros k v H; simpl in H;
    repeat (destruct H as [H|H]; [inversion H; subst; reflexivity|]); destruct H ].

Example ex_base_ok : base_ok ex_base.
Proof.
  split; [|split].
  - simpl. repeat constructor; simpl; intuition discriminate.
  - unfold ex_base. repeat (apply Forall_cons; [leaf_ok_tac|]). apply Forall_nil.
  - simpl. split; [exists 10; split; reflexivity|]. split; [exists 20; split; reflexivity | exact I].
Qed.

Example ex_t1_ok : txn_ok ex_base ex_t1.
Proof.
  split; [simpl; repeat constructor; simpl; intuition discriminate|].
  intros i its [H|[]]. inversion H; subst.
  exists (Lf 1 None (Some 10) [(1, 0); (5, 0)]).
  split; [left; reflexivity|]. split; [reflexivity | leaf_ok_tac].
Qed.

Example ex_t2_ok : txn_ok ex_base ex_t2.
Proof.
  split; [simpl; repeat constructor; simpl; intuition discriminate|].
  intros i its [H|[H|[]]]; inversion H; subst.
  - exists (Lf 1 None (Some 10) [(1, 0); (5, 0)]).
    split; [left; reflexivity|]. split; [reflexivity | leaf_ok_tac].
  - exists (Lf 3 (Some 20) None [(20, 0); (25, 0)]).
    split; [right; right; left; reflexivity|]. split; [reflexivity | leaf_ok_tac].
Qed.

(* the tree of C08_example: its leaf sequence, and that it is a sound base *)
Definition ex_tree : tree Z :=
  Node 0%nat [(0, Node 1%nat [(0, Leaf 2%nat [(1, 0)]); (3, Leaf 3%nat [(3, 0)])]);
              (5, Node 4%nat [(5, Leaf 5%nat [(5, 0)])])].

Example ex_tree_leaves :
  tree_leaves None None ex_tree =
  [ Lf 2 None (Some 3) [(1, 0)]; Lf 3 (Some 3) (Some 5) [(3, 0)]; Lf 5 (Some 5) None [(5, 0)] ].
Proof. vm_compute. reflexivity. Qed.

Example ex_tree_base_ok : base_ok (tree_leaves None None ex_tree).
Proof.
  apply (inv_base_ok 2 2).
  - vm_compute. reflexivity.
  - simpl. repeat constructor; simpl; intuition discriminate.
Qed.

Print Assumptions tree_commit_exact.
Print Assumptions different_leaves_commit.
Print Assumptions inv_base_ok.
Print Assumptions tree_outcome.
