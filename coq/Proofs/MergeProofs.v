(* Proofs for C07 (Props/C07.v): the three-cursor merge of Model/Merge.v is an
   exact three-way merge (Model/MergeSpec.v) or a refusal. *)
From Coq Require Import ZArith List Bool Sorted Lia.
From BT Require Import Model.Merge Model.MergeSpec.
Import ListNotations.
Open Scope Z_scope.

Section MergeProofs.
Variable V : Type.
Variable veq : V -> V -> bool.
Hypothesis veq_spec : forall a b, veq a b = true <-> a = b.

Notation item := (Z * V)%type.
Notation lookup := (MergeSpec.lookup V).
Notation keys_sorted := (MergeSpec.keys_sorted V).
Notation touched := (MergeSpec.touched V).
Notation min_raised := (MergeSpec.min_raised V).
Notation merged := (MergeSpec.merged V).

(* ------------------------------------------------------------------ *)
(* 1. lookup on sorted lists                                           *)
(* ------------------------------------------------------------------ *)

(* every key of l is > k, stated through lookup *)
Definition lb (k : Z) (l : list item) : Prop :=
  forall x, x <= k -> lookup l x = None.

Lemma lb_Forall : forall k l, lb k l <-> Forall (fun i : item => k < fst i) l.
Proof.
  intros k l. induction l as [|[k' v'] l IHl].
  - split; intros _; [constructor | intros x _; reflexivity].
  - split.
    + intros H. constructor.
      * simpl. destruct (Z_lt_le_dec k k') as [Hlt|Hle]; [exact Hlt|].
        specialize (H k' Hle). simpl in H. rewrite Z.eqb_refl in H. discriminate H.
      * apply IHl. intros x Hx.
        assert (Hk : k < k').
        { destruct (Z_lt_le_dec k k') as [Hlt|Hle]; [exact Hlt|].
          specialize (H k' Hle). simpl in H. rewrite Z.eqb_refl in H. discriminate H. }
        specialize (H x Hx). simpl in H.
        destruct (Z.eqb_spec x k') as [E|E]; [lia | exact H].
    + intros H x Hx. inversion H as [|i l0 Hk Hl]; subst. simpl in Hk. simpl.
      destruct (Z.eqb_spec x k') as [E|E]; [lia|].
      apply IHl; assumption.
Qed.

Lemma sorted_cons_iff : forall k v l,
  keys_sorted ((k, v) :: l) <-> keys_sorted l /\ lb k l.
Proof.
  intros k v l. unfold MergeSpec.keys_sorted. simpl. split.
  - intros H. inversion H as [|a l0 Hs Hf]; subst. split; [exact Hs|].
    apply lb_Forall. rewrite Forall_map in Hf. exact Hf.
  - intros [Hs Hl]. constructor; [exact Hs|].
    rewrite Forall_map. apply lb_Forall. exact Hl.
Qed.

Lemma sorted_nil : keys_sorted [].
Proof. unfold MergeSpec.keys_sorted. simpl. constructor. Qed.

Lemma lookup_some_in : forall l k v, lookup l k = Some v -> In (k, v) l.
Proof.
  induction l as [|[k' v'] l IHl]; intros k v H; simpl in H; [discriminate H|].
  destruct (Z.eqb_spec k k') as [E|E].
  - inversion H; subst. left; reflexivity.
  - right. apply IHl. exact H.
Qed.

Lemma in_lookup : forall l k v, keys_sorted l -> In (k, v) l -> lookup l k = Some v.
Proof.
  induction l as [|[k' v'] l IHl]; intros k v Hs Hin; [destruct Hin|].
  apply sorted_cons_iff in Hs. destruct Hs as [Hs Hl].
  simpl. destruct Hin as [E|Hin].
  - inversion E; subst. rewrite Z.eqb_refl. reflexivity.
  - pose proof (IHl k v Hs Hin) as Hk.
    destruct (Z.eqb_spec k k') as [E|E]; [|exact Hk].
    subst k'. rewrite (Hl k) in Hk by lia. discriminate Hk.
Qed.

Lemma lookup_ext : forall l l', keys_sorted l -> keys_sorted l' ->
  (forall k, lookup l k = lookup l' k) -> l = l'.
Proof.
  induction l as [|[a va] l IHl]; intros [|[b vb] l'] Hs Hs' H.
  - reflexivity.
  - specialize (H b). simpl in H. rewrite Z.eqb_refl in H. discriminate H.
  - specialize (H a). simpl in H. rewrite Z.eqb_refl in H. discriminate H.
  - apply sorted_cons_iff in Hs. destruct Hs as [Hs Hl].
    apply sorted_cons_iff in Hs'. destruct Hs' as [Hs' Hl'].
    assert (Eab : a = b).
    { destruct (Z.compare_spec a b) as [E|L|L]; [exact E| |].
      - pose proof (H a) as Ha. simpl in Ha. rewrite Z.eqb_refl in Ha.
        destruct (Z.eqb_spec a b) as [E|E]; [lia|].
        rewrite (Hl' a) in Ha by lia. discriminate Ha.
      - pose proof (H b) as Hb. simpl in Hb. rewrite Z.eqb_refl in Hb.
        destruct (Z.eqb_spec b a) as [E|E]; [lia|].
        rewrite (Hl b) in Hb by lia. discriminate Hb. }
    subst b.
    pose proof (H a) as Ha. simpl in Ha. rewrite Z.eqb_refl in Ha.
    inversion Ha; subst vb. f_equal.
    apply IHl; [exact Hs | exact Hs' |].
    intros x. destruct (Z_le_gt_dec x a) as [Hle|Hgt].
    + rewrite (Hl x Hle), (Hl' x Hle). reflexivity.
    + specialize (H x). simpl in H.
      destruct (Z.eqb_spec x a) as [E|E]; [lia | exact H].
Qed.

(* ------------------------------------------------------------------ *)
(* 2. uniqueness of the merged state                                   *)
(* ------------------------------------------------------------------ *)

(* NOTE.  The statement "forall V o c n r r', merged o c n r -> merged o c n r'
   -> r = r'" for a bare type V (no equality test on V) is classically true but
   not provable axiom-free: with lookup o k = Some z, lookup c k = Some a,
   lookup n k = Some b, lookup r k = Some w, lookup r' k = Some w' the hypotheses
   only give (z <> a -> w = a /\ w' = a) and (~ z <> a -> w = b /\ w' = b), i.e.
   ~ ~ w = w'; a three-world Kripke model (root below one world forcing z <> a
   and one forcing z = a) refutes w = w'.  What is provable is uniqueness for
   any V whose equality is ~~-stable, in particular for any V with a boolean
   equality ([merged_unique_partial], which is what the C07 section offers). *)
Lemma merged_unique_stable :
  (forall a b : V, ~ a <> b -> a = b) ->
  forall o c n r r' : list item, merged o c n r -> merged o c n r' -> r = r'.
Proof.
  intros stab o c n r r' [Hs Hr] [Hs' Hr'].
  apply lookup_ext; [exact Hs | exact Hs' |].
  intros k.
  assert (ostab : forall a b : option V, ~ a <> b -> a = b).
  { intros [a|] [b|] Hab.
    - f_equal. apply stab. intros Hne. apply Hab. congruence.
    - exfalso. apply Hab. discriminate.
    - exfalso. apply Hab. discriminate.
    - reflexivity. }
  apply ostab. intros Hne.
  destruct (Hr k) as [Ha Hb]. destruct (Hr' k) as [Ha' Hb'].
  assert (Hnn : ~ ~ (touched o c k \/ ~ touched o c k)) by tauto.
  apply Hnn. intros [t|t]; apply Hne.
  - rewrite (Ha t), (Ha' t). reflexivity.
  - rewrite (Hb t), (Hb' t). reflexivity.
Qed.

Lemma veq_stable : forall a b : V, ~ a <> b -> a = b.
Proof.
  intros a b H. destruct (veq a b) eqn:E.
  - apply veq_spec. exact E.
  - exfalso. apply H. intros Hab. apply veq_spec in Hab. congruence.
Qed.

Lemma merged_unique_partial :
  forall o c n r r' : list item, merged o c n r -> merged o c n r' -> r = r'.
Proof. exact (merged_unique_stable veq_stable). Qed.

Lemma opt_dec : forall a b : option V, a = b \/ a <> b.
Proof.
  intros [a|] [b|].
  - destruct (veq a b) eqn:E.
    + left. f_equal. apply veq_spec. exact E.
    + right. intros H. inversion H as [Hab]. apply veq_spec in Hab. congruence.
  - right; discriminate.
  - right; discriminate.
  - left; reflexivity.
Qed.

Lemma touched_dec : forall o c k, touched o c k \/ ~ touched o c k.
Proof.
  intros o c k. unfold MergeSpec.touched.
  destruct (opt_dec (lookup o k) (lookup c k)) as [E|E]; [right | left]; tauto.
Qed.

(* ------------------------------------------------------------------ *)
(* 3. the walk invariant                                               *)
(* ------------------------------------------------------------------ *)

Definition T (o c n : list item) : Prop :=
  forall k, ~ (touched o c k /\ touched o n k).

(* the guard for a suffix state: the min_raised clauses only bind a side
   whose cursor has not moved yet *)
Definition G (o c n : list item) (pc pn : nat) : Prop :=
  T o c n /\
  (pn = 0%nat -> n <> [] -> ~ min_raised o n) /\
  (pc = 0%nat -> c <> [] -> ~ min_raised o c).

Definition Q (res : mres V) (o c n : list item) (pc pn : nat) (acc : list item) : Prop :=
  match res with
  | MOk r => G o c n pc pn /\ exists m, r = rev acc ++ m /\ merged o c n m
  | MConflict _ _ _ reason => ~ G o c n pc pn /\ reason <> 10
  | MFuel => False
  end.

Lemma Q_step : forall res o c n pc pn acc o1 c1 n1 pc1 pn1 acc1 out,
  Q res o1 c1 n1 pc1 pn1 acc1 ->
  (G o c n pc pn <-> G o1 c1 n1 pc1 pn1) ->
  (forall m, merged o1 c1 n1 m -> merged o c n (out ++ m)) ->
  rev acc1 = rev acc ++ out ->
  Q res o c n pc pn acc.
Proof.
  intros res o c n pc pn acc o1 c1 n1 pc1 pn1 acc1 out HQ HG Hm Hacc.
  destruct res as [r|p1 p2 p3 reason|]; simpl in *.
  - destruct HQ as [HG1 [m [Hr Hmm]]]. split; [tauto|].
    exists (out ++ m). split; [|apply Hm; exact Hmm].
    rewrite Hr, Hacc, <- app_assoc. reflexivity.
  - tauto.
  - exact HQ.
Qed.

(* rewrite lookups below a lower bound to None *)
Ltac lk :=
  repeat match goal with
  | H : lb ?k ?l |- context [MergeSpec.lookup V ?l ?x] => rewrite (H x) by lia
  | H : lb ?k ?l, H' : context [MergeSpec.lookup V ?l ?x] |- _ => rewrite (H x) in H' by lia
  end.

(* decide every key test in the goal / in a hypothesis *)
Ltac eqbs :=
  repeat match goal with
  | |- context [Z.eqb ?a ?b] => destruct (Z.eqb_spec a b); try (exfalso; lia)
  | H : context [Z.eqb ?a ?b] |- _ => destruct (Z.eqb_spec a b); try (exfalso; lia)
  end.

Ltac vfacts :=
  repeat match goal with
  | H : veq ?a ?b = true |- _ => apply veq_spec in H
  | H : veq ?a ?b = false |- _ =>
      assert (a <> b) by (let E := fresh in intros E; apply veq_spec in E; congruence);
      clear H
  end.

(* both sides touched key k *)
Ltac conflict_at HT k :=
  apply (HT k); unfold MergeSpec.touched; simpl; eqbs; lk; split; congruence.

Lemma merged_nil_c : forall c, keys_sorted c -> merged [] c [] c.
Proof.
  intros c Hs. split; [exact Hs|]. intros k. split; [reflexivity|].
  unfold MergeSpec.touched. simpl. intros H.
  destruct (lookup c k) as [v|]; [|reflexivity]. exfalso. apply H. discriminate.
Qed.

Lemma merged_nil_n : forall n, keys_sorted n -> merged [] [] n n.
Proof.
  intros n Hs. split; [exact Hs|]. intros k. split; [|reflexivity].
  unfold MergeSpec.touched. simpl. intros H. exfalso. apply H. reflexivity.
Qed.

Lemma G_nil_o : forall c n pc pn, T [] c n -> G [] c n pc pn.
Proof. intros c n pc pn HT. split; [exact HT|]. split; intros _ _; simpl; tauto. Qed.

Ltac solve_T HT :=
  let x := fresh "x" in
  intros x; specialize (HT x); revert HT; unfold MergeSpec.touched; simpl;
  eqbs; lk; intuition congruence.

Ltac solve_M H :=
  let Hp := fresh "Hp" in let Hne := fresh "Hne" in
  intros Hp Hne;
  first [ lia | congruence | simpl; lia | simpl; tauto | apply H; assumption ].

Ltac solve_G :=
  let HT := fresh "HT" in let H2 := fresh "H2" in let H3 := fresh "H3" in
  unfold G; split; intros (HT & H2 & H3);
  (split; [solve_T HT | split; [solve_M H2 | solve_M H3]]).

Ltac solve_merged :=
  let m := fresh "m" in let Hs := fresh "Hs" in let Hm := fresh "Hm" in
  let x := fresh "x" in let Hx := fresh "Hx" in
  let Ha := fresh "Ha" in let Hb := fresh "Hb" in let t := fresh "t" in
  intros m [Hs Hm]; cbn [app]; split;
  [ first
      [ exact Hs
      | apply sorted_cons_iff; split; [exact Hs|];
        intros x Hx; destruct (Hm x) as [Ha Hb];
        match type of Ha with
        | MergeSpec.touched V ?o1 ?c1 _ -> _ =>
          destruct (touched_dec o1 c1 x) as [t|t]
        end;
        [rewrite (Ha t) | rewrite (Hb t)]; simpl; eqbs; lk; reflexivity ]
  | intros x; destruct (Hm x) as [Ha Hb]; clear Hm;
    unfold MergeSpec.touched in *; simpl in Ha, Hb |- *;
    eqbs; lk; intuition congruence ].

Ltac step_with IH out0 :=
  eapply Q_step with (out := out0);
  [ apply IH; [assumption | assumption | assumption | simpl in *; lia]
  | solve_G
  | solve_merged
  | simpl; rewrite ?app_nil_r, <- ?app_assoc; reflexivity ].

Lemma merge3_spec : forall fuel o c n po pc pn acc,
  keys_sorted o -> keys_sorted c -> keys_sorted n ->
  (length o + length c + length n < fuel)%nat ->
  Q (merge3 V veq fuel o c n po pc pn acc) o c n pc pn acc.
Proof.
  induction fuel as [|f IH]; intros o c n po pc pn acc So0 Sc0 Sn0 Hlen; [lia|].
  destruct o as [|[k1 v1] o']; destruct c as [|[k2 v2] c']; destruct n as [|[k3 v3] n'].
  - (* [] [] [] *)
    simpl. split.
    + apply G_nil_o. intros k [H _]. apply H. reflexivity.
    + exists []. split; [reflexivity | apply merged_nil_n; exact Sn0].
  - (* [] [] n *)
    simpl. split.
    + apply G_nil_o. intros k [H _]. apply H. reflexivity.
    + exists ((k3, v3) :: n'). split; [reflexivity | apply merged_nil_n; exact Sn0].
  - (* [] c [] *)
    simpl. split.
    + apply G_nil_o. intros k [_ H]. apply H. reflexivity.
    + exists ((k2, v2) :: c'). split; [reflexivity | apply merged_nil_c; exact Sc0].
  - (* [] c n *)
    pose proof Sc0 as Sc. apply sorted_cons_iff in Sc. destruct Sc as [Sc Lc].
    pose proof Sn0 as Sn. apply sorted_cons_iff in Sn. destruct Sn as [Sn Ln].
    cbn [merge3].
    destruct (Z.compare_spec k2 k3) as [E23|L23|L23].
    + subst k3. split; [|lia]. intros (HT & _ & _). conflict_at HT k2.
    + step_with IH [(k2, v2)].
    + step_with IH [(k3, v3)].
  - (* o [] [] *)
    pose proof So0 as So. apply sorted_cons_iff in So. destruct So as [So Lo].
    cbn [merge3]. split; [|lia]. intros (HT & _ & _). conflict_at HT k1.
  - (* o [] n *)
    pose proof So0 as So. apply sorted_cons_iff in So. destruct So as [So Lo].
    pose proof Sn0 as Sn. apply sorted_cons_iff in Sn. destruct Sn as [Sn Ln].
    cbn [merge3].
    destruct (Z.compare_spec k1 k3) as [E13|L13|L13].
    + subst k3. destruct (veq v1 v3) eqn:V13; vfacts.
      * step_with IH (@nil item).
      * split; [|lia]. intros (HT & _ & _). conflict_at HT k1.
    + split; [|lia]. intros (HT & _ & _). conflict_at HT k1.
    + step_with IH [(k3, v3)].
  - (* o c [] *)
    pose proof So0 as So. apply sorted_cons_iff in So. destruct So as [So Lo].
    pose proof Sc0 as Sc. apply sorted_cons_iff in Sc. destruct Sc as [Sc Lc].
    cbn [merge3].
    destruct (Z.compare_spec k1 k2) as [E12|L12|L12].
    + subst k2. destruct (veq v1 v2) eqn:V12; vfacts.
      * step_with IH (@nil item).
      * split; [|lia]. intros (HT & _ & _). conflict_at HT k1.
    + split; [|lia]. intros (HT & _ & _). conflict_at HT k1.
    + step_with IH [(k2, v2)].
  - (* o c n *)
    pose proof So0 as So. apply sorted_cons_iff in So. destruct So as [So Lo].
    pose proof Sc0 as Sc. apply sorted_cons_iff in Sc. destruct Sc as [Sc Lc].
    pose proof Sn0 as Sn. apply sorted_cons_iff in Sn. destruct Sn as [Sn Ln].
    cbn [merge3].
    destruct (Z.compare_spec k1 k2) as [E12|L12|L12];
      destruct (Z.compare_spec k1 k3) as [E13|L13|L13].
    + (* Eq Eq *)
      subst k2 k3. destruct (veq v1 v2) eqn:V12; vfacts.
      * step_with IH [(k1, v3)].
      * destruct (veq v1 v3) eqn:V13; vfacts.
        -- step_with IH [(k1, v2)].
        -- split; [|lia]. intros (HT & _ & _). conflict_at HT k1.
    + (* Eq Lt *)
      subst k2. destruct (veq v1 v2) eqn:V12; vfacts.
      * destruct (Nat.eqb_spec pn 0) as [Pn|Pn].
        -- split; [|lia]. intros (_ & H2 & _).
           apply H2; [exact Pn | discriminate | simpl; lia].
        -- step_with IH (@nil item).
      * split; [|lia]. intros (HT & _ & _). conflict_at HT k1.
    + (* Eq Gt *)
      subst k2. step_with IH [(k3, v3)].
    + (* Lt Eq *)
      subst k3. destruct (veq v1 v3) eqn:V13; vfacts.
      * destruct (Nat.eqb_spec pc 0) as [Pc|Pc].
        -- split; [|lia]. intros (_ & _ & H3).
           apply H3; [exact Pc | discriminate | simpl; lia].
        -- step_with IH (@nil item).
      * split; [|lia]. intros (HT & _ & _). conflict_at HT k1.
    + (* Lt Lt *)
      destruct (Z.compare_spec k2 k3) as [E23|L23|L23];
        (split; [|lia]); intros (HT & _ & _); conflict_at HT k1.
    + (* Lt Gt *)
      destruct (Z.compare_spec k2 k3) as [E23|L23|L23]; try (exfalso; lia).
      step_with IH [(k3, v3)].
    + (* Gt Eq *)
      subst k3. step_with IH [(k2, v2)].
    + (* Gt Lt *)
      destruct (Z.compare_spec k2 k3) as [E23|L23|L23]; try (exfalso; lia).
      step_with IH [(k2, v2)].
    + (* Gt Gt *)
      destruct (Z.compare_spec k2 k3) as [E23|L23|L23].
      * subst k3. split; [|lia]. intros (HT & _ & _). conflict_at HT k2.
      * step_with IH [(k2, v2)].
      * step_with IH [(k3, v3)].
Qed.

(* ------------------------------------------------------------------ *)
(* 4. bucket_resolve                                                   *)
(* ------------------------------------------------------------------ *)

Lemma onext_eqb_spec : forall a b, onext_eqb a b = true <-> a = b.
Proof.
  intros [x|] [y|]; simpl; split; intros H; try discriminate H; try reflexivity.
  - apply Z.eqb_eq in H. subst; reflexivity.
  - inversion H; subst. apply Z.eqb_refl.
Qed.

Lemma is_nil_spec : forall (l : list item), is_nil l = true <-> l = [].
Proof. intros [|i l]; simpl; split; intros H; try reflexivity; discriminate H. Qed.

(* under the guard the merged state is never empty: reason 10 cannot fire *)
Lemma merged_nonempty : forall o c n m,
  keys_sorted o -> c <> [] -> n <> [] -> T o c n ->
  ~ min_raised o c -> ~ min_raised o n -> merged o c n m -> m <> [].
Proof.
  intros o c n m So Hc Hn HT Mc Mn [_ Hm].
  assert (Hex : exists k v, lookup m k = Some v).
  { destruct c as [|[k2 v2] c']; [congruence|].
    destruct n as [|[k3 v3] n']; [congruence|].
    destruct o as [|[k1 v1] o'].
    - exists k2, v2. rewrite (proj1 (Hm k2)).
      + simpl. rewrite Z.eqb_refl. reflexivity.
      + unfold MergeSpec.touched. simpl. rewrite Z.eqb_refl. discriminate.
    - simpl in Mc, Mn. apply sorted_cons_iff in So. destruct So as [So Lo].
      destruct (Z.eq_dec k2 k1) as [E2|E2].
      + destruct (Z.eq_dec k3 k1) as [E3|E3].
        * subst k2 k3. destruct (touched_dec ((k1, v1) :: o') ((k1, v2) :: c') k1) as [t|t].
          -- exists k1, v2. rewrite (proj1 (Hm k1) t). simpl. rewrite Z.eqb_refl. reflexivity.
          -- exists k1, v3. rewrite (proj2 (Hm k1) t). simpl. rewrite Z.eqb_refl. reflexivity.
        * exists k3, v3.
          assert (tn : touched ((k1, v1) :: o') ((k3, v3) :: n') k3).
          { unfold MergeSpec.touched. simpl. rewrite Z.eqb_refl.
            destruct (Z.eqb_spec k3 k1) as [E|E]; [lia|].
            rewrite (Lo k3) by lia. discriminate. }
          assert (tc : ~ touched ((k1, v1) :: o') ((k2, v2) :: c') k3).
          { intros tc. apply (HT k3). split; assumption. }
          rewrite (proj2 (Hm k3) tc). simpl. rewrite Z.eqb_refl. reflexivity.
      + exists k2, v2. rewrite (proj1 (Hm k2)).
        * simpl. rewrite Z.eqb_refl. reflexivity.
        * unfold MergeSpec.touched. simpl. rewrite Z.eqb_refl.
          destruct (Z.eqb_spec k2 k1) as [E|E]; [lia|].
          rewrite (Lo k2) by lia. discriminate. }
  destruct Hex as [k [v Hk]]. intros Hnil. subst m. simpl in Hk. discriminate Hk.
Qed.

Lemma bucket_spec : forall o c n : leafstate V,
  keys_sorted (fst o) -> keys_sorted (fst c) -> keys_sorted (fst n) ->
  match bucket_resolve V veq o c n with
  | ROk (r, x) =>
      guard V o c n /\ x = snd o /\ merged (fst o) (fst c) (fst n) r /\ r <> []
  | RConflict _ _ _ reason => ~ guard V o c n /\ reason <> 10
  | _ => False
  end.
Proof.
  intros [lo xo] [lc xc] [ln xn]. cbn [fst snd]. intros So Sc Sn.
  unfold bucket_resolve, MergeSpec.guard. cbn [fst snd].
  destruct (onext_eqb xo xc) eqn:E1; cbn [andb negb].
  2:{ split; [|lia]. intros (g1 & _). subst xc.
      assert (Ht : onext_eqb xo xo = true) by (apply onext_eqb_spec; reflexivity).
      congruence. }
  destruct (onext_eqb xo xn) eqn:E2; cbn [andb negb].
  2:{ split; [|lia]. intros (_ & g2 & _). subst xn.
      assert (Ht : onext_eqb xo xo = true) by (apply onext_eqb_spec; reflexivity).
      congruence. }
  apply onext_eqb_spec in E1. apply onext_eqb_spec in E2. subst xc xn.
  destruct (is_nil lc) eqn:Nc; cbn [orb].
  { apply is_nil_spec in Nc. split; [|lia]. intros (_ & _ & g3 & _). contradiction. }
  destruct (is_nil ln) eqn:Nn; cbn [orb].
  { apply is_nil_spec in Nn. split; [|lia]. intros (_ & _ & _ & g4 & _). contradiction. }
  assert (Hc : lc <> []).
  { intros H. subst lc. simpl in Nc. discriminate Nc. }
  assert (Hn : ln <> []).
  { intros H. subst ln. simpl in Nn. discriminate Nn. }
  assert (Hfuel : (length lo + length lc + length ln < merge_fuel V lo lc ln)%nat)
    by (unfold merge_fuel; lia).
  pose proof (merge3_spec (merge_fuel V lo lc ln) lo lc ln 0 0 0 [] So Sc Sn Hfuel) as HQ.
  revert HQ.
  destruct (merge3 V veq (merge_fuel V lo lc ln) lo lc ln 0 0 0 []) as [r|p1 p2 p3 reason|];
    cbn [Q]; intros HQ.
  - destruct HQ as [(HT & H2 & H3) [m [Hr Hm]]]. cbn [rev app] in Hr. subst m.
    assert (Mn : ~ min_raised lo ln) by (apply H2; [reflexivity | exact Hn]).
    assert (Mc : ~ min_raised lo lc) by (apply H3; [reflexivity | exact Hc]).
    assert (Hne : r <> []) by (exact (merged_nonempty lo lc ln r So Hc Hn HT Mc Mn Hm)).
    destruct (is_nil r) eqn:Nr.
    + apply is_nil_spec in Nr. contradiction.
    + repeat split; try assumption; try reflexivity.
      * exact (proj1 Hm).
      * apply (proj2 Hm).
      * apply (proj2 Hm).
  - destruct HQ as [HnG Hreason]. split; [|exact Hreason].
    intros (_ & _ & _ & _ & HT & Mc & Mn). apply HnG.
    split; [exact HT|]. split; intros _ _; assumption.
  - exact HQ.
Qed.

Lemma resolve_exact : forall o c n : leafstate V,
  keys_sorted (fst o) /\ keys_sorted (fst c) /\ keys_sorted (fst n) ->
  ((exists s, bucket_resolve V veq o c n = ROk s) <-> guard V o c n).
Proof.
  intros o c n (So & Sc & Sn).
  pose proof (bucket_spec o c n So Sc Sn) as H.
  destruct (bucket_resolve V veq o c n) as [[r x]|p1 p2 p3 reason| |].
  - split; [intros _; tauto | intros _; exists (r, x); reflexivity].
  - split; [intros [s Hs]; discriminate Hs | intros Hg; exfalso; tauto].
  - destruct H.
  - destruct H.
Qed.

Lemma resolve_result : forall (o c n : leafstate V) r x,
  keys_sorted (fst o) /\ keys_sorted (fst c) /\ keys_sorted (fst n) ->
  bucket_resolve V veq o c n = ROk (r, x) ->
  x = snd o /\ merged (fst o) (fst c) (fst n) r /\ r <> [].
Proof.
  intros o c n r x (So & Sc & Sn) Hres.
  pose proof (bucket_spec o c n So Sc Sn) as H. rewrite Hres in H. tauto.
Qed.

Lemma resolve_no_invention : forall (o c n : leafstate V) r x k v,
  keys_sorted (fst o) /\ keys_sorted (fst c) /\ keys_sorted (fst n) ->
  bucket_resolve V veq o c n = ROk (r, x) ->
  (In (k, v) r -> In (k, v) (fst c) \/ In (k, v) (fst n)) /\
  (In (k, v) (fst o) -> In (k, v) (fst c) -> In (k, v) (fst n) -> In (k, v) r).
Proof.
  intros o c n r x k v (So & Sc & Sn) Hres.
  pose proof (bucket_spec o c n So Sc Sn) as H. rewrite Hres in H.
  destruct H as (_ & _ & [Hs Hm] & _). destruct (Hm k) as [Ha Hb]. split.
  - intros Hin. apply (in_lookup r k v Hs) in Hin.
    destruct (touched_dec (fst o) (fst c) k) as [t|t].
    + left. apply lookup_some_in. rewrite <- (Ha t). exact Hin.
    + right. apply lookup_some_in. rewrite <- (Hb t). exact Hin.
  - intros Io Ic In_. apply lookup_some_in.
    apply (in_lookup _ k v So) in Io. apply (in_lookup _ k v Sc) in Ic.
    apply (in_lookup _ k v Sn) in In_.
    rewrite Hb; [exact In_|]. unfold MergeSpec.touched. intros t. apply t. congruence.
Qed.

Lemma resolve_refusal : forall o c n : leafstate V,
  keys_sorted (fst o) /\ keys_sorted (fst c) /\ keys_sorted (fst n) ->
  ~ guard V o c n ->
  exists p1 p2 p3 reason,
    bucket_resolve V veq o c n = RConflict p1 p2 p3 reason /\ reason <> 10.
Proof.
  intros o c n (So & Sc & Sn) Hng.
  pose proof (bucket_spec o c n So Sc Sn) as H.
  destruct (bucket_resolve V veq o c n) as [[r x]|p1 p2 p3 reason| |].
  - exfalso. tauto.
  - exists p1, p2, p3, reason. split; [reflexivity | tauto].
  - destruct H.
  - destruct H.
Qed.

End MergeProofs.

(* ------------------------------------------------------------------ *)
(* 5. tree level (no hypothesis on veq)                                *)
(* ------------------------------------------------------------------ *)

Lemma tree_level : forall (V : Type) (veq : V -> V -> bool) (o c n : tstate V),
  (forall so sc sn,
     get_bucket_state V o = GState V so -> get_bucket_state V c = GState V sc ->
     get_bucket_state V n = GState V sn ->
     tree_resolve V veq o c n = bucket_resolve V veq so sc sn) /\
  ((o = TMulti \/ c = TMulti \/ n = TMulti) -> o <> TBad -> c <> TBad -> n <> TBad ->
     tree_resolve V veq o c n = RConflict (-1) (-1) (-1) 11).
Proof.
  intros V veq o c n. split.
  - intros so sc sn Ho Hc Hn. unfold tree_resolve. rewrite Ho, Hc, Hn. reflexivity.
  - intros Hm Ho Hc Hn. unfold tree_resolve.
    destruct o as [|so| |]; cbn [get_bucket_state]; try reflexivity; try congruence;
      destruct c as [|sc| |]; cbn [get_bucket_state]; try reflexivity; try congruence;
        destruct n as [|sn| |]; cbn [get_bucket_state]; try reflexivity; try congruence;
          exfalso; destruct Hm as [Hm|[Hm|Hm]]; discriminate Hm.
Qed.
