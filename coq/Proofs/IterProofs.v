From Coq Require Import ZArith List Bool Arith Lia.
From BT Require Import Model.Iter.
Import ListNotations.

Section IterProofs.
Variable V : Type.

(* one step of the iterator on an arbitrary store: never out of bounds, the
   entry it yields is an element of the leaf it is parked on, and the pointer
   it keeps is again a leaf of the store *)
Lemma next_total (s : lstore V) (it : iter) :
  closed V s -> holds V s it ->
  let '(r, it') := iter_next V s it in
  r <> SOob V /\ holds V s it' /\
  (forall kv, r = SEntry V kv ->
     exists b items nxt, i_cur it = Some b /\ lget V s b = Some (items, nxt) /\
                         nth_error items (i_off it) = Some kv).
Proof.
  intros Hc Hh. unfold iter_next, holds in *.
  destruct (i_cur it) as [b|] eqn:Ecur.
  - destruct (lget V s b) as [[items nxt]|] eqn:Eg; [|exfalso; apply Hh; reflexivity].
    destruct (i_broken it || (length items <=? i_off it)%nat) eqn:Ebr.
    + cbn. split; [discriminate|]. split; [rewrite Eg; discriminate|]. intros kv H; discriminate.
    + apply orb_false_iff in Ebr. destruct Ebr as [_ Hlen]. apply Nat.leb_gt in Hlen.
      destruct (nth_error items (i_off it)) as [kv|] eqn:En.
      2:{ apply nth_error_None in En. lia. }
      destruct (Nat.eqb b (i_last it) && (i_lastoff it <=? i_off it)%nat).
      * cbn. split; [discriminate|]. split; [exact I|].
        intros kv' H. injection H as <-. exists b, items, nxt. auto.
      * destruct (length items <=? S (i_off it))%nat.
        -- cbn. split; [discriminate|]. split.
           ++ specialize (Hc b items nxt Eg). destruct nxt; [exact Hc|exact I].
           ++ intros kv' H. injection H as <-. exists b, items, nxt. auto.
        -- cbn. rewrite Eg. split; [discriminate|]. split; [discriminate|].
           intros kv' H. injection H as <-. exists b, items, nxt. auto.
  - cbn. split; [discriminate|]. split; [rewrite Ecur; exact I|]. intros kv H; discriminate.
Qed.

(* any number of steps, whatever happens to the store in between (as long as
   the leaves the iterator can reach stay alive) *)
Fixpoint run (stores : list (lstore V)) (it : iter) : list (stepres V) :=
  match stores with
  | [] => []
  | s :: rest => let '(r, it') := iter_next V s it in r :: run rest it'
  end.

Lemma run_never_oob (stores : list (lstore V)) :
  forall it,
  (forall s, In s stores -> closed V s) ->
  (* a leaf that exists in one store exists in all later ones (references keep it alive) *)
  (forall pre s post, stores = pre ++ s :: post -> forall i, lget V s i <> None ->
        forall s', In s' post -> lget V s' i <> None) ->
  match stores with s :: _ => holds V s it | [] => True end ->
  ~ In (SOob V) (run stores it).
Proof.
  induction stores as [|s rest IH]; intros it Hc Hk Hh; cbn [run]; [intros []|].
  pose proof (next_total s it (Hc s (or_introl eq_refl)) Hh) as Hn.
  destruct (iter_next V s it) as [r it'] eqn:En. destruct Hn as (Hr & Hh' & _).
  intros [H|H]; [congruence|].
  revert H. apply IH.
  - intros s' Hs'. apply Hc. right; exact Hs'.
  - intros pre s0 post E i Hi s' Hs'. apply (Hk (s :: pre) s0 post); [rewrite E; reflexivity|exact Hi|exact Hs'].
  - destruct rest as [|s1 rest']; [exact I|].
    unfold holds in *. destruct (i_cur it') as [b|]; [|exact I].
    apply (Hk [] s (s1 :: rest') eq_refl b Hh' s1). left; reflexivity.
Qed.

(* the lazy sequence: whatever position seek computed, the entry is read only
   after it has been validated against the current leaf *)
Lemma seek_validated_in_bounds (s : lstore V) (target : option (nat * nat)) b off :
  seek_validate V s target = KOk b off -> exists kv, read_at V s b off = Some kv.
Proof.
  unfold seek_validate, read_at. destruct target as [[b' off']|]; [|discriminate].
  destruct (lget V s b') as [[items nxt]|] eqn:Eg; [|discriminate].
  destruct (off' <? length items)%nat eqn:El; [|discriminate].
  intros H. injection H as <- <-. rewrite Eg. apply Nat.ltb_lt in El.
  destruct (nth_error items off') eqn:En; [eauto|]. apply nth_error_None in En. lia.
Qed.
End IterProofs.
