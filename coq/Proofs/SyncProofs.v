(* SyncProofs -- C05 (a): after an insertion / deletion every stored, unchanged
   node still equals its record (synced is preserved), and C08: writes declare
   every interior node of their descent path as read, reads are silent.
   Built on FootprintProofs (the internal "old, fresh or marked" lemmas).
   No axioms. *)
From Coq Require Import ZArith List Bool Arith Lia.
From BT Require Import Model.RTree Model.TreeSpec Model.TreeRun Model.Check Model.CheckTree
     Model.Persist Model.PersistSpec
     Proofs.TreeBase Proofs.TreeSetProofs Proofs.TreeDelProofs Proofs.FootprintProofs.
Import ListNotations.
Local Open Scope nat_scope.

(* ================================================================== *)
(* 1. registration: what apply_events does to p_stored / p_changed     *)
(* ================================================================== *)
Lemma mem_add_same : forall i l, mem i (add i l) = true.
Proof.
  intros i l. unfold add. destruct (mem i l) eqn:E; [exact E|].
  simpl. rewrite Nat.eqb_refl. reflexivity.
Qed.
Lemma mem_add_mono : forall i j l, mem i l = true -> mem i (add j l) = true.
Proof.
  intros i j l H. unfold add. destruct (mem j l); [exact H|].
  simpl. rewrite H. apply orb_true_r.
Qed.

Lemma apply_event_stored : forall isC p e, p_stored (apply_event isC p e) = p_stored p.
Proof.
  intros isC p e. destruct e as [i|i|i|i l]; simpl.
  - destruct (mem i (p_stored p)); reflexivity.
  - destruct (mem i (p_stored p) && (negb isC || negb (mem i (p_changed p)))); reflexivity.
  - reflexivity.
  - destruct (negb (mem l (p_stored p)) && mem i (p_stored p)); reflexivity.
Qed.
Lemma apply_event_mono : forall isC p e x,
  mem x (p_changed p) = true -> mem x (p_changed (apply_event isC p e)) = true.
Proof.
  intros isC p e x H. destruct e as [i|i|i|i l]; simpl.
  - destruct (mem i (p_stored p)); [simpl; apply mem_add_mono|]; exact H.
  - destruct (mem i (p_stored p) && (negb isC || negb (mem i (p_changed p)))); exact H.
  - exact H.
  - destruct (negb (mem l (p_stored p)) && mem i (p_stored p)); [simpl; apply mem_add_mono|]; exact H.
Qed.

Lemma apply_events_stored : forall isC evs p, p_stored (apply_events isC p evs) = p_stored p.
Proof.
  intros isC. unfold apply_events. induction evs as [|e r IH]; intros p; [reflexivity|].
  simpl. rewrite IH. apply apply_event_stored.
Qed.
Lemma apply_events_mono : forall isC evs p x,
  mem x (p_changed p) = true -> mem x (p_changed (apply_events isC p evs)) = true.
Proof.
  intros isC. unfold apply_events. induction evs as [|e r IH]; intros p x H; [exact H|].
  simpl. apply IH. apply apply_event_mono. exact H.
Qed.

Lemma apply_events_marked : forall isC evs p i,
  mem i (p_stored p) = true -> marked (p_stored p) evs i ->
  mem i (p_changed (apply_events isC p evs)) = true.
Proof.
  intros isC. induction evs as [|e r IH]; intros p i Hs M.
  - destruct M as [M|(l & M & _)]; contradiction.
  - change (apply_events isC p (e :: r)) with (apply_events isC (apply_event isC p e) r).
    assert (Now : (e = EChanged i \/ exists l, e = EEmbed i l /\ mem l (p_stored p) = false) \/
                  marked (p_stored p) r i).
    { destruct M as [[M|M]|(l & [M|M] & Hl)].
      - left. left. exact M.
      - right. left. exact M.
      - left. right. exists l. split; assumption.
      - right. right. exists l. split; assumption. }
    destruct Now as [[->|(l & -> & Hl)]|M'].
    + apply apply_events_mono. simpl. rewrite Hs. simpl. apply mem_add_same.
    + apply apply_events_mono. simpl. rewrite Hl, Hs. simpl. apply mem_add_same.
    + apply IH; rewrite apply_event_stored; assumption.
Qed.

(* ================================================================== *)
(* 2. find_node finds every subtree                                    *)
(* ================================================================== *)
Section Find.
Variable V : Type.
Notation tree := (tree V).

Lemma find_node_complete : forall (t : tree) i, In i (ids V t) -> exists m, find_node V t i = Some m.
Proof.
  induction t as [j l|j kids IH] using (tree_ind' V); intros i H.
  - simpl in H. destruct H as [->|[]]. exists (Leaf i l). simpl. rewrite Nat.eqb_refl. reflexivity.
  - simpl. destruct (Nat.eqb j i) eqn:E; [eexists; reflexivity|].
    simpl in H. destruct H as [->|H]; [rewrite Nat.eqb_refl in E; discriminate|]. clear E.
    induction IH as [|[s c] r Hc _ IH2]; [contradiction|].
    simpl in H. apply in_app_or in H. simpl in Hc.
    destruct (find_node V c i) as [x|] eqn:F; [eexists; reflexivity|].
    destruct H as [H|H]; [destruct (Hc i H) as (m & Hm); congruence|].
    apply IH2. exact H.
Qed.

Lemma find_node_sub : forall (t n : tree), NoDup (ids V t) -> In n (subs V t) ->
  find_node V t (tid V n) = Some n.
Proof.
  intros t n ND Hn. destruct (find_node_complete t (tid V n) (subs_ids V t n Hn)) as (m & Hm).
  rewrite Hm. f_equal. destruct (find_node_subs V t _ m Hm) as [Sm Tm].
  eapply subs_unique; eassumption.
Qed.
End Find.

(* ================================================================== *)
(* 3. positive footprint of tset: a stored node of the result is marked *)
(*    or is an old node with the same record                            *)
(* ================================================================== *)
Section SyncSet.
Variable V : Type.
Variable veq : V -> V -> bool.
Variable vs : bool.
Variables ml mi : nat.
Hypothesis Hml : 1 <= ml.
Hypothesis Hmi : 2 <= mi.
Variable stored : list nat.
Notation tree := (tree V).

Lemma set_positive : forall fresh (t : tree) k v iu,
  Inv V ml mi t -> ids_ok V fresh t -> no_embed_below V true stored t ->
  (forall x, mem x stored = true -> x < fresh) ->
  let r := tset V veq vs ml mi fresh t k v iu in
  forall i n', mem i stored = true -> find_node V (s_tree r) i = Some n' ->
    marked stored (s_ev r) i \/
    exists n, find_node V t i = Some n /\ getstate V stored t n = getstate V stored (s_tree r) n'.
Proof.
  intros fresh t k v iu HI [ND Hlt] Hg Hst r i n' Hi Fn'.
  rewrite Forall_forall in Hlt.
  destruct (Inv_inv _ _ _ _ HI) as (i0 & kids & -> & [->|[Hlen Wt]]).
  - (* empty root *)
    left. unfold r in *. simpl in Fn'. simpl.
    destruct (i0 =? i) eqn:E.
    + apply Nat.eqb_eq in E. subst i0. right. exists fresh. split; [simpl; auto|].
      destruct (mem fresh stored) eqn:Em; [|reflexivity]. apply Hst in Em. lia.
    + destruct (fresh =? i) eqn:E2; [|discriminate]. apply Nat.eqb_eq in E2.
      apply Hst in Hi. lia.
  - set (t := Node i0 kids) in *.
    assert (Hpre : fset_pre V ml mi stored t).
    { split; [simpl; lia|]. split; [eapply WFbody_szb; exact Wt|]. apply (no_embed_nemb _ _ _ _ Hg). }
    destruct (fset_ok_all V ml mi Hml Hmi veq vs stored t fresh k v iu Hpre)
      as (P1 & P2 & P3 & P4 & P5 & P6 & P7 & P8 & P9).
    fold r in P1, P2, P3, P4, P5, P6, P7, P8, P9.
    apply find_node_subs in Fn'. destruct Fn' as [Sn' Tn'].
    destruct (P9 n' Sn') as [(n & Sn & T0 & Sh)|[H|H]];
      [|exfalso; apply Hst in Hi; lia | left; rewrite <- Tn'; exact H].
    assert (Tn : tid V n = i) by congruence.
    assert (Fn : find_node V t i = Some n) by (rewrite <- Tn; apply find_node_sub; assumption).
    assert (Hsucc : forall y, In y (leaf_ids V t) ->
              succ_of (leaf_ids V t) y = succ_of (leaf_ids V (s_tree r)) y \/ In (EChanged y) (s_ev r)).
    { apply (Rs_succ ml mi Hml Hmi _ _ _ _ _ P5); [apply lids_NoDup; exact ND|].
      intros y Hy. apply Hlt. apply lids_in_ids. exact Hy. }
    destruct n as [j l|j nk].
    + (* a leaf *)
      simpl in Tn. subst j.
      destruct (Hsucc i (leaf_in_lids _ _ _ _ Sn)) as [Hs|Hs]; [|left; left; exact Hs].
      right. exists (Leaf i l). split; [exact Fn|].
      rewrite !getstate_eq. apply gs_shallow; [exact Sh| |discriminate].
      intros i1 l1 E. injection E as <- <-. rewrite Tn'. exact Hs.
    + (* a node: its record mentions a successor only if it embeds, i.e. it is the root *)
      destruct (embk V stored nk) eqn:Ee.
      * assert (En : Node j nk = t).
        { apply subs_inv in Sn. destruct Sn as [Sn|Sn]; [exact Sn|].
          pose proof (proj2 (proj2 Hpre) _ Sn) as Hc. simpl in Hc. congruence. }
        destruct (embk_inv _ _ _ Ee) as (s & l & items & Ek & Hm).
        assert (Dst : s_st r = StNone \/ s_st r <> StNone)
          by (destruct (s_st r); [left; reflexivity | right; discriminate | right; discriminate]).
        destruct Dst as [Dst|Dst].
        -- right. exists (Node j nk). split; [exact Fn|]. rewrite !getstate_eq, (P7 Dst).
           apply gs_shallow; [exact Sh | discriminate | reflexivity].
        -- left. right. exists l. split; [|exact Hm]. simpl in Tn. subst j.
           unfold r, t. inversion En; subst. apply set_embed_root. exact Dst.
      * right. exists (Node j nk). split; [exact Fn|].
        rewrite !getstate_eq. apply gs_shallow; [exact Sh | discriminate|].
        intros i1 s l items E Hm. inversion E; subst. simpl in Ee. rewrite Hm in Ee. discriminate.
Qed.
End SyncSet.

Theorem sync_set :
  forall (V : Type) (isC : bool) (veq : V -> V -> bool) (vs : bool) (ml mi fresh : nat) (t : tree V) (k : Z) (v : V)
         (ifunset : bool) (p : pstate) (s : store V),
  (1 <= ml)%nat -> (2 <= mi)%nat -> Inv V ml mi t -> ids_ok V fresh t ->
  no_embed_below V true (p_stored p) t ->
  (forall x, mem x (p_stored p) = true -> (x < fresh)%nat) ->
  synced V t p s ->
  let r := tset V veq vs ml mi fresh t k v ifunset in
  synced V (s_tree r) (apply_events isC p (s_ev r)) s.
Proof.
  intros V isC veq vs ml mi fresh t k v iu p s Hml Hmi HI Hid Hg Hst Hsy r i n' Fn' Hs Hc.
  subst r. rewrite apply_events_stored in Hs |- *.
  destruct (set_positive V veq vs ml mi Hml Hmi (p_stored p) fresh t k v iu HI Hid Hg Hst i n' Hs Fn')
    as [M|(n & Fn & E)].
  - rewrite (apply_events_marked isC _ p i Hs M) in Hc. discriminate.
  - rewrite <- E. apply Hsy; [exact Fn | exact Hs|].
    destruct (mem i (p_changed p)) eqn:Ec; [|reflexivity].
    rewrite (apply_events_mono isC _ p i Ec) in Hc. discriminate.
Qed.

(* ================================================================== *)
(* 4. positive footprint of tdel                                       *)
(* ================================================================== *)
Section SyncDel.
Variable V : Type.
Variables ml mi : nat.
Hypothesis Hml : 1 <= ml.
Hypothesis Hmi : 2 <= mi.
Variable stored : list nat.
Notation tree := (tree V).

(* deletion creates no node: the "fresh" alternative of old_or_marked is
   excluded by instantiating its parameter above the identity in question *)
Lemma del_positive : forall (t : tree) k r,
  Inv V ml mi t -> NoDup (ids V t) -> no_embed_below V true stored t ->
  tdel V t k = Some r ->
  forall i n', find_node V (d_tree r) i = Some n' ->
    marked stored (d_ev r) i \/
    exists n, find_node V t i = Some n /\ getstate V stored t n = getstate V stored (d_tree r) n'.
Proof.
  intros t k r HI ND Hg Hd i n' Fn'.
  destruct (Inv_inv _ _ _ _ HI) as (i0 & kids & -> & [->|[Hlen Wt]]); [discriminate|].
  set (t := Node i0 kids) in *.
  assert (Hszb : szb V ml mi t) by (eapply WFbody_szb; exact Wt).
  assert (Hp : pne V t).
  { intros z Hz. apply subs_inv in Hz. destruct Hz as [->|Hz]; [simpl; lia|].
    specialize (Hszb z Hz). unfold TreeBase.size_ok in Hszb. lia. }
  destruct (del_ok_all V ml mi Hml Hmi stored (S i) t k r Hp Hd) as (T1 & T2 & T3 & T4 & T5 & T6).
  apply find_node_subs in Fn'. destruct Fn' as [Sn' Tn'].
  destruct (T6 n' Sn') as [(n & Sn & T0 & Sh)|[H|H]]; [|lia|left; rewrite <- Tn'; exact H].
  assert (Tn : tid V n = i) by congruence.
  assert (Fn : find_node V t i = Some n) by (rewrite <- Tn; apply find_node_sub; assumption).
  assert (El : elids V (d_tree r) = leaf_ids V (d_tree r)).
  { destruct (d_tree r) as [j l|j kk]; [discriminate T2|]. rewrite elids_Node, lids_Node. reflexivity. }
  rewrite El in T4.
  destruct n as [j l|j nk].
  - simpl in Tn. subst j. destruct n' as [j' l'|]; [|contradiction Sh]. simpl in Tn'. subst j'.
    destruct (Rd_succ _ _ _ _ T4 (lids_NoDup _ _ ND) i (leaf_in_lids _ _ _ _ Sn')) as [Hs|Hs];
      [|left; left; exact Hs].
    right. exists (Leaf i l). split; [exact Fn|].
    rewrite !getstate_eq. apply gs_shallow; [exact Sh| |discriminate].
    intros i1 l1 E. injection E as <- <-. exact Hs.
  - destruct (embk V stored nk) eqn:Ee.
    + assert (En : Node j nk = t).
      { apply subs_inv in Sn. destruct Sn as [Sn|Sn]; [exact Sn|].
        pose proof (proj1 (no_embed_nemb _ _ _ _ Hg) _ Sn) as Hc. simpl in Hc. congruence. }
      destruct (embk_inv _ _ _ Ee) as (s & l & items & Ek & Hm).
      left. right. exists l. split; [|exact Hm]. simpl in Tn. subst j nk.
      apply (T5 i s (Leaf l items)); [symmetry; exact En | reflexivity].
    + right. exists (Node j nk). split; [exact Fn|].
      rewrite !getstate_eq. apply gs_shallow; [exact Sh | discriminate|].
      intros i1 s l items E Hm. inversion E; subst. simpl in Ee. rewrite Hm in Ee. discriminate.
Qed.
End SyncDel.

Theorem sync_del :
  forall (V : Type) (isC : bool) (ml mi fresh : nat) (t : tree V) (k : Z) (r : dres V) (p : pstate) (s : store V),
  (1 <= ml)%nat -> (2 <= mi)%nat -> Inv V ml mi t -> ids_ok V fresh t ->
  no_embed_below V true (p_stored p) t ->
  synced V t p s -> tdel V t k = Some r ->
  synced V (d_tree r) (apply_events isC p (d_ev r)) s.
Proof.
  intros V isC ml mi fresh t k r p s Hml Hmi HI [ND _] Hg Hsy Hd i n' Fn' Hs Hc.
  rewrite apply_events_stored in Hs |- *.
  destruct (del_positive V ml mi Hml Hmi (p_stored p) t k r HI ND Hg Hd i n' Fn') as [M|(n & Fn & E)].
  - rewrite (apply_events_marked isC _ p i Hs M) in Hc. discriminate.
  - rewrite <- E. apply Hsy; [exact Fn | exact Hs|].
    destruct (mem i (p_changed p)) eqn:Ec; [|reflexivity].
    rewrite (apply_events_mono isC _ p i Ec) in Hc. discriminate.
Qed.

(* ================================================================== *)
(* 5. C08: writes declare every interior node of the descent as read   *)
(* ================================================================== *)
Section Reads.
Variable V : Type.
Notation tree := (tree V).

(* the inner walk of path_ids, as it appears after unfolding *)
Notation pgo k :=
  (fix go (l : list (Z * tree)) : list nat :=
     match l with
     | [] => []
     | (_, c) :: rest => if chosen V k rest then path_ids V c k else go rest
     end).

Lemma path_ids_Node : forall i kids k, path_ids V (Node i kids) k = i :: pgo k kids.
Proof. reflexivity. Qed.

Section SetReads.
Variable veq : V -> V -> bool.
Variable vs : bool.
Variables ml mi : nat.
Notation tset := (RTree.tset V veq vs ml mi).
Notation tset_go := (TreeSetProofs.tset_go V veq vs ml mi).

Lemma set_go_reads : forall i single k v iu (l : list (Z * tree)),
  Forall (fun sc => forall fresh j, In j (path_ids V (snd sc) k) ->
                    In (ERead j) (s_ev (tset fresh (snd sc) k v iu))) l ->
  forall fresh j, In j (pgo k l) ->
    In (ERead j) (snd (fst (fst (tset_go i single fresh k v iu l)))).
Proof.
  intros i single k v iu. induction l as [|[s c] rest IHl]; intros F fresh j H; [contradiction|].
  inversion F as [|x y Hc Hr]; subst. simpl in Hc.
  cbn [TreeSetProofs.tset_go]. destruct (chosen V k rest) eqn:Ch.
  - specialize (Hc fresh j H). set (r := tset fresh c k v iu) in *. clearbody r.
    destruct (s_st r).
    + simpl. apply in_or_app. left. exact Hc.
    + simpl. apply in_or_app. left. exact Hc.
    + destruct (max_for V ml mi (s_tree r) <? tsize V (s_tree r)).
      * unfold grow_at. destruct (split_node V (s_fresh r) (s_tree r)) as [a b].
        simpl. apply in_or_app. left. exact Hc.
      * simpl. apply in_or_app. left. exact Hc.
  - specialize (IHl Hr fresh j H).
    destruct (tset_go i single fresh k v iu rest) as [[[[[l' st] rv] ev] f'] g].
    exact IHl.
Qed.

Lemma set_reads : forall (t : tree) k v iu fresh j,
  In j (path_ids V t k) -> In (ERead j) (s_ev (tset fresh t k v iu)).
Proof.
  induction t as [i l|i kids IH] using (tree_ind' V); intros k v iu fresh j H; [contradiction|].
  rewrite path_ids_Node in H.
  destruct kids as [|x r].
  - destruct H as [<-|[]]. simpl. left. reflexivity.
  - rewrite tset_Node.
    assert (F : Forall (fun sc => forall fresh j, In j (path_ids V (snd sc) k) ->
                          In (ERead j) (s_ev (tset fresh (snd sc) k v iu))) (x :: r)).
    { eapply Forall_impl; [|exact IH]. intros a Ha f j0. apply Ha. }
    pose proof (set_go_reads i (length (x :: r) =? 1) k v iu (x :: r) F fresh j) as G.
    destruct (tset_go i (length (x :: r) =? 1) fresh k v iu (x :: r)) as [[[[[kids1 st] rv] ev1] fresh1] g].
    cbn [fst snd] in G.
    destruct (g && (2 * mi <=? length kids1)).
    + destruct (split_root V fresh1 kids1) as [[kids2 fresh2] ev2]. simpl.
      destruct H as [<-|H]; [left; reflexivity|]. right. apply in_or_app. left. apply G. exact H.
    + simpl. destruct H as [<-|H]; [left; reflexivity|]. right. apply G. exact H.
Qed.
End SetReads.

(* ---------- tdel ---------- *)
Notation rgo k :=
  (fix go (l : list (Z * tree)) : list event :=
     match l with
     | [] => []
     | (_, c) :: rest => if chosen V k rest then read_path V c k else go rest
     end).
Lemma read_path_Node : forall i kids k, read_path V (Node i kids) k = ERead i :: rgo k kids.
Proof. reflexivity. Qed.
Lemma pgo_cons : forall k s c rest,
  pgo k ((s, c) :: rest) = if chosen V k rest then path_ids V c k else pgo k rest.
Proof. reflexivity. Qed.
Lemma rgo_cons : forall k s c rest,
  rgo k ((s, c) :: rest) = if chosen V k rest then read_path V c k else rgo k rest.
Proof. reflexivity. Qed.

Definition del_reads_at (k : Z) (t : tree) : Prop :=
  forall j, In j (path_ids V t k) ->
    match tdel V t k with
    | Some r => In (ERead j) (d_ev r)
    | None => In (ERead j) (read_path V t k)
    end.

Lemma del_go_reads : forall i single k (l : list (Z * tree)),
  Forall (fun sc => del_reads_at k (snd sc)) l ->
  forall prev first j, In j (pgo k l) ->
    match del_go V i single k prev first l with
    | Some (_, _, ev, _) => In (ERead j) ev
    | None => In (ERead j) (rgo k l)
    end.
Proof.
  intros i single k. induction l as [|[s c] rest IHl]; intros F prev first j H; [contradiction|].
  inversion F as [|x y Hc Hr]; subst. simpl in Hc.
  try rewrite pgo_cons in H. try rewrite rgo_cons. cbn [del_go].
  destruct (chosen V k rest) eqn:Ch.
  - specialize (Hc j H). destruct (tdel V c k) as [r|]; [|exact Hc].
    destruct (d_first r); destruct prev as [p|]; destruct (tsize V (d_tree r) =? 0);
      destruct (is_leaf V (d_tree r)); destruct single; destruct first; destruct (k =? s)%Z;
      cbn; apply in_or_app; left; exact Hc.
  - specialize (IHl Hr (Some c) false j H).
    destruct (del_go V i single k (Some c) false rest) as [[[[l' v] ev] fg]|]; exact IHl.
Qed.

Lemma del_reads : forall (t : tree) k, del_reads_at k t.
Proof.
  induction t as [i l|i kids IH] using (tree_ind' V); intros k j H; [contradiction|].
  rewrite path_ids_Node in H. rewrite tdel_Node, read_path_Node.
  assert (F : Forall (fun sc => del_reads_at k (snd sc)) kids).
  { eapply Forall_impl; [|exact IH]. intros a Ha. apply Ha. }
  pose proof (del_go_reads i (length kids =? 1) k kids F None true j) as G.
  destruct (del_go V i (length kids =? 1) k None true kids) as [[[[kids' v] ev] fg]|].
  - simpl. destruct H as [<-|H]; [left; reflexivity|]. right. apply G. exact H.
  - destruct H as [<-|H]; [left; reflexivity|]. right. apply G. exact H.
Qed.
End Reads.

Theorem set_declares_reads :
  forall (V : Type) (veq : V -> V -> bool) (vs : bool) (ml mi fresh : nat) (t : tree V) (k : Z) (v : V)
         (ifunset : bool) (i : nat),
  is_leaf V t = false ->
  In i (path_ids V t k) -> In (ERead i) (s_ev (tset V veq vs ml mi fresh t k v ifunset)).
Proof. intros V veq vs ml mi fresh t k v iu i _ H. apply set_reads. exact H. Qed.

Theorem del_declares_reads :
  forall (V : Type) (t : tree V) (k : Z) (i : nat),
  In i (path_ids V t k) ->
  match tdel V t k with
  | Some r => In (ERead i) (d_ev r)
  | None => In (ERead i) (read_path V t k)
  end.
Proof. intros V t k i H. apply del_reads. exact H. Qed.

(* lookups, range queries, iteration, len, bool, isdisjoint: the state is returned as it is *)
Theorem reads_are_silent :
  forall (vsame isC : bool) (ml mi : nat) (s : st) (c : call),
  match c with
  | CGet _ | CGetD _ _ | CItem _ | CIn _ | CHasKey _ | CLen | CBool | CKeys | CItems | CIsdisjoint _ => true
  | _ => false
  end = true ->
  fst (step vsame isC ml mi s c) = s.
Proof. intros vsame isC ml mi s c H. destruct c; try discriminate H; reflexivity. Qed.

