(* Proofs for C14: the two binary searches (Model/Search.v) are correct on
   strictly sorted input, only compare with stored keys, and every comparison
   of an operation precedes its change. *)
From Coq Require Import ZArith List Bool Arith Sorted Lia.
From BT Require Import Model.RTree Model.TreeSpec Model.Search.
Import ListNotations.
Open Scope Z_scope.

(* ---------- arithmetic on [>> 1] ---------- *)
Lemma div2_mid : forall lo hi : nat, (lo < hi)%nat ->
  (lo <= Nat.div2 (lo + hi) < hi)%nat.
Proof.
  intros lo hi H. rewrite Nat.div2_div.
  split.
  - apply Nat.div_le_lower_bound; lia.
  - apply Nat.div_lt_upper_bound; lia.
Qed.

Lemma div2_same : forall lo : nat, Nat.div2 (lo + lo) = lo.
Proof.
  intros lo. replace (lo + lo)%nat with (2 * lo)%nat by lia. apply Nat.div2_double.
Qed.

Lemma div2_mid_strict : forall lo hi : nat, (lo + 2 <= hi)%nat ->
  (lo < Nat.div2 (lo + hi))%nat.
Proof.
  intros lo hi H. rewrite Nat.div2_div.
  apply Nat.div_le_lower_bound; lia.
Qed.

(* ---------- strictly sorted lists, by index ---------- *)
Lemma sorted_nth_lt : forall (l : list Z) (a b : nat),
  StronglySorted Z.lt l -> (a < b < length l)%nat -> zget l a < zget l b.
Proof.
  unfold zget. induction l as [|x l IH]; intros a b Hs Hab; simpl in *.
  - lia.
  - inversion Hs as [|? ? Hs' Hall]; subst.
    destruct b as [|b]; [lia|].
    destruct a as [|a].
    + rewrite Forall_forall in Hall. apply Hall. apply nth_In. lia.
    + apply IH; auto. lia.
Qed.

Lemma sorted_nth_le : forall (l : list Z) (a b : nat),
  StronglySorted Z.lt l -> (a <= b < length l)%nat -> zget l a <= zget l b.
Proof.
  intros l a b Hs Hab. destruct (Nat.eq_dec a b) as [->|Hne]; [lia|].
  apply Z.lt_le_incl. apply sorted_nth_lt; auto. lia.
Qed.

Lemma zget_In : forall (l : list Z) (i : nat), (i < length l)%nat -> In (zget l i) l.
Proof. intros. unfold zget. apply nth_In. auto. Qed.

Lemma zget_tl_In : forall (l : list Z) (i : nat),
  (0 < i < length l)%nat -> In (zget l i) (tl l).
Proof.
  intros l i H. destruct l as [|d r]; simpl in *; [lia|].
  destruct i as [|i]; [lia|]. unfold zget. simpl. apply nth_In. lia.
Qed.

(* ---------- BUCKET_SEARCH ---------- *)
(* index facts only: no sortedness needed *)
Lemma bucket_loop_incl : forall (fuel : nat) (keys : list Z) (k : Z) (lo hi i : nat)
  (c : comparison) (tr : list Z),
  (lo <= hi <= length keys)%nat -> i = Nat.div2 (lo + hi) ->
  incl tr keys ->
  incl (snd (bucket_loop fuel keys k lo hi i c tr)) keys.
Proof.
  induction fuel as [|f IH]; intros keys k lo hi i c tr Hb Hi Htr; simpl; auto.
  destruct (Nat.ltb_spec lo hi) as [Hlt|Hge]; simpl; auto.
  pose proof (div2_mid lo hi Hlt) as Hm. rewrite <- Hi in Hm.
  assert (Hin : incl (tr ++ [zget keys i]) keys).
  { apply incl_app; auto. intros y [<-|[]]. apply zget_In. lia. }
  destruct (zget keys i ?= k); simpl; auto.
  - apply IH; auto. lia.
  - apply IH; auto. lia.
Qed.

Lemma bucket_loop_spec : forall (fuel : nat) (keys : list Z) (k : Z) (lo hi i : nat)
  (c : comparison) (tr : list Z),
  StronglySorted Z.lt keys ->
  (hi - lo < fuel)%nat ->
  (lo <= hi <= length keys)%nat -> i = Nat.div2 (lo + hi) -> c <> Eq ->
  (forall j, (j < lo)%nat -> zget keys j < k) ->
  (forall j, (hi <= j < length keys)%nat -> k < zget keys j) ->
  let '(i', c', _) := bucket_loop fuel keys k lo hi i c tr in
  (c' = Eq -> (i' < length keys)%nat /\ zget keys i' = k) /\
  (c' <> Eq -> (i' <= length keys)%nat /\
               (forall j, (j < i')%nat -> zget keys j < k) /\
               (forall j, (i' <= j < length keys)%nat -> k < zget keys j)).
Proof.
  induction fuel as [|f IH]; intros keys k lo hi i c tr Hs Hf Hb Hi Hc Hlo Hhi; [lia|].
  simpl.
  destruct (Nat.ltb_spec lo hi) as [Hlt|Hge].
  - pose proof (div2_mid lo hi Hlt) as Hm. rewrite <- Hi in Hm.
    destruct (Z.compare_spec (zget keys i) k) as [He|Hl|Hg].
    + split; [intros _; split; [lia|auto] | intros H; congruence].
    + apply IH; auto; try lia; try congruence.
      intros j Hj. destruct (Nat.eq_dec j i) as [->|Hne]; auto.
      assert (zget keys j < zget keys i) by (apply sorted_nth_lt; auto; lia). lia.
    + apply IH; auto; try lia; try congruence.
      intros j Hj. destruct (Nat.eq_dec j i) as [->|Hne]; [lia|].
      assert (zget keys i < zget keys j) by (apply sorted_nth_lt; auto; lia). lia.
  - assert (hi = lo) by lia. subst hi. rewrite div2_same in Hi. subst i.
    split; [intros; congruence|]. intros _. split; [lia|]. split; auto.
Qed.

Lemma In_zget : forall (l : list Z) (x : Z), In x l -> exists j, (j < length l)%nat /\ zget l j = x.
Proof. intros l x H. unfold zget. apply In_nth; auto. Qed.

Lemma bucket_search_correct : forall (keys : list Z) (k : Z),
  StronglySorted Z.lt keys ->
  let '(i, found, probes) := bucket_search keys k in
  (found = true -> (i < length keys)%nat /\ zget keys i = k) /\
  (found = false -> ~ In k keys /\ (i <= length keys)%nat /\
                    (forall j, (j < i)%nat -> zget keys j < k) /\
                    (forall j, (i <= j < length keys)%nat -> k < zget keys j)) /\
  incl probes keys.
Proof.
  intros keys k Hs. unfold bucket_search.
  pose proof (bucket_loop_spec (S (length keys)) keys k 0 (length keys)
                (Nat.div2 (length keys)) Gt [] Hs) as Hspec.
  pose proof (bucket_loop_incl (S (length keys)) keys k 0 (length keys)
                (Nat.div2 (length keys)) Gt []) as Hincl.
  destruct (bucket_loop (S (length keys)) keys k 0 (length keys)
              (Nat.div2 (length keys)) Gt []) as [[i c] tr].
  simpl in Hincl.
  assert (Hsp : (c = Eq -> (i < length keys)%nat /\ zget keys i = k) /\
                (c <> Eq -> (i <= length keys)%nat /\
                  (forall j, (j < i)%nat -> zget keys j < k) /\
                  (forall j, (i <= j < length keys)%nat -> k < zget keys j))).
  { apply Hspec; try lia; try congruence; auto. }
  destruct Hsp as [HEq HNe].
  split; [|split].
  - destruct c; intros H; try discriminate. auto.
  - intros H. assert (Hc : c <> Eq) by (destruct c; congruence).
    destruct (HNe Hc) as (H1 & H2 & H3). split; [|auto].
    intros Hin. apply In_zget in Hin. destruct Hin as (j & Hj & Hjk).
    destruct (Nat.lt_ge_cases j i) as [Hlt|Hge].
    + specialize (H2 j Hlt). lia.
    + assert (k < zget keys j) by (apply H3; lia). lia.
  - apply Hincl; try lia; auto. intros y [].
Qed.

(* ---------- BTREE_SEARCH ---------- *)
Lemma sorted_tl_lt : forall (seps : list Z) (a b : nat),
  StronglySorted Z.lt (tl seps) -> (0 < a < b)%nat -> (b < length seps)%nat ->
  zget seps a < zget seps b.
Proof.
  intros seps a b Hs Hab Hb. destruct seps as [|d r]; simpl in *; [lia|].
  destruct a as [|a]; [lia|]. destruct b as [|b]; [lia|].
  change (zget r a < zget r b). apply sorted_nth_lt; auto. lia.
Qed.

Lemma sorted_tl_le : forall (seps : list Z) (a b : nat),
  StronglySorted Z.lt (tl seps) -> (0 < a <= b)%nat -> (b < length seps)%nat ->
  zget seps a <= zget seps b.
Proof.
  intros seps a b Hs Hab Hb. destruct (Nat.eq_dec a b) as [->|Hne]; [lia|].
  apply Z.lt_le_incl. apply sorted_tl_lt; auto. lia.
Qed.

(* index facts only: no sortedness needed *)
Lemma btree_loop_idx : forall (fuel : nat) (seps : list Z) (k : Z) (lo hi i : nat) (tr : list Z),
  (lo < hi <= length seps)%nat -> i = Nat.div2 (lo + hi) ->
  incl tr (tl seps) ->
  (fst (btree_loop fuel seps k lo hi i tr) < length seps)%nat /\
  incl (snd (btree_loop fuel seps k lo hi i tr)) (tl seps).
Proof.
  induction fuel as [|f IH]; intros seps k lo hi i tr Hb Hi Htr;
    pose proof (div2_mid lo hi (proj1 Hb)) as Hm; rewrite <- Hi in Hm; simpl.
  - split; auto. lia.
  - destruct (Nat.ltb_spec lo i) as [Hlt|Hge]; simpl; [|split; auto; lia].
    assert (Hin : incl (tr ++ [zget seps i]) (tl seps)).
    { apply incl_app; auto. intros y [<-|[]]. apply zget_tl_In. lia. }
    destruct (zget seps i ?= k); simpl.
    + split; auto. lia.
    + apply IH; auto. lia.
    + apply IH; auto. lia.
Qed.

Lemma btree_loop_spec : forall (fuel : nat) (seps : list Z) (k : Z) (lo hi i : nat) (tr : list Z),
  StronglySorted Z.lt (tl seps) ->
  (hi - lo < fuel)%nat ->
  (lo < hi <= length seps)%nat -> i = Nat.div2 (lo + hi) ->
  (forall j, (0 < j <= lo)%nat -> zget seps j <= k) ->
  (forall j, (hi <= j < length seps)%nat -> k < zget seps j) ->
  let i' := fst (btree_loop fuel seps k lo hi i tr) in
  (forall j, (0 < j <= i')%nat -> zget seps j <= k) /\
  (forall j, (i' < j < length seps)%nat -> k < zget seps j).
Proof.
  induction fuel as [|f IH]; intros seps k lo hi i tr Hs Hf Hb Hi Hlo Hhi; [lia|].
  pose proof (div2_mid lo hi (proj1 Hb)) as Hm. rewrite <- Hi in Hm. simpl.
  destruct (Nat.ltb_spec lo i) as [Hlt|Hge]; simpl.
  - destruct (Z.compare_spec (zget seps i) k) as [He|Hl|Hg]; simpl.
    + split; intros j Hj.
      * assert (zget seps j <= zget seps i) by (apply sorted_tl_le; auto; lia). lia.
      * assert (zget seps i < zget seps j) by (apply sorted_tl_lt; auto; lia). lia.
    + apply IH; auto; try lia.
      intros j Hj.
      assert (zget seps j <= zget seps i) by (apply sorted_tl_le; auto; lia). lia.
    + apply IH; auto; try lia.
      intros j Hj. destruct (Nat.eq_dec j i) as [->|Hne]; [lia|].
      assert (zget seps i < zget seps j) by (apply sorted_tl_lt; auto; lia). lia.
  - assert (Hd : Nat.div2 (lo + hi) = lo) by lia.
    assert (hi = S lo).
    { destruct (Nat.le_gt_cases (lo + 2) hi) as [H2|H2]; [|lia].
      pose proof (div2_mid_strict lo hi H2). lia. }
    subst i. rewrite Hd. split; [auto|]. intros j Hj. apply Hhi. lia.
Qed.

Lemma btree_search_correct : forall (seps : list Z) (k : Z),
  seps <> [] -> StronglySorted Z.lt (tl seps) ->
  let i := fst (btree_search seps k) in
  (i < length seps)%nat /\
  (forall j, (0 < j <= i)%nat -> zget seps j <= k) /\
  (forall j, (i < j < length seps)%nat -> k < zget seps j) /\
  incl (snd (btree_search seps k)) (tl seps).
Proof.
  intros seps k Hne Hs. unfold btree_search.
  assert (Hlen : (0 < length seps)%nat) by (destruct seps; simpl; [congruence|lia]).
  destruct (btree_loop_idx (S (length seps)) seps k 0 (length seps)
              (Nat.div2 (length seps)) []) as [H1 H4]; try lia; auto.
  { intros y []. }
  destruct (btree_loop_spec (S (length seps)) seps k 0 (length seps)
              (Nat.div2 (length seps)) [] Hs) as [H2 H3]; try lia; auto.
Qed.

Lemma failing_is_atomic : forall (A : Type) (n : option nat) (probes : list Z) (change : A -> A) (s : A),
  fst (match n with
       | Some m => if (m <? length probes)%nat then (false, s) else (true, change s)
       | None => (true, change s)
       end) = false ->
  snd (match n with
       | Some m => if (m <? length probes)%nat then (false, s) else (true, change s)
       | None => (true, change s)
       end) = s.
Proof.
  intros A n probes change s. destruct n as [m|]; simpl.
  - destruct (m <? length probes)%nat; simpl; auto. discriminate.
  - discriminate.
Qed.

(* ---------- probes are stored keys ---------- *)
Lemma bucket_search_incl : forall (keys : list Z) (k : Z),
  incl (snd (bucket_search keys k)) keys.
Proof.
  intros keys k. unfold bucket_search.
  pose proof (bucket_loop_incl (S (length keys)) keys k 0 (length keys)
                (Nat.div2 (length keys)) Gt []) as Hincl.
  destruct (bucket_loop (S (length keys)) keys k 0 (length keys)
              (Nat.div2 (length keys)) Gt []) as [[i c] tr].
  simpl in *. apply Hincl; try lia; auto. intros y [].
Qed.

Lemma btree_search_idx : forall (seps : list Z) (k : Z), seps <> [] ->
  (fst (btree_search seps k) < length seps)%nat /\
  incl (snd (btree_search seps k)) (tl seps).
Proof.
  intros seps k Hne. unfold btree_search.
  assert (Hlen : (0 < length seps)%nat) by (destruct seps; simpl; [congruence|lia]).
  apply btree_loop_idx; try lia; auto. intros y [].
Qed.

Section TreeInd.
Variable V : Type.
Variable P : tree V -> Prop.
Hypothesis Hleaf : forall i l, P (@Leaf V i l).
Hypothesis Hnode : forall i kids, Forall (fun sc => P (snd sc)) kids -> P (@Node V i kids).

Fixpoint tree_ind_nested (t : tree V) : P t :=
  match t with
  | Leaf i l => Hleaf i l
  | Node i kids =>
    Hnode i kids
      ((fix go (l : list (Z * tree V)) : Forall (fun sc => P (snd sc)) l :=
          match l with
          | [] => Forall_nil _
          | sc :: r => Forall_cons sc (tree_ind_nested (snd sc)) (go r)
          end) kids)
  end.
End TreeInd.

Definition go_trace (V : Type) (sepcheck : bool) (k : Z) (i : nat)
  : list (Z * tree V) -> nat -> list Z :=
  fix go (l : list (Z * tree V)) (j : nat) : list Z :=
    match l with
    | [] => []
    | (_, c') :: rest => if (j =? i)%nat then cmp_trace V sepcheck c' k else go rest (S j)
    end.

Lemma cmp_trace_node : forall (V : Type) (sepcheck : bool) (id : nat) (p : Z * tree V)
  (l : list (Z * tree V)) (k : Z),
  cmp_trace V sepcheck (Node id (p :: l)) k =
  let kids := p :: l in
  let '(i, tr) := btree_search (map fst kids) k in
  tr ++ (if sepcheck && negb (i =? 0)%nat then [zget (map fst kids) i] else []) ++
  match nth_error kids i with
  | Some (_, c) => go_trace V sepcheck k i kids 0%nat
  | None => []
  end.
Proof. reflexivity. Qed.

Lemma go_trace_in : forall (V : Type) (sepcheck : bool) (k : Z) (i : nat) (x : Z)
  (l : list (Z * tree V)) (j : nat),
  In x (go_trace V sepcheck k i l j) ->
  exists sc, In sc l /\ In x (cmp_trace V sepcheck (snd sc) k).
Proof.
  intros V sepcheck k i x. induction l as [|[s c] rest IH]; intros j H; simpl in H.
  - contradiction.
  - destruct (j =? i)%nat.
    + exists (s, c). split; [left; reflexivity|exact H].
    + destruct (IH _ H) as (sc & Hin & Hx). exists sc. split; [right; exact Hin|exact Hx].
Qed.

Lemma map_fst_tl : forall (A B : Type) (l : list (A * B)), tl (map fst l) = map fst (tl l).
Proof. intros A B l. destruct l; reflexivity. Qed.

Lemma probes_stored : forall (V : Type) (sepcheck : bool) (t : tree V) (k x : Z),
  In x (cmp_trace V sepcheck t k) -> In x (all_keys V t).
Proof.
  intros V sepcheck t k. induction t as [id items|id kids IH] using tree_ind_nested; intros x H.
  - simpl in *. apply (bucket_search_incl _ _ _ H).
  - destruct kids as [|p l]; [simpl in H; contradiction|].
    rewrite cmp_trace_node in H. cbv zeta in H.
    remember (p :: l) as kids eqn:Hk.
    assert (Hne : map fst kids <> []) by (subst kids; simpl; congruence).
    destruct (btree_search_idx (map fst kids) k Hne) as [Hi Hincl].
    destruct (btree_search (map fst kids) k) as [i tr]. simpl in Hi, Hincl.
    change (In x (map fst (tl kids) ++ flat_map (fun sc => all_keys V (snd sc)) kids)).
    rewrite map_fst_tl in Hincl.
    apply in_app_or in H. destruct H as [H|H].
    { apply in_or_app. left. apply Hincl. exact H. }
    apply in_app_or in H. destruct H as [H|H].
    { apply in_or_app. left. rewrite <- map_fst_tl.
      destruct sepcheck; simpl in H; [|contradiction].
      destruct (Nat.eqb_spec i 0) as [Hz|Hz]; simpl in H; [contradiction|].
      destruct H as [<-|[]]. apply zget_tl_In. lia. }
    apply in_or_app. right.
    destruct (nth_error kids i) as [[s c]|]; [|contradiction].
    apply go_trace_in in H. destruct H as (sc & Hin & Hx).
    apply in_flat_map. exists sc. split; [exact Hin|].
    rewrite Forall_forall in IH. apply IH; auto.
Qed.
