(* Correctness of the quicksort model (Model/Sort.v): the result is ascending
   and a permutation of the input. *)
From Coq Require Import ZArith List Bool Arith Lia Sorted Permutation.
From BT Require Import Model.Sort Model.SortSpec.
Import ListNotations.
Local Open Scope nat_scope.

(* ------------------------------------------------------------------ *)
(* 1. arrays: get / put / swap                                         *)
(* ------------------------------------------------------------------ *)

Lemma length_put : forall a i x, length (put a i x) = length a.
Proof.
  induction a as [|y r IH]; intros [|i] x; simpl; auto.
Qed.

Lemma get_put_same : forall a i x, i < length a -> get (put a i x) i = x.
Proof.
  unfold get. induction a as [|y r IH]; intros [|i] x H; simpl in *; try lia; auto.
  apply IH; lia.
Qed.

Lemma get_put_other : forall a i j x, i <> j -> get (put a i x) j = get a j.
Proof.
  unfold get. induction a as [|y r IH]; intros [|i] [|j] x H; simpl in *; try lia; auto.
Qed.

Lemma length_swap : forall a i j, length (swap a i j) = length a.
Proof. intros; unfold swap; now rewrite !length_put. Qed.

Lemma get_swap_l : forall a i j, i < length a -> j < length a ->
  get (swap a i j) i = get a j.
Proof.
  intros a i j Hi Hj. unfold swap.
  destruct (Nat.eq_dec i j) as [->|N].
  - rewrite get_put_same; auto. now rewrite length_put.
  - rewrite get_put_other by auto. now rewrite get_put_same.
Qed.

Lemma get_swap_r : forall a i j, i < length a -> j < length a ->
  get (swap a i j) j = get a i.
Proof.
  intros a i j Hi Hj. unfold swap. rewrite get_put_same; auto. now rewrite length_put.
Qed.

Lemma get_swap_o : forall a i j k, k <> i -> k <> j ->
  get (swap a i j) k = get a k.
Proof.
  intros a i j k Hi Hj. unfold swap. rewrite !get_put_other; auto.
Qed.

Lemma perm_put_cons : forall r j x, j < length r ->
  Permutation (x :: r) (nth j r 0%Z :: put r j x).
Proof.
  induction r as [|z r IH]; intros [|j] x H; simpl in *; try lia.
  - apply perm_swap.
  - eapply perm_trans; [apply perm_swap|].
    eapply perm_trans; [apply perm_skip, (IH j x); lia|].
    apply perm_swap.
Qed.

Lemma swap_perm : forall a i j, i < length a -> j < length a ->
  Permutation a (swap a i j).
Proof.
  induction a as [|x r IH]; intros i j Hi Hj; simpl in *; try lia.
  destruct i as [|i], j as [|j]; unfold swap, get; simpl.
  - apply Permutation_refl.
  - apply perm_put_cons; lia.
  - apply perm_put_cons; lia.
  - apply perm_skip. apply (IH i j); lia.
Qed.

(* a' is obtained from a by permuting positions lo..hi *)
Record perm_in (lo hi : nat) (a a' : list Z) : Prop := {
  pi_len : length a' = length a;
  pi_perm : Permutation a a';
  pi_out : forall k, k < lo \/ hi < k -> get a' k = get a k;
  pi_in : forall k, lo <= k <= hi -> exists k', lo <= k' <= hi /\ get a' k = get a k' }.

Lemma perm_in_refl : forall lo hi a, perm_in lo hi a a.
Proof.
  intros; split; auto. intros k H; exists k; auto.
Qed.

Lemma perm_in_trans : forall lo hi a b c,
  perm_in lo hi a b -> perm_in lo hi b c -> perm_in lo hi a c.
Proof.
  intros lo hi a b c [L1 P1 O1 I1] [L2 P2 O2 I2]; split.
  - congruence.
  - eapply perm_trans; eauto.
  - intros k H. rewrite O2, O1; auto.
  - intros k H. destruct (I2 k H) as [k1 [H1 E1]]. destruct (I1 k1 H1) as [k2 [H2 E2]].
    exists k2; split; auto; congruence.
Qed.

Lemma perm_in_weaken : forall lo hi lo' hi' a b,
  lo' <= lo -> hi <= hi' -> perm_in lo hi a b -> perm_in lo' hi' a b.
Proof.
  intros lo hi lo' hi' a b Hl Hh [L P O I]; split; auto.
  - intros k H. apply O; lia.
  - intros k H. destruct (le_lt_dec lo k) as [A|A]; [destruct (le_lt_dec k hi) as [B|B]|].
    + destruct (I k (conj A B)) as [k' [H' E]]. exists k'; split; auto; lia.
    + exists k; split; [lia|apply O; lia].
    + exists k; split; [lia|apply O; lia].
Qed.

Lemma perm_in_swap : forall lo hi a i j,
  lo <= i <= hi -> lo <= j <= hi -> hi < length a -> perm_in lo hi a (swap a i j).
Proof.
  intros lo hi a i j Hi Hj Hh; split.
  - apply length_swap.
  - apply swap_perm; lia.
  - intros k H. apply get_swap_o; lia.
  - intros k H. destruct (Nat.eq_dec k j) as [->|Nj]; [|destruct (Nat.eq_dec k i) as [->|Ni]].
    + exists i; split; auto. apply get_swap_r; lia.
    + exists j; split; auto. apply get_swap_l; lia.
    + exists k; split; auto. apply get_swap_o; auto.
Qed.

(* ------------------------------------------------------------------ *)
(* 2. insertion sort of a slice                                        *)
(* ------------------------------------------------------------------ *)

Lemma ins_perm : forall x l, Permutation (x :: l) (ins x l).
Proof.
  induction l as [|y r IH]; simpl; auto.
  destruct (x <? y)%Z; auto.
  eapply perm_trans; [apply perm_swap|]. now apply perm_skip.
Qed.

Lemma ins_sorted : forall x l, StronglySorted Z.le l -> StronglySorted Z.le (ins x l).
Proof.
  induction l as [|y r IH]; simpl; intros H.
  - constructor; constructor.
  - inversion H as [|? ? Hr Hy]; subst.
    destruct (Z.ltb_spec x y) as [L|L].
    + constructor; auto. constructor; [lia|].
      eapply Forall_impl; [|exact Hy]. intros; simpl in *; lia.
    + constructor; auto.
      eapply Permutation_Forall; [apply ins_perm|]. constructor; auto.
Qed.

Lemma fold_ins_spec : forall l acc, StronglySorted Z.le acc ->
  StronglySorted Z.le (fold_left (fun acc x => ins x acc) l acc) /\
  Permutation (l ++ acc) (fold_left (fun acc x => ins x acc) l acc).
Proof.
  induction l as [|x l IH]; simpl; intros acc H.
  - split; auto.
  - destruct (IH (ins x acc) (ins_sorted x acc H)) as [S P]. split; auto.
    eapply perm_trans; [|exact P].
    eapply perm_trans; [apply Permutation_middle|].
    apply Permutation_app_head. apply ins_perm.
Qed.

Lemma insertion_spec : forall l,
  StronglySorted Z.le (insertion l) /\ Permutation l (insertion l).
Proof.
  intros l. destruct (fold_ins_spec l [] (SSorted_nil _)) as [S P]. split; auto.
  now rewrite app_nil_r in P.
Qed.

Lemma ss_nth : forall l, StronglySorted Z.le l ->
  forall i j, i < j < length l -> (nth i l 0 <= nth j l 0)%Z.
Proof.
  induction 1 as [|x r Hr IH Hx]; simpl; intros i j H; [lia|].
  destruct j as [|j]; [lia|]. destruct i as [|i].
  - rewrite Forall_forall in Hx. apply Hx. apply nth_In. lia.
  - apply IH. lia.
Qed.

Lemma nth_sorted : forall l,
  (forall i j, i < j < length l -> (nth i l 0 <= nth j l 0)%Z) -> Sorted Z.le l.
Proof.
  induction l as [|x r IH]; intros H; constructor.
  - apply IH. intros i j Hij. apply (H (S i) (S j)). simpl; lia.
  - destruct r as [|y r]; constructor. apply (H 0 1). simpl; lia.
Qed.

Lemma skipn_skipn' : forall (m n : nat) (l : list Z), skipn n (skipn m l) = skipn (m + n) l.
Proof.
  induction m as [|m IH]; intros n l; simpl; auto.
  destruct l; simpl; auto. apply skipn_nil.
Qed.

Lemma slice_decomp : forall (a : list Z) lo hi, lo <= S hi ->
  a = firstn lo a ++ firstn (S hi - lo) (skipn lo a) ++ skipn (S hi) a.
Proof.
  intros a lo hi H.
  replace (skipn (S hi) a) with (skipn (S hi - lo) (skipn lo a)).
  - now rewrite firstn_skipn, firstn_skipn.
  - rewrite skipn_skipn'. f_equal. lia.
Qed.

Lemma splice_perm_in : forall pre m m' post lo hi,
  length pre = lo -> lo <= hi -> length m = S hi - lo -> Permutation m m' ->
  perm_in lo hi (pre ++ m ++ post) (pre ++ m' ++ post).
Proof.
  intros pre m m' post lo hi Hpre Hle Hm P.
  assert (Hm' : length m' = length m) by (symmetry; now apply Permutation_length).
  split.
  - rewrite !app_length. lia.
  - apply Permutation_app_head, Permutation_app_tail, P.
  - intros k [H|H]; unfold get.
    + rewrite !app_nth1 by lia. reflexivity.
    + rewrite !(app_nth2 pre) by lia. rewrite !app_nth2 by lia. now rewrite Hm'.
  - intros k H. unfold get.
    rewrite (app_nth2 pre) by lia. rewrite app_nth1 by lia.
    assert (I : In (nth (k - length pre) m' 0%Z) m).
    { eapply Permutation_in; [apply Permutation_sym, P|]. apply nth_In. lia. }
    destruct (In_nth _ _ 0%Z I) as [n [Hn E]].
    exists (lo + n). split; [lia|].
    rewrite (app_nth2 pre) by lia. rewrite app_nth1 by lia.
    rewrite <- E. f_equal. lia.
Qed.

Lemma sort_slice_spec : forall a lo hi, lo <= hi < length a ->
  perm_in lo hi a (sort_slice a lo hi) /\
  forall i j, lo <= i -> i < j -> j <= hi ->
    (get (sort_slice a lo hi) i <= get (sort_slice a lo hi) j)%Z.
Proof.
  intros a lo hi H. unfold sort_slice.
  set (pre := firstn lo a). set (m := firstn (S hi - lo) (skipn lo a)).
  set (post := skipn (S hi) a).
  assert (Hpre : length pre = lo) by (apply firstn_length_le; lia).
  assert (Hm : length m = S hi - lo).
  { apply firstn_length_le. rewrite skipn_length. lia. }
  destruct (insertion_spec m) as [S P].
  assert (Hm' : length (insertion m) = length m) by (symmetry; now apply Permutation_length).
  split.
  - rewrite (slice_decomp a lo hi) at 1 by lia. fold pre m post.
    apply splice_perm_in; auto; lia.
  - intros i j Hi Hij Hj. unfold get.
    rewrite !(app_nth2 pre) by lia. rewrite !app_nth1 by lia.
    apply ss_nth; auto. lia.
Qed.

(* ------------------------------------------------------------------ *)
(* 3. scans and partition                                              *)
(* ------------------------------------------------------------------ *)

Lemma scan_up_spec : forall fuel a pivot i k,
  i < k -> (get a k >= pivot)%Z -> k - i <= fuel ->
  i < scan_up fuel a pivot i <= k /\
  (get a (scan_up fuel a pivot i) >= pivot)%Z /\
  forall m, i < m < scan_up fuel a pivot i -> (get a m < pivot)%Z.
Proof.
  induction fuel as [|f IH]; intros a pivot i k Hik Hk Hf; [lia|].
  simpl. destruct (Z.ltb_spec (get a (S i)) pivot) as [L|L].
  - assert (S i <> k) by (intros E; rewrite E in L; lia).
    destruct (IH a pivot (S i) k) as [A [B C]]; try lia.
    split; [lia|]. split; auto.
    intros m Hm. destruct (Nat.eq_dec m (S i)) as [->|N]; auto. apply C; lia.
  - split; [lia|]. split; [lia|]. intros m Hm; lia.
Qed.

Lemma scan_down_spec : forall fuel a pivot j k,
  k < j -> (get a k <= pivot)%Z -> j - k <= fuel ->
  k <= scan_down fuel a pivot j < j /\
  (get a (scan_down fuel a pivot j) <= pivot)%Z /\
  forall m, scan_down fuel a pivot j < m < j -> (get a m > pivot)%Z.
Proof.
  induction fuel as [|f IH]; intros a pivot j k Hkj Hk Hf; [lia|].
  simpl. destruct (Z.gtb_spec (get a (pred j)) pivot) as [L|L].
  - assert (pred j <> k) by (intros E; rewrite E in L; lia).
    destruct (IH a pivot (pred j) k) as [A [B C]]; try lia.
    split; [lia|]. split; auto.
    intros m Hm. destruct (Nat.eq_dec m (pred j)) as [->|N]; [lia|]. apply C; lia.
  - split; [lia|]. split; [lia|]. intros m Hm; lia.
Qed.

Lemma partition_spec : forall fuel a pivot lo hi pi pj a' r,
  lo <= pi -> pi < pj -> pj <= hi -> hi < length a ->
  (forall k, lo <= k <= pi -> (get a k <= pivot)%Z) ->
  (forall k, pj <= k <= hi -> (get a k >= pivot)%Z) ->
  pj - pi <= fuel ->
  partition fuel a pivot pi pj = (a', r) ->
  perm_in (S pi) (pj - 1) a a' /\ pi <= r < pj /\
  (forall k, lo <= k <= r -> (get a' k <= pivot)%Z) /\
  (forall k, r < k <= hi -> (get a' k >= pivot)%Z).
Proof.
  induction fuel as [|f IH]; intros a pivot lo hi pi pj a' r Hli Hij Hjh Hh Hlo Hhi Hf E; [lia|].
  simpl in E.
  destruct (scan_up_spec (length a) a pivot pi pj) as [U1 [U2 U3]]; try lia.
  { apply Hhi; lia. }
  destruct (scan_down_spec (length a) a pivot pj pi) as [D1 [D2 D3]]; try lia.
  { apply Hlo; lia. }
  set (pi' := scan_up (length a) a pivot pi) in *.
  set (pj' := scan_down (length a) a pivot pj) in *.
  destruct (Nat.ltb_spec pi' pj') as [L|L].
  - destruct (IH (swap a pi' pj') pivot lo hi pi' pj' a' r) as [P [R [A B]]]; try lia; auto.
    + rewrite length_swap; lia.
    + intros k Hk. destruct (Nat.eq_dec k pi') as [->|N].
      * rewrite get_swap_l by lia. lia.
      * rewrite get_swap_o by lia.
        destruct (le_lt_dec k pi) as [C|C]; [apply Hlo; lia|].
        assert (get a k < pivot)%Z by (apply U3; lia). lia.
    + intros k Hk. destruct (Nat.eq_dec k pj') as [->|N].
      * rewrite get_swap_r by lia. lia.
      * rewrite get_swap_o by lia.
        destruct (le_lt_dec pj k) as [C|C]; [apply Hhi; lia|].
        assert (get a k > pivot)%Z by (apply D3; lia). lia.
    + split; [|split; [lia|split; auto]].
      eapply perm_in_trans.
      * apply (perm_in_swap (S pi) (pj - 1) a pi' pj'); lia.
      * eapply perm_in_weaken; [| |exact P]; lia.
  - inversion E; subst a' r. split; [apply perm_in_refl|]. split; [lia|]. split.
    + intros k Hk. destruct (le_lt_dec k pi) as [C|C]; [apply Hlo; lia|].
      destruct (Nat.eq_dec k pj') as [->|N]; [lia|].
      assert (get a k < pivot)%Z by (apply U3; lia). lia.
    + intros k Hk. destruct (le_lt_dec pj k) as [C|C]; [apply Hhi; lia|].
      assert (get a k > pivot)%Z by (apply D3; lia). lia.
Qed.

(* ------------------------------------------------------------------ *)
(* 4. one partitioning step of the outer loop                          *)
(* ------------------------------------------------------------------ *)

Ltac gs := repeat (rewrite ?get_swap_l, ?get_swap_r, ?get_swap_o
                     by (rewrite ?length_swap; lia)).

Lemma med3_spec : forall b p q r lo hi,
  lo <= p <= hi -> lo <= q <= hi -> lo <= r <= hi -> hi < length b ->
  p <> q -> q <> r -> p <> r ->
  let a2 := if (get b q >? get b r)%Z then swap b q r else b in
  let a3 := if (get a2 p >? get a2 q)%Z then
              let c := swap a2 p q in
              if (get c q >? get c r)%Z then swap c q r else c
            else a2 in
  perm_in lo hi b a3 /\ (get a3 p <= get a3 q)%Z /\ (get a3 q <= get a3 r)%Z.
Proof.
  intros b p q r lo hi Hp Hq Hr Hh Npq Nqr Npr a2 a3.
  assert (H2 : perm_in lo hi b a2 /\ (get a2 q <= get a2 r)%Z).
  { unfold a2. destruct (Z.gtb_spec (get b q) (get b r)) as [L|L].
    - split; [apply perm_in_swap; lia|]. gs. lia.
    - split; [apply perm_in_refl|]. lia. }
  destruct H2 as [P2 O2].
  assert (L2 : length a2 = length b) by apply P2.
  clearbody a2. unfold a3.
  destruct (Z.gtb_spec (get a2 p) (get a2 q)) as [L|L].
  - cbv zeta.
    assert (Pc : perm_in lo hi b (swap a2 p q)).
    { eapply perm_in_trans; [exact P2|]. apply perm_in_swap; lia. }
    destruct (Z.gtb_spec (get (swap a2 p q) q) (get (swap a2 p q) r)) as [M|M].
    + split; [|revert M; gs; lia].
      eapply perm_in_trans; [exact Pc|]. apply perm_in_swap; rewrite ?length_swap; lia.
    + split; [exact Pc|]. revert M; gs; lia.
  - split; [exact P2|]. lia.
Qed.

Definition pivot_step (a : list Z) (plo phi : nat) : list Z * nat :=
  let n := S phi - plo in
  let plop1 := S plo in
  let pmid := plo + Nat.div2 n in
  let a1 := swap a plop1 pmid in
  let a2 := if (get a1 plop1 >? get a1 phi)%Z then swap a1 plop1 phi else a1 in
  let a3 := if (get a2 plo >? get a2 plop1)%Z then
              let b := swap a2 plo plop1 in
              if (get b plop1 >? get b phi)%Z then swap b plop1 phi else b
            else a2 in
  let pivot := get a3 plop1 in
  let '(a4, pj) := partition (length a) a3 pivot plop1 phi in
  (put (put a4 plop1 (get a4 pj)) pj pivot, pj).

Lemma pivot_step_spec : forall a plo phi a5 pj,
  phi < length a -> MAX_INSERTION < S phi - plo ->
  pivot_step a plo phi = (a5, pj) ->
  plo < pj < phi /\ perm_in plo phi a a5 /\
  (forall k, plo <= k <= pj -> (get a5 k <= get a5 pj)%Z) /\
  (forall k, pj <= k <= phi -> (get a5 pj <= get a5 k)%Z).
Proof.
  intros a plo phi a5 pj Hphi Hn E. unfold MAX_INSERTION in Hn.
  unfold pivot_step in E.
  set (n := S phi - plo) in *. set (plop1 := S plo) in *.
  set (pmid := plo + Nat.div2 n) in *.
  assert (Hmid : plo <= pmid <= phi).
  { assert (Nat.div2 n < n) by (apply Nat.lt_div2; lia). unfold pmid, n in *. lia. }
  set (a1 := swap a plop1 pmid) in *.
  assert (P1 : perm_in plo phi a a1) by (apply perm_in_swap; unfold plop1; lia).
  assert (L1 : length a1 = length a) by apply P1.
  destruct (med3_spec a1 plo plop1 phi plo phi) as [P3 [O1 O2]]; unfold plop1; try lia.
  fold plop1 in P3, O1, O2. cbv zeta in E.
  match type of P3 with perm_in _ _ _ ?x => set (a3 := x) in * end.
  assert (L3 : length a3 = length a) by (rewrite <- L1; apply P3).
  set (pivot := get a3 plop1) in *.
  destruct (partition (length a) a3 pivot plop1 phi) as [a4 r] eqn:EP.
  inversion E; subst a5 pj; clear E.
  destruct (partition_spec (length a) a3 pivot plo phi plop1 phi a4 r) as [P4 [R [A B]]];
    unfold plop1; try lia; auto; fold plop1.
  { intros k Hk. assert (k = plo \/ k = plop1) as [->| ->] by (unfold plop1; lia); unfold pivot; lia. }
  { intros k Hk. assert (k = phi) as -> by lia. unfold pivot; lia. }
  assert (L4 : length a4 = length a) by (rewrite <- L3; apply P4).
  assert (Epiv : get a4 plop1 = pivot) by (apply (pi_out _ _ _ _ P4); lia).
  assert (E5 : put (put a4 plop1 (get a4 r)) r pivot = swap a4 plop1 r).
  { unfold swap. now rewrite Epiv. }
  rewrite E5.
  assert (P5 : perm_in plo phi a4 (swap a4 plop1 r)) by (apply perm_in_swap; unfold plop1 in *; lia).
  split; [unfold plop1 in *; lia|]. split.
  - eapply perm_in_trans; [exact P1|]. eapply perm_in_trans; [exact P3|].
    eapply perm_in_trans; [|exact P5]. eapply perm_in_weaken; [| |exact P4]; unfold plop1; lia.
  - rewrite get_swap_r by (unfold plop1 in *; lia). rewrite Epiv. split.
    + intros k Hk. destruct (Nat.eq_dec k r) as [->|N1].
      * rewrite get_swap_r by (unfold plop1 in *; lia). lia.
      * destruct (Nat.eq_dec k plop1) as [->|N2].
        -- rewrite get_swap_l by (unfold plop1 in *; lia). apply A; unfold plop1 in *; lia.
        -- rewrite get_swap_o by auto. apply A; lia.
    + intros k Hk. destruct (Nat.eq_dec k r) as [->|N1].
      * rewrite get_swap_r by (unfold plop1 in *; lia). lia.
      * rewrite get_swap_o by (unfold plop1 in *; lia).
        assert (get a4 k >= pivot)%Z by (apply B; lia). lia.
Qed.

(* ------------------------------------------------------------------ *)
(* 5. the outer loop                                                   *)
(* ------------------------------------------------------------------ *)

Definition insl (s : nat * nat) (k : nat) : Prop := fst s <= k <= snd s.
Definition okslice (n : nat) (s : nat * nat) : Prop := fst s <= snd s < n.

Fixpoint disj (l : list (nat * nat)) : Prop :=
  match l with
  | [] => True
  | s :: r => (forall t, In t r -> forall k, insl s k -> insl t k -> False) /\ disj r
  end.

(* positions that do not share an unfinished slice are in order *)
Definition sorted_outside (a : list Z) (l : list (nat * nat)) : Prop :=
  forall i j, i < j < length a ->
    (forall s, In s l -> insl s i -> insl s j -> False) -> (get a i <= get a j)%Z.

Fixpoint total (l : list (nat * nat)) : nat :=
  match l with [] => 0 | s :: r => S (snd s) - fst s + total r end.

Definition Inv (a : list Z) (l : list (nat * nat)) : Prop :=
  Forall (okslice (length a)) l /\ disj l /\ sorted_outside a l.

Lemma disj_app : forall l1 l2, disj l1 -> disj l2 ->
  (forall s t, In s l1 -> In t l2 -> forall k, insl s k -> insl t k -> False) ->
  disj (l1 ++ l2).
Proof.
  induction l1 as [|s r IH]; simpl; intros l2 H1 H2 H; auto.
  destruct H1 as [A B]. split.
  - intros t Ht k Hs Hk. apply in_app_or in Ht. destruct Ht as [Ht|Ht].
    + eapply A; eauto.
    + eapply (H s t); eauto.
  - apply IH; auto. intros s' t Hs' Ht. apply H; auto.
Qed.

Lemma inv_refine : forall a a' s stack news,
  Inv a (s :: stack) ->
  perm_in (fst s) (snd s) a a' ->
  Forall (fun t => fst s <= fst t /\ fst t <= snd t /\ snd t <= snd s) news ->
  disj news ->
  (forall i j, fst s <= i -> i < j -> j <= snd s ->
     (forall t, In t news -> insl t i -> insl t j -> False) -> (get a' i <= get a' j)%Z) ->
  Inv a' (news ++ stack).
Proof.
  intros a a' s stack news [F [D SO]] P FN DN SN.
  assert (L : length a' = length a) by apply P.
  inversion F as [|? ? Fs Fst]; subst. destruct D as [Ds Dst].
  assert (Fs' : fst s <= snd s < length a) by exact Fs.
  rewrite Forall_forall in FN.
  split; [|split].
  - apply Forall_app. split.
    + rewrite Forall_forall. intros t Ht. destruct (FN t Ht) as [A [B C]].
      unfold okslice in *. lia.
    + rewrite L. exact Fst.
  - apply disj_app; auto.
    intros t u Ht Hu k Hk1 Hk2. destruct (FN t Ht) as [A [B C]].
    apply (Ds u Hu k); auto. unfold insl in *. lia.
  - intros i j Hij H. rewrite L in Hij.
    destruct (le_lt_dec (fst s) i) as [I1|I1]; [destruct (le_lt_dec i (snd s)) as [I2|I2]|];
    (destruct (le_lt_dec (fst s) j) as [J1|J1]; [destruct (le_lt_dec j (snd s)) as [J2|J2]|]);
    try lia.
    + (* both inside *)
      apply SN; try lia. intros t Ht. apply H. apply in_or_app; auto.
    + (* i inside, j to the right *)
      destruct (pi_in _ _ _ _ P i (conj I1 I2)) as [i' [Hi' Ei]].
      rewrite Ei, (pi_out _ _ _ _ P j) by lia.
      apply SO; [lia|]. intros t [<-|Ht] T1 T2.
      * unfold insl in *; lia.
      * apply (Ds t Ht i'); auto.
    + (* both to the right *)
      rewrite (pi_out _ _ _ _ P i), (pi_out _ _ _ _ P j) by lia.
      apply SO; [lia|]. intros t [<-|Ht] T1 T2.
      * unfold insl in *; lia.
      * apply (H t); auto. apply in_or_app; auto.
    + (* i to the left, j inside *)
      destruct (pi_in _ _ _ _ P j (conj J1 J2)) as [j' [Hj' Ej]].
      rewrite Ej, (pi_out _ _ _ _ P i) by lia.
      apply SO; [lia|]. intros t [<-|Ht] T1 T2.
      * unfold insl in *; lia.
      * apply (Ds t Ht j'); auto.
    + (* i to the left, j to the right *)
      rewrite (pi_out _ _ _ _ P i), (pi_out _ _ _ _ P j) by lia.
      apply SO; [lia|]. intros t [<-|Ht] T1 T2.
      * unfold insl in *; lia.
      * apply (H t); auto. apply in_or_app; auto.
    + (* both to the left *)
      rewrite (pi_out _ _ _ _ P i), (pi_out _ _ _ _ P j) by lia.
      apply SO; [lia|]. intros t [<-|Ht] T1 T2.
      * unfold insl in *; lia.
      * apply (H t); auto. apply in_or_app; auto.
Qed.

Lemma fst_let : forall (A B C : Type) (p : A * B) (f : B -> C),
  fst (let '(r, d) := p in (r, f d)) = fst p.
Proof. intros A B C [r d] f; reflexivity. Qed.

Lemma qloop_S : forall f a plo phi stack,
  fst (qloop (S f) a plo phi stack) =
  if S phi - plo <=? MAX_INSERTION then
    match stack with
    | [] => sort_slice a plo phi
    | (lo, hi) :: st => fst (qloop f (sort_slice a plo phi) lo hi st)
    end
  else
    let '(a5, pj) := pivot_step a plo phi in
    if phi - pj <=? pj - plo
    then fst (qloop f a5 (S pj) phi ((plo, pred pj) :: stack))
    else fst (qloop f a5 plo (pred pj) ((S pj, phi) :: stack)).
Proof.
  intros f a plo phi stack. unfold pivot_step.
  cbn [qloop].
  destruct (S phi - plo <=? MAX_INSERTION).
  - destruct stack as [|[lo hi] st]; [reflexivity|]. apply fst_let.
  - destruct (partition _ _ _ _ _) as [a4 pj].
    destruct (phi - pj <=? pj - plo); apply fst_let.
Qed.

Lemma qloop_correct : forall f a plo phi stack,
  Inv a ((plo, phi) :: stack) -> total ((plo, phi) :: stack) < f ->
  Permutation a (fst (qloop f a plo phi stack)) /\
  sorted_outside (fst (qloop f a plo phi stack)) [].
Proof.
  induction f as [|f IH]; intros a plo phi stack HI HT; [lia|].
  assert (HI' := HI). destruct HI' as [F _].
  inversion F as [|? ? Fs _]; subst. unfold okslice in Fs; simpl in Fs.
  cbn [total fst snd] in HT.
  rewrite qloop_S.
  destruct (Nat.leb_spec (S phi - plo) MAX_INSERTION) as [Hn|Hn].
  - destruct (sort_slice_spec a plo phi Fs) as [P S].
    assert (HI1 : Inv (sort_slice a plo phi) ([] ++ stack)).
    { apply (inv_refine a _ (plo, phi) stack []); simpl; auto;
        try (intros i j Hi Hij Hj _; apply S; auto). }
    simpl in HI1.
    destruct stack as [|[lo hi] st].
    + split; [apply P|apply HI1].
    + destruct (IH (sort_slice a plo phi) lo hi st HI1) as [P' S'].
      { cbn [total fst snd] in *. lia. }
      split; auto. eapply perm_trans; [apply P|exact P'].
  - destruct (pivot_step a plo phi) as [a5 pj] eqn:E.
    destruct (pivot_step_spec a plo phi a5 pj) as [Hpj [P [A B]]]; auto; try lia.
    assert (SN : forall i j, plo <= i -> i < j -> j <= phi ->
              (insl (S pj, phi) i -> insl (S pj, phi) j -> False) ->
              (insl (plo, pred pj) i -> insl (plo, pred pj) j -> False) ->
              (get a5 i <= get a5 j)%Z).
    { intros i j Hi Hij Hj N1 N2. unfold insl in *; simpl in *.
      destruct (le_lt_dec i pj) as [C1|C1]; [destruct (le_lt_dec pj j) as [C2|C2]|].
      - assert (get a5 i <= get a5 pj)%Z by (apply A; lia).
        assert (get a5 pj <= get a5 j)%Z by (apply B; lia). lia.
      - exfalso; apply N2; lia.
      - exfalso; apply N1; lia. }
    destruct (phi - pj <=? pj - plo).
    + assert (HI1 : Inv a5 ([(S pj, phi); (plo, pred pj)] ++ stack)).
      { apply (inv_refine a _ (plo, phi) stack); simpl; auto.
        - constructor; [simpl; lia|constructor; [simpl; lia|constructor]].
        - split; [|split; auto; intros t []].
          intros t [<-|[]] k; unfold insl; simpl; lia.
        - intros i j Hi Hij Hj H. apply SN; auto; apply H; auto. }
      destruct (IH a5 (S pj) phi ((plo, pred pj) :: stack) HI1) as [P' S'].
      { cbn [total fst snd] in *. lia. }
      split; auto. eapply perm_trans; [apply P|exact P'].
    + assert (HI1 : Inv a5 ([(plo, pred pj); (S pj, phi)] ++ stack)).
      { apply (inv_refine a _ (plo, phi) stack); simpl; auto.
        - constructor; [simpl; lia|constructor; [simpl; lia|constructor]].
        - split; [|split; auto; intros t []].
          intros t [<-|[]] k; unfold insl; simpl; lia.
        - intros i j Hi Hij Hj H. apply SN; auto; apply H; auto. }
      destruct (IH a5 plo (pred pj) ((S pj, phi) :: stack) HI1) as [P' S'].
      { cbn [total fst snd] in *. lia. }
      split; auto. eapply perm_trans; [apply P|exact P'].
Qed.

Lemma Inv_init : forall x r,
  Inv (x :: r) [(0, length (x :: r) - 1)].
Proof.
  intros x r. set (l := x :: r). split; [|split].
  - constructor; [|constructor]. unfold okslice, l; simpl; lia.
  - simpl; split; auto; intros t [].
  - intros i j Hij H. exfalso.
    apply (H (0, length l - 1)); [left; reflexivity| |]; unfold insl; cbn [fst snd]; lia.
Qed.

Lemma quicksort_perm : forall l : list Z, Permutation l (quicksort l).
Proof.
  intros [|x r]; [constructor|].
  unfold quicksort.
  apply qloop_correct; [apply Inv_init|]. simpl; lia.
Qed.

Lemma quicksort_ascending : forall l : list Z, ascending (quicksort l).
Proof.
  intros [|x r]; [constructor|].
  unfold quicksort. set (l := x :: r).
  apply nth_sorted. intros i j Hij.
  refine (proj2 (qloop_correct (S (length l)) l 0 (length l - 1) [] _ _) i j Hij _).
  - apply Inv_init.
  - unfold l; simpl; lia.
  - intros s [].
Qed.

Lemma quicksort_correct : forall l : list Z,
  ascending (quicksort l) /\ Permutation l (quicksort l).
Proof.
  intros l; split; [apply quicksort_ascending|apply quicksort_perm].
Qed.

Print Assumptions quicksort_correct.
