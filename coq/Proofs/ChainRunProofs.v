(* ChainRunProofs -- the primitive writes ChainRun.prims_of lists for a public
   call rebuild exactly the tree TreeRun.step computes; hence the pointer model
   realises the tree after every history of public calls.  No axioms. *)
From Coq Require Import ZArith List Bool Arith Lia.
From BT Require Import Model.RTree Model.TreeSpec Model.TreeRun Model.Persist Model.PersistSpec
                       Model.Chain Model.ChainRun Proofs.TreeProofs Proofs.ChainProofs.
Import ListNotations.
Open Scope Z_scope.

Section RunP.
Variables vs ir : bool.
Variables ml mi : nat.
Notation prim_step := (Chain.prim_step vs ml mi).
Notation prim_run := (Chain.prim_run vs ml mi).
Notation step := (TreeRun.step vs ir ml mi).
Notation prims_of := (ChainRun.prims_of vs ir ml mi).

(* the pointer state carries the same tree and allocation counter *)
Definition R (s : st) (p : pst) : Prop := p_tree p = t_tree s /\ p_fresh p = t_fresh s.

Lemma prim_run_app : forall p a b, prim_run p (a ++ b) = prim_run (prim_run p a) b.
Proof. intros. unfold Chain.prim_run. apply fold_left_app. Qed.
Lemma prim_run_one : forall p x, prim_run p [x] = prim_step p x.
Proof. reflexivity. Qed.
Lemma prim_run_nil : forall p, prim_run p [] = p.
Proof. reflexivity. Qed.

Lemma R_set : forall s p k v iu, R s p ->
  R (fst (fst (do_set vs ml mi s k v iu))) (prim_step p (PSet k v iu)).
Proof. intros s p k v iu [E1 E2]. unfold R, do_set, T_set. simpl. rewrite E1, E2. split; reflexivity. Qed.

Lemma R_same : forall s s' p, t_tree s' = t_tree s -> t_fresh s' = t_fresh s -> R s p -> R s' p.
Proof. intros s s' p A B [E1 E2]. split; congruence. Qed.

Lemma quirk_same : forall s stt,
  t_tree (set_nochange_quirk ir s stt) = t_tree s /\ t_fresh (set_nochange_quirk ir s stt) = t_fresh s.
Proof.
  intros s stt. unfold set_nochange_quirk.
  destruct stt; auto. destruct (t_tree s) as [i l|i kids] eqn:E; auto.
  destruct kids as [|[x c] r]; auto. destruct c as [j l|j kk]; auto. destruct r; auto.
  destruct ir; simpl; auto.
Qed.

Lemma R_add : forall s p k, R s p -> R (TreeRun.add vs ir ml mi s k) (prim_run p (add_prims s k)).
Proof.
  intros s p k H. unfold TreeRun.add, add_prims. rewrite prim_run_one.
  pose proof (R_set s p k 0 true H) as G.
  destruct (do_set vs ml mi s k 0 true) as [[s' stt] rv]. simpl in G.
  destruct (quirk_same s' stt) as [A B]. eapply R_same; eassumption.
Qed.

Lemma R_del_some : forall s p k s' x, R s p -> do_del s k = Some (s', x) -> R s' (prim_step p (PDel k)).
Proof.
  intros s p k s' x [E1 E2] H. unfold do_del, T_del in H. unfold R. simpl. rewrite E1.
  destruct (tdel Z (t_tree s) k) as [r|]; [|discriminate H]. injection H as <- _. simpl. auto.
Qed.
Lemma R_del_none : forall s p k, R s p -> do_del s k = None -> prim_step p (PDel k) = p.
Proof.
  intros s p k [E1 E2] H. unfold do_del, T_del in H. simpl. rewrite E1.
  destruct (tdel Z (t_tree s) k) as [r|]; [discriminate H | reflexivity].
Qed.
Lemma del_failed_same : forall s k,
  t_tree (del_failed ir s k) = t_tree s /\ t_fresh (del_failed ir s k) = t_fresh s.
Proof.
  intros s k. unfold del_failed. destruct (t_tree s) as [i l|i kids] eqn:E; simpl; auto.
  destruct kids; [destruct ir|]; simpl; auto.
Qed.

(* a delete-like call: the tree of do_del, or the old one *)
Lemma R_del_or : forall s p k (sf : st),
  t_tree sf = t_tree s -> t_fresh sf = t_fresh s -> R s p ->
  R (match do_del s k with Some (s', _) => s' | None => sf end) (prim_step p (PDel k)).
Proof.
  intros s p k sf A B H. destruct (do_del s k) as [[s' x]|] eqn:E.
  - eapply R_del_some; eassumption.
  - rewrite (R_del_none s p k H E). eapply R_same; eassumption.
Qed.

Lemma R_discard : forall s p k, R s p -> R (discard ir s k) (prim_run p (discard_prims s k)).
Proof.
  intros s p k H. unfold discard, discard_prims. destruct (has s k).
  - rewrite prim_run_one. exact (R_del_or s p k s eq_refl eq_refl H).
  - rewrite prim_run_nil. destruct (del_failed_same s k) as [A B].
    assert (G : forall b : bool, R (if b then del_failed ir s k else s) p).
    { intros [|]; [exact (R_same s _ p A B H) | exact H]. }
    apply G.
Qed.

Lemma R_clear : forall s p, R s p -> R (do_clear ir s) (prim_step p PClear).
Proof.
  intros s p [E1 E2]. unfold do_clear, R. simpl. rewrite E1.
  destruct (t_tree s) as [i l|i kids] eqn:E.
  - destruct l; simpl; rewrite ?E1, ?E; auto.
  - destruct kids as [|x r]; simpl; [destruct ir|]; simpl; rewrite ?E1, ?E; auto.
Qed.

Lemma R_fold : forall (A : Type) (f : st -> A -> st) (g : st -> A -> list prim),
  (forall s p x, R s p -> R (f s x) (prim_run p (g s x))) ->
  forall l s p, R s p -> R (fold_left f l s) (prim_run p (fold_prims f g l s)).
Proof.
  intros A f g Hfg. induction l as [|x r IH]; intros s p H; [exact H|].
  simpl. rewrite prim_run_app. apply IH. apply Hfg. exact H.
Qed.

End RunP.

Section RunP2.
Variables vs : bool.
Variables ml mi : nat.
Notation prim_run := (Chain.prim_run vs ml mi).
Notation prim_step := (Chain.prim_step vs ml mi).
Notation R_set := (R_set vs ml mi).
Notation R_del_or := (R_del_or vs ml mi).
Notation R_fold := (R_fold vs ml mi).
Notation prim_run_nil := (prim_run_nil vs ml mi).
Notation prim_run_one := (prim_run_one vs ml mi).
Notation prim_run_app := (prim_run_app vs ml mi).

Theorem prims_refine : forall ir s p c, R s p ->
  R (fst (TreeRun.step vs ir ml mi s c)) (prim_run p (ChainRun.prims_of vs ir ml mi s c)).
Proof.
  intros ir s p c H. destruct c; cbn [TreeRun.step ChainRun.prims_of]; try (rewrite prim_run_nil; exact H).
  - (* CSet *) rewrite prim_run_one. pose proof (R_set s p k v false H) as G.
    destruct (do_set vs ml mi s k v false) as [[s' stt] rv]. exact G.
  - (* CDel *) rewrite prim_run_one. destruct (del_failed_same ir s k) as [A B].
    pose proof (R_del_or s p k (del_failed ir s k) A B H) as G.
    destruct (do_del s k) as [[s' x]|]; exact G.
  - (* CInsert *) rewrite prim_run_one. pose proof (R_set s p k v true H) as G.
    destruct (do_set vs ml mi s k v true) as [[s' stt] rv]. exact G.
  - (* CSetdefault *)
    destruct (if ir then tget Z (t_tree s) k else None); [rewrite prim_run_nil; exact H|].
    rewrite prim_run_one. pose proof (R_set s p k v true H) as G.
    destruct (do_set vs ml mi s k v true) as [[s' stt] rv]. exact G.
  - (* CPop *) rewrite prim_run_one. destruct (del_failed_same ir s k) as [A B].
    pose proof (R_del_or s p k (if ir then s else del_failed ir s k)) as G.
    destruct (do_del s k) as [[s' x]|]; apply G; try exact H; destruct ir; auto.
  - (* CPopD *) rewrite prim_run_one. destruct (del_failed_same ir s k) as [A B].
    pose proof (R_del_or s p k (if ir then s else del_failed ir s k)) as G.
    destruct (do_del s k) as [[s' x]|]; apply G; try exact H; destruct ir; auto.
  - (* CPopitem *)
    destruct (contents Z (t_tree s)) as [|[k v] r]; [rewrite prim_run_nil; exact H|].
    rewrite prim_run_one. pose proof (R_del_or s p k s eq_refl eq_refl H) as G.
    destruct (do_del s k) as [[s' x]|]; exact G.
  - (* CUpdate *)
    apply (R_fold wkv); [|exact H]. intros s0 p0 x H0. rewrite prim_run_one.
    pose proof (R_set s0 p0 (fst (of_kv x)) (snd (of_kv x)) false H0) as G.
    destruct (do_set vs ml mi s0 (fst (of_kv x)) (snd (of_kv x)) false) as [[s' stt] rv]. exact G.
  - (* CClear *) rewrite prim_run_one. apply R_clear. exact H.
  - (* CAdd *) pose proof (R_add vs ir ml mi s p k H) as G. unfold TreeRun.add in G.
    destruct (do_set vs ml mi s k 0 true) as [[s' stt] rv]. exact G.
  - (* CRemove *) rewrite prim_run_one. destruct (del_failed_same ir s k) as [A B].
    pose proof (R_del_or s p k (del_failed ir s k) A B H) as G.
    destruct (do_del s k) as [[s' x]|]; exact G.
  - (* CDiscard *) apply R_discard. exact H.
  - (* CSPop *)
    destruct (contents Z (t_tree s)) as [|[k v] r]; [rewrite prim_run_nil; exact H|].
    apply R_discard. exact H.
  - (* CSUpdate *) apply (R_fold Z); [|exact H]. intros; apply R_add; assumption.
  - (* CIor *) apply (R_fold Z); [|exact H]. intros; apply R_add; assumption.
  - (* CIand *)
    destruct ir.
    + change (PClear :: ?x) with ([PClear] ++ x). rewrite prim_run_app, prim_run_one.
      apply (R_fold Z); [intros; apply R_add; assumption|]. apply R_clear. exact H.
    + apply (R_fold Z); [|exact H]. intros. apply R_discard. assumption.
  - (* CIsub *) apply (R_fold Z); [|exact H]. intros; apply R_discard; assumption.
  - (* CIxor *)
    apply (R_fold Z); [|exact H]. intros s0 p0 x H0.
    destruct (has s0 x); [apply R_discard | apply R_add]; assumption.
Qed.
End RunP2.

Section Calls.
Variables vs ir : bool.
Variables ml mi : nat.
Hypothesis Hml : (1 <= ml)%nat.
Hypothesis Hmi : (2 <= mi)%nat.

Lemma prim_run_ok : forall ps p, pst_ok ml mi p -> pst_ok ml mi (prim_run vs ml mi p ps).
Proof.
  induction ps as [|x r IH]; intros p H; [exact H|]. simpl. apply IH. apply prim_step_ok; assumption.
Qed.

Lemma run_cons : forall s c r,
  fst (run vs ir ml mi s (c :: r)) = fst (run vs ir ml mi (fst (step vs ir ml mi s c)) r).
Proof.
  intros. simpl. destruct (step vs ir ml mi s c) as [s1 o]. simpl.
  destruct (run vs ir ml mi s1 r) as [s2 os]. reflexivity.
Qed.

Lemma api_fold : forall cs s p, R s p -> pst_ok ml mi p ->
  let sp := fold_left (api_step vs ir ml mi) cs (s, p) in
  fst sp = fst (run vs ir ml mi s cs) /\ R (fst sp) (snd sp) /\ pst_ok ml mi (snd sp).
Proof.
  induction cs as [|c r IH]; intros s p HR Hok; [simpl; auto|].
  cbn [fold_left]. unfold api_step at 2. cbn [fst snd]. rewrite run_cons.
  apply IH; [apply prims_refine; exact HR | apply prim_run_ok; exact Hok].
Qed.

Theorem chain_calls : forall calls,
  let sp := api_run vs ir ml mi calls in
  let s := fst sp in let p := snd sp in
  s = fst (run vs ir ml mi init calls) /\
  p_tree p = t_tree s /\
  chain_ok Z (p_heap p) (t_tree s) /\
  walk_tree Z (p_heap p) (t_tree s) = leaf_ids Z (t_tree s).
Proof.
  intros calls sp s p.
  assert (R0 : R init pinit) by (split; reflexivity).
  assert (P0 : pst_ok ml mi pinit) by (apply (chain_reachable vs ml mi Hml Hmi [])).
  destruct (api_fold calls init pinit R0 P0) as (A & [B1 B2] & (C1 & C2 & C3)).
  fold (api_run vs ir ml mi calls) in A, B1, B2, C1, C2, C3. fold sp in A, B1, B2, C1, C2, C3.
  fold s in A, B1, B2. fold p in B1, B2, C1, C2, C3.
  split; [exact A|]. split; [exact B1|]. rewrite <- B1. split; [exact C3|].
  destruct C2 as [ND _].
  exact (proj2 (proj2 (chain_is_getstate_view Z ml mi Hml Hmi (p_tree p) (p_heap p) C1 ND C3))).
Qed.
End Calls.
