(* Specification vocabulary for C04 / C05a / C08 over the Persist model. *)
From Coq Require Import ZArith List Bool Arith.
From BT Require Import Model.RTree Model.TreeSpec Model.Check Model.CheckTree Model.Persist.
Import ListNotations.
Open Scope Z_scope.

Section PersistSpec.
Variable V : Type.
Notation tree := (tree V).

(* identities are pairwise distinct and below the allocation counter *)
Definition ids_ok (fresh : nat) (t : tree) : Prop :=
  NoDup (ids V t) /\ Forall (fun i => (i < fresh)%nat) (ids V t).

(* an operation announced object i: it marked it changed, or it changed the
   single leaf child (without oid) whose state i's record embeds *)
Definition marked (stored : list nat) (evs : list event) (i : nat) : Prop :=
  In (EChanged i) evs \/ exists l, In (EEmbed i l) evs /\ mem l stored = false.

(* every object the operation descended through declared itself as read *)
Fixpoint path_ids (t : tree) (k : Z) : list nat :=
  match t with
  | Leaf _ _ => []
  | Node i kids =>
    i :: (fix go (l : list (Z * tree)) : list nat :=
            match l with
            | [] => []
            | (_, c) :: rest => if chosen V k rest then path_ids c k else go rest
            end) kids
  end.

(* the store is up to date for the unchanged stored objects *)
Definition synced (t : tree) (p : pstate) (s : store V) : Prop :=
  forall i n, find_node V t i = Some n ->
    mem i (p_stored p) = true -> mem i (p_changed p) = false ->
    sget V s i = Some (getstate V (p_stored p) t n).
(* every object of the tree that has no oid is new: it will be written when a
   commit reaches it through the records that refer to it *)
Definition current (t : tree) (stored : list nat) (s : store V) : Prop :=
  forall i n, find_node V t i = Some n -> mem i stored = true ->
    sget V s i = Some (getstate V stored t n).

(* the guard under which a commit is order-independent (F16): only the ROOT
   may hold a single leaf that has no oid *)
Fixpoint no_embed_below (root : bool) (stored : list nat) (t : tree) : Prop :=
  match t with
  | Leaf _ _ => True
  | Node _ kids =>
    (match kids with
     | [(_, Leaf l _)] => root = true \/ mem l stored = true
     | _ => True
     end) /\
    (fix all (l : list (Z * tree)) : Prop :=
       match l with [] => True | (_, c) :: r => no_embed_below false stored c /\ all r end) kids
  end.

End PersistSpec.

(* decidable comparison of records, for the executable sanity check of the
   footprint statement inside the correspondence cases (V = Z) *)
Definition onat_eqb' (a b : option nat) : bool :=
  match a, b with None, None => true | Some x, Some y => Nat.eqb x y | _, _ => false end.
Fixpoint zz_eqb (a b : list (Z * Z)) : bool :=
  match a, b with
  | [], [] => true
  | (k, v) :: a', (k', v') :: b' => Z.eqb k k' && Z.eqb v v' && zz_eqb a' b'
  | _, _ => false
  end.
Fixpoint zn_eqb (a b : list (Z * nat)) : bool :=
  match a, b with
  | [], [] => true
  | (k, v) :: a', (k', v') :: b' => Z.eqb k k' && Nat.eqb v v' && zn_eqb a' b'
  | _, _ => false
  end.
Definition record_eqb (a b : record Z) : bool :=
  match a, b with
  | RLeaf l n, RLeaf l' n' => zz_eqb l l' && onat_eqb' n n'
  | REmpty, REmpty => true
  | REmbedded l n, REmbedded l' n' => zz_eqb l l' && onat_eqb' n n'
  | RNode k f, RNode k' f' => zn_eqb k k' && onat_eqb' f f'
  | _, _ => false
  end.
Definition marked_b (stored : list nat) (evs : list event) (i : nat) : bool :=
  existsb (fun e => match e with
                    | EChanged j => Nat.eqb i j
                    | EEmbed j l => Nat.eqb i j && negb (mem l stored)
                    | _ => false
                    end) evs.
(* footprint: every object present before and after whose record differs was announced *)
Fixpoint no_embed_below_b (root : bool) (stored : list nat) (t : tree Z) : bool :=
  match t with
  | Leaf _ _ => true
  | Node _ kids =>
    (match kids with
     | [(_, Leaf l _)] => root || mem l stored
     | _ => true
     end) &&
    (fix all (l : list (Z * tree Z)) : bool :=
       match l with [] => true | (_, c) :: r => no_embed_below_b false stored c && all r end) kids
  end.
(* every STORED object present before and after whose record differs was
   announced -- as long as only the root embeds a leaf (the guard of F16) *)
Definition footprint_ok (stored : list nat) (t t' : tree Z) (evs : list event) : bool :=
  negb (no_embed_below_b true stored t) ||
  forallb (fun i =>
             match find_node Z t i, find_node Z t' i with
             | Some n, Some n' =>
               negb (mem i stored) ||
               record_eqb (getstate Z stored t n) (getstate Z stored t' n') || marked_b stored evs i
             | _, _ => true
             end) (ids Z t).
(* reads: every stored interior node on the descent path of a mutating call is among the ERead events *)
Definition reads_ok (t : tree Z) (k : Z) (evs : list event) : bool :=
  forallb (fun i => existsb (fun e => match e with ERead j => Nat.eqb i j | _ => false end) evs) (path_ids Z t k).

Definition current_b (t : tree Z) (stored : list nat) (s : store Z) : bool :=
  forallb (fun i => match find_node Z t i with
                    | Some n => negb (mem i stored) ||
                                match sget Z s i with
                                | Some r => record_eqb r (getstate Z stored t n)
                                | None => false
                                end
                    | None => true
                    end) (ids Z t).
(* after a commit every object of the tree has an oid, except a leaf embedded in the root *)
Definition all_stored_b (t : tree Z) (stored : list nat) : bool :=
  match t with
  | Node r [(_, Leaf l _)] => mem r stored
  | _ => forallb (fun i => mem i stored) (ids Z t)
  end.

(* boolean forms of the three store facts assumed by C04_commit_partial, checked on every real commit *)
Definition no_stray_b (t : tree Z) (st : list nat) (s : store Z) : bool :=
  forallb (fun i => mem i st || match sget Z s i with None => true | Some _ => false end) (ids Z t).
Definition refs_closed_b (t : tree Z) (p : pstate) : bool :=
  forallb (fun i => match find_node Z t i with
                    | Some n => negb (mem i (p_stored p)) || mem i (p_changed p) ||
                                forallb (fun x => mem x (p_stored p)) (refs Z (getstate Z (p_stored p) t n))
                    | None => true
                    end) (ids Z t).
Definition dumps_ok_b (t : tree Z) (st : list nat) (seq : list nat) : bool :=
  match t with
  | Node _ [(_, Leaf l _)] => negb (mem l seq) || mem l st
  | _ => true
  end.

(* ---- plain pickling (C06): no object has an oid, every object is written once,
   with the state __getstate__ returns at that moment ---- *)
Section Pickle.
Variable V : Type.
Fixpoint subtrees (t : tree V) : list (tree V) :=
  t :: match t with
       | Leaf _ _ => []
       | Node _ kids => flat_map (fun sc => subtrees (snd sc)) kids
       end.
Definition dump_all (stored : list nat) (t : tree V) : store V :=
  map (fun n => (tid V n, getstate V stored t n)) (subtrees t).
End Pickle.
