(* C06: the object graph a plain pickle / deepcopy writes, in a canonical
   numbering (position of the object in the pre-order walk of the tree), and
   the wire form in which the harness reports what __getstate__ returned for
   every object of the real container. *)
From Coq Require Import ZArith List Bool.
From BT Require Import Model.CaseUtil Model.RTree Model.TreeSpec Model.TreeRun Model.Check Model.Persist Model.PersistSpec.
Import ListNotations.
Open Scope Z_scope.

Inductive wrec :=
| WRLeaf (items : list wkv) (next : Z)        (* (items[, next]);  -1 = no next *)
| WREmpty                                     (* None *)
| WREmb (items : list wkv) (next : Z)         (* ((leafstate,),) *)
| WRNode (kids : list wkv) (first : Z).       (* KV separator object-number; first separator reported as 0 *)

Fixpoint index_of (l : list nat) (i : nat) (n : Z) : Z :=
  match l with [] => -2 | x :: r => if Nat.eqb x i then n else index_of r i (n + 1) end.
Definition num (ids : list nat) (o : option nat) : Z :=
  match o with None => -1 | Some i => index_of ids i 0 end.
Definition canon_kids (ids : list nat) (kids : list (Z * nat)) : list wkv :=
  match kids with
  | [] => []
  | (_, c) :: r => KV 0 (index_of ids c 0) :: map (fun sc => KV (fst sc) (index_of ids (snd sc) 0)) r
  end.
Definition canon_rec (ids : list nat) (r : record Z) : wrec :=
  match r with
  | RLeaf items nx => WRLeaf (map kv_of items) (num ids nx)
  | REmpty => WREmpty
  | REmbedded items nx => WREmb (map kv_of items) (num ids nx)
  | RNode kids first => WRNode (canon_kids ids kids) (num ids first)
  end.
Definition pickle_graph (t : tree Z) : list wrec :=
  let ids := map (tid Z) (subtrees Z t) in
  map (fun e => canon_rec ids (snd e)) (dump_all Z [] t).

Definition wrec_eqb (a b : wrec) : bool :=
  match a, b with
  | WRLeaf i n, WRLeaf i' n' => kvl_eqb i i' && Z.eqb n n'
  | WREmpty, WREmpty => true
  | WREmb i n, WREmb i' n' => kvl_eqb i i' && Z.eqb n n'
  | WRNode k f, WRNode k' f' => kvl_eqb k k' && Z.eqb f f'
  | _, _ => false
  end.
Fixpoint wrecs_eqb (a b : list wrec) : bool :=
  match a, b with [], [] => true | x :: a', y :: b' => wrec_eqb x y && wrecs_eqb a' b' | _, _ => false end.

(* one history; the records of the real container in pre-order *)
Inductive wpkcase := PK (ml mi : nat) (vsame isC : bool) (calls : list call) (recs : list wrec).

Definition pkcase_ok (c : wpkcase) : bool :=
  match c with
  | PK ml mi vs ir calls recs =>
    let t := t_tree (fst (run vs ir ml mi init calls)) in
    let s := dump_all Z [] t in
    let fuel := S (length (ids Z t)) in
    wrecs_eqb (pickle_graph t) recs &&
    (* the statement of C06_pickle_roundtrip_partial, evaluated on this very tree *)
    (negb (no_embed_below_b true [] t) ||
     (kvl_eqb (map kv_of (load_items Z fuel s (tid Z t))) (map kv_of (contents Z t)) &&
      kvl_eqb (map kv_of (reader_iter Z fuel s (tid Z t))) (map kv_of (contents Z t)) &&
      match load Z fuel s (tid Z t) with Some p => pcheck_fn p | None => false end))
  end.
