(* What "an exact three-way merge or a refusal" means (C07), independent of
   the algorithm in Merge.v: key-level change sets over sorted association
   lists. *)
From Coq Require Import ZArith List Bool Sorted.
From BT Require Import Model.Merge.
Import ListNotations.
Open Scope Z_scope.

Section MergeSpec.
Variable V : Type.

Notation item := (Z * V)%type.

Fixpoint lookup (l : list item) (k : Z) : option V :=
  match l with
  | [] => None
  | (k', v) :: r => if Z.eqb k k' then Some v else lookup r k
  end.

(* keys strictly increasing: what every leaf state satisfies *)
Definition keys_sorted (l : list item) : Prop := StronglySorted Z.lt (map fst l).

(* transaction x touched key k: inserted, deleted, or changed its value *)
Definition touched (old x : list item) (k : Z) : Prop := lookup old k <> lookup x k.

(* x removed what was then the smallest key: no key <= the original minimum is left *)
Definition min_raised (old x : list item) : Prop :=
  match old, x with
  | (k0, _) :: _, (k1, _) :: _ => k0 < k1
  | _, _ => False
  end.

Definition guard (o c n : leafstate V) : Prop :=
  snd c = snd o /\ snd n = snd o /\
  fst c <> [] /\ fst n <> [] /\
  (forall k, ~ (touched (fst o) (fst c) k /\ touched (fst o) (fst n) k)) /\
  ~ min_raised (fst o) (fst c) /\ ~ min_raised (fst o) (fst n).

(* r = the original with both transactions' key-level changes applied *)
Definition merged (o c n r : list item) : Prop :=
  keys_sorted r /\
  forall k, (touched o c k -> lookup r k = lookup c k) /\
            (~ touched o c k -> lookup r k = lookup n k).

End MergeSpec.
