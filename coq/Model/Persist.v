(* Persistence layer over the RTree model (C04, C05a, C06, C08).
   Objects are the tree's nodes, identified by their ids.  An object is
   "stored" once it has an oid; "changed" = registered with the data manager.
   Events of an operation (RTree.event) are interpreted the way `persistent`
   does: marking an object without oid is a no-op; marking a stored object
   registers it.  A commit serialises objects one after the other; pickling
   an object's state assigns an oid to every referenced object that has none
   (persistent_id) and queues it.  __getstate__ embeds a single leaf child
   that has no oid *at that moment* inline. *)
From Coq Require Import ZArith List Bool Arith.
From BT Require Import Model.RTree Model.Check.
Import ListNotations.
Open Scope Z_scope.

Section Persist.
Variable V : Type.
Notation tree := (tree V).

Definition mem (i : nat) (l : list nat) : bool := existsb (Nat.eqb i) l.
Definition add (i : nat) (l : list nat) : list nat := if mem i l then l else i :: l.

Record pstate := mkP { p_stored : list nat; p_changed : list nat; p_read : list nat }.

(* ---------- events -> registration ---------- *)
(* readCurrent: the C extension declares the dependency only while the object
   is unchanged (cPersistence's readCurrent), Python whenever it is stored *)
Variable isC : bool.
Definition apply_event (p : pstate) (e : event) : pstate :=
  match e with
  | EChanged i => if mem i (p_stored p) then mkP (p_stored p) (add i (p_changed p)) (p_read p) else p
  | ERead i => if mem i (p_stored p) && (negb isC || negb (mem i (p_changed p))) then mkP (p_stored p) (p_changed p) (add i (p_read p)) else p
  | ENew _ => p
  | EEmbed i leaf =>
    if negb (mem leaf (p_stored p)) && mem i (p_stored p)
    then mkP (p_stored p) (add i (p_changed p)) (p_read p) else p
  end.
Definition apply_events (p : pstate) (evs : list event) : pstate := fold_left apply_event evs p.

(* ---------- stored records ---------- *)
Inductive record :=
| RLeaf (items : list (Z * V)) (next : option nat)
| REmpty                                                   (* None *)
| REmbedded (items : list (Z * V)) (next : option nat)     (* ((leafstate,),) *)
| RNode (kids : list (Z * nat)) (first : option nat).      (* ((c0, k1, c1, ...), firstbucket) *)

(* ids of the leaves in order, for the successor link *)
Definition leaf_ids (t : tree) : list nat := map fst (leaves V t).
Fixpoint succ_of (l : list nat) (i : nat) : option nat :=
  match l with
  | [] => None
  | x :: r => if Nat.eqb x i then (match r with [] => None | y :: _ => Some y end) else succ_of r i
  end.
Fixpoint first_leaf (t : tree) : option nat :=
  match t with
  | Leaf i _ => Some i
  | Node _ kids => match kids with [] => None | (_, c) :: _ => first_leaf c end
  end.

(* the subtree with identity i *)
Fixpoint find_node (t : tree) (i : nat) : option tree :=
  if Nat.eqb (tid V t) i then Some t else
  match t with
  | Leaf _ _ => None
  | Node _ kids =>
    (fix go (l : list (Z * tree)) : option tree :=
       match l with
       | [] => None
       | (_, c) :: rest => match find_node c i with Some x => Some x | None => go rest end
       end) kids
  end.

(* __getstate__ of object n inside the whole tree [root], given which objects have an oid *)
Definition getstate (stored : list nat) (root n : tree) : record :=
  match n with
  | Leaf i items => RLeaf items (succ_of (leaf_ids root) i)
  | Node _ [] => REmpty
  | Node _ [(_, Leaf l items)] =>
    if mem l stored then RNode [(0, l)] (Some l)
    else REmbedded items (succ_of (leaf_ids root) l)
  | Node _ kids => RNode (map (fun sc => (fst sc, tid V (snd sc))) kids) (first_leaf n)
  end.
(* objects a record refers to *)
Definition refs (r : record) : list nat :=
  match r with
  | RLeaf _ nx => match nx with Some x => [x] | None => [] end
  | REmpty => []
  | REmbedded _ nx => match nx with Some x => [x] | None => [] end
  | RNode kids first => map snd kids ++ match first with Some x => [x] | None => [] end
  end.

Definition store := list (nat * record).
Fixpoint sget (s : store) (i : nat) : option record :=
  match s with [] => None | (j, r) :: rest => if Nat.eqb i j then Some r else sget rest i end.
Definition sput (s : store) (i : nat) (r : record) : store := (i, r) :: s.

(* ---------- commit: dump the objects in the given sequence ---------- *)
(* each dump sees the oids assigned so far; references get oids when dumped *)
Fixpoint commit_seq (root : tree) (seq : list nat) (stored : list nat) (s : store) : list nat * store :=
  match seq with
  | [] => (stored, s)
  | i :: rest =>
    match find_node root i with
    | None => commit_seq root rest stored s
    | Some n =>
      let r := getstate stored root n in
      let stored' := fold_left (fun acc x => add x acc) (i :: refs r) stored in
      commit_seq root rest stored' (sput s i r)
    end
  end.
(* a sequence is complete when it dumps every registered object and every
   object that has an oid afterwards but no record *)
Definition complete (root : tree) (p : pstate) (seq : list nat) (s : store) : bool :=
  let '(stored', s') := commit_seq root seq (p_stored p) s in
  forallb (fun i => mem i seq) (p_changed p) &&
  forallb (fun i => match sget s' i with Some _ => true | None => false end) stored'.
Definition commit (root : tree) (p : pstate) (seq : list nat) (s : store) : pstate * store :=
  let '(stored', s') := commit_seq root seq (p_stored p) s in
  (mkP stored' [] [], s').

(* ---------- a fresh reader: rebuild from the records ---------- *)
(* an embedded leaf is a distinct object for the reader: identity inl + owner *)
Definition inline_id (owner : nat) : nat := (1000000 + owner)%nat.
Fixpoint load (fuel : nat) (s : store) (i : nat) : option pnode :=
  match fuel with
  | O => None
  | S f =>
    match sget s i with
    | None => None
    | Some (RLeaf items nx) => Some (PLeaf i (map fst items) nx)
    | Some REmpty => Some (PNode i None [])
    | Some (REmbedded items nx) =>
      Some (PNode i (Some (inline_id i)) [(0, PLeaf (inline_id i) (map fst items) nx)])
    | Some (RNode kids first) =>
      (fix go (l : list (Z * nat)) (acc : list (Z * pnode)) : option pnode :=
         match l with
         | [] => Some (PNode i first (rev acc))
         | (sp, c) :: rest => match load f s c with Some pc => go rest ((sp, pc) :: acc) | None => None end
         end) kids []
    end
  end.
(* what the reader sees by descent *)
Fixpoint load_items (fuel : nat) (s : store) (i : nat) : list (Z * V) :=
  match fuel with
  | O => []
  | S f =>
    match sget s i with
    | Some (RLeaf items _) | Some (REmbedded items _) => items
    | Some (RNode kids _) => flat_map (fun sc => load_items f s (snd sc)) kids
    | _ => []
    end
  end.
(* what the reader sees by following the chain from the root's firstbucket *)
Fixpoint chain_items (fuel : nat) (s : store) (cur : option nat) : list (Z * V) :=
  match fuel, cur with
  | S f, Some i => match sget s i with
                   | Some (RLeaf items nx) => items ++ chain_items f s nx
                   | _ => []
                   end
  | _, _ => []
  end.
Definition root_first (s : store) (root : nat) : option nat * list (Z * V) :=
  match sget s root with
  | Some (RNode _ first) => (first, [])
  | Some (REmbedded items _) => (None, items)
  | _ => (None, [])
  end.
Definition reader_iter (fuel : nat) (s : store) (root : nat) : list (Z * V) :=
  let '(f, inline) := root_first s root in inline ++ chain_items fuel s f.

End Persist.

Arguments RLeaf {V}. Arguments REmpty {V}. Arguments REmbedded {V}. Arguments RNode {V}.
