(* Literal model of bucket_merge (MergeTemplate.c) / Bucket._p_resolveConflict
   and Set._p_resolveConflict (_base.py), with cursor positions and reason
   codes, plus the wrappers _bucket__p_resolveConflict and
   BTree__p_resolveConflict / _get_simple_btree_bucket_state.

   Keys are Z (see DESIGN.md 3.1: the algorithms only compare keys, every
   finite key set of any family embeds order-isomorphically into Z); values
   are an arbitrary type with a boolean equality.  A Set is the instance
   V := unit, veq := fun _ _ => true ("set ||" in the C source). *)
From Coq Require Import ZArith List Bool.
Import ListNotations.
Open Scope Z_scope.

Section Merge.
Variable V : Type.
Variable veq : V -> V -> bool.

Definition item := (Z * V)%type.

Inductive mres :=
| MOk (r : list item)
| MConflict (p1 p2 p3 reason : Z)
| MFuel.

(* SetIteration.position: 1-based index of the current item, -1 when exhausted *)
Definition pos (consumed : nat) (rest : list item) : Z :=
  match rest with [] => -1 | _ :: _ => Z.of_nat consumed + 1 end.

(* [acc] is the output bucket in reverse order; po/pc/pn count consumed items *)
Fixpoint merge3 (fuel : nat) (o c n : list item) (po pc pn : nat)
         (acc : list item) : mres :=
  match fuel with
  | O => MFuel
  | S f =>
    let err r := MConflict (pos po o) (pos pc c) (pos pn n) r in
    match o, c, n with
    | (k1, v1) :: o', (k2, v2) :: c', (k3, v3) :: n' =>
      match k1 ?= k2, k1 ?= k3 with
      | Eq, Eq =>
        if veq v1 v2 then merge3 f o' c' n' (S po) (S pc) (S pn) ((k3, v3) :: acc)
        else if veq v1 v3 then merge3 f o' c' n' (S po) (S pc) (S pn) ((k2, v2) :: acc)
        else err 1
      | Eq, Gt => merge3 f o c n' po pc (S pn) ((k3, v3) :: acc)
      | Eq, Lt =>
        if veq v1 v2 then
          (if Nat.eqb pn 0 then err 13 else merge3 f o' c' n (S po) (S pc) pn acc)
        else err 2
      | Gt, Eq => merge3 f o c' n po (S pc) pn ((k2, v2) :: acc)
      | Lt, Eq =>
        if veq v1 v3 then
          (if Nat.eqb pc 0 then err 13 else merge3 f o' c n' (S po) pc (S pn) acc)
        else err 3
      | c12, c13 =>
        match k2 ?= k3 with
        | Eq => err 4
        | c23 =>
          match c12 with
          | Gt => match c23 with
                  | Gt => merge3 f o c n' po pc (S pn) ((k3, v3) :: acc)
                  | _ => merge3 f o c' n po (S pc) pn ((k2, v2) :: acc)
                  end
          | _ => match c13 with
                 | Gt => merge3 f o c n' po pc (S pn) ((k3, v3) :: acc)
                 | _ => err 5
                 end
          end
        end
      end
    (* original exhausted: "new inserts" *)
    | [], (k2, v2) :: c', (k3, v3) :: n' =>
      match k2 ?= k3 with
      | Eq => err 6
      | Gt => merge3 f o c n' po pc (S pn) ((k3, v3) :: acc)
      | Lt => merge3 f o c' n po (S pc) pn ((k2, v2) :: acc)
      end
    (* new exhausted: the remainder of the original was deleted in new *)
    | (k1, v1) :: o', (k2, v2) :: c', [] =>
      match k1 ?= k2 with
      | Gt => merge3 f o c' n po (S pc) pn ((k2, v2) :: acc)
      | Eq => if veq v1 v2 then merge3 f o' c' n (S po) (S pc) pn acc else err 7
      | Lt => err 7
      end
    (* committed exhausted *)
    | (k1, v1) :: o', [], (k3, v3) :: n' =>
      match k1 ?= k3 with
      | Gt => merge3 f o c n' po pc (S pn) ((k3, v3) :: acc)
      | Eq => if veq v1 v3 then merge3 f o' c n' (S po) pc (S pn) acc else err 8
      | Lt => err 8
      end
    | _ :: _, [], [] => err 9
    | [], _ :: _, [] => MOk (rev acc ++ c)
    | [], [], _ => MOk (rev acc ++ n)
    end
  end.

Definition merge_fuel (o c n : list item) : nat :=
  S (length o + length c + length n).

(* a leaf state: items and the successor link (an opaque id) *)
Definition leafstate := (list item * option Z)%type.

Definition onext_eqb (a b : option Z) : bool :=
  match a, b with
  | None, None => true
  | Some x, Some y => Z.eqb x y
  | _, _ => false
  end.

Definition is_nil {A} (l : list A) : bool := match l with [] => true | _ => false end.

Inductive rres :=
| ROk (s : leafstate)
| RConflict (p1 p2 p3 reason : Z)
| RTypeError
| RFuel.

(* _bucket__p_resolveConflict + bucket_merge prologue/epilogue *)
Definition bucket_resolve (o c n : leafstate) : rres :=
  if negb (onext_eqb (snd o) (snd c) && onext_eqb (snd o) (snd n)) then
    RConflict (-1) (-1) (-1) 0
  else if is_nil (fst c) || is_nil (fst n) then RConflict (-1) (-1) (-1) 12
  else match merge3 (merge_fuel (fst o) (fst c) (fst n)) (fst o) (fst c) (fst n) 0 0 0 [] with
       | MOk r => if is_nil r then RConflict (-1) (-1) (-1) 10 else ROk (r, snd o)
       | MConflict a b d r => RConflict a b d r
       | MFuel => RFuel
       end.

(* tree-level state as seen by BTree__p_resolveConflict *)
Inductive tstate :=
| TNone                       (* None: empty tree *)
| TEmbedded (s : leafstate)   (* ((leafstate,),) *)
| TMulti                      (* 2-tuple: children + firstbucket *)
| TBad.                       (* anything else *)

Inductive gres := GState (s : leafstate) | GConflict11 | GTypeError.

Definition get_bucket_state (t : tstate) : gres :=
  match t with
  | TNone => GState ([], None)
  | TEmbedded s => GState s
  | TMulti => GConflict11
  | TBad => GTypeError
  end.

Definition tree_resolve (o c n : tstate) : rres :=
  match get_bucket_state o with
  | GConflict11 => RConflict (-1) (-1) (-1) 11
  | GTypeError => RTypeError
  | GState so =>
    match get_bucket_state c with
    | GConflict11 => RConflict (-1) (-1) (-1) 11
    | GTypeError => RTypeError
    | GState sc =>
      match get_bucket_state n with
      | GConflict11 => RConflict (-1) (-1) (-1) 11
      | GTypeError => RTypeError
      | GState sn => bucket_resolve so sc sn
      end
    end
  end.

(* ---- equality on results, for the correspondence case files ---- *)
Fixpoint items_eqb (a b : list item) : bool :=
  match a, b with
  | [], [] => true
  | (k, v) :: a', (k', v') :: b' => Z.eqb k k' && veq v v' && items_eqb a' b'
  | _, _ => false
  end.

Definition rres_eqb (a b : rres) : bool :=
  match a, b with
  | ROk (l, x), ROk (l', x') => items_eqb l l' && onext_eqb x x'
  | RConflict a1 a2 a3 a4, RConflict b1 b2 b3 b4 =>
    Z.eqb a1 b1 && Z.eqb a2 b2 && Z.eqb a3 b3 && Z.eqb a4 b4
  | RTypeError, RTypeError => true
  | _, _ => false
  end.

End Merge.

Arguments MOk {V}. Arguments MConflict {V}. Arguments MFuel {V}.
Arguments ROk {V}. Arguments RConflict {V}. Arguments RTypeError {V}. Arguments RFuel {V}.
Arguments TNone {V}. Arguments TEmbedded {V}. Arguments TMulti {V}. Arguments TBad {V}.

(* ---- wire format of the correspondence case files (monomorphic on purpose:
   elaborating big literals of polymorphic types is ~15x slower) ---- *)
Definition ueq (_ _ : unit) : bool := true.

Inductive wit := WI (k v : Z).
Inductive wnx := WN | WS (id : Z).
Inductive wls := WL (l : list wit) (n : wnx).
Inductive wr := WOk (s : wls) | WConf (a b c d : Z) | WTypeErr | WOther.
Inductive wts := WTNone | WTEmb (s : wls) | WTMulti | WTBad.
Inductive wcase :=
| WLeaf (setlike : bool) (o c n : wls) (ec ep : wr)
| WTree (setlike : bool) (o c n : wts) (ec ep : wr).

Definition nx_of (n : wnx) : option Z := match n with WN => None | WS i => Some i end.
Definition ls_z (s : wls) : leafstate Z :=
  match s with WL l n => (map (fun i => match i with WI k v => (k, v) end) l, nx_of n) end.
Definition ls_u (s : wls) : leafstate unit :=
  match s with WL l n => (map (fun i => match i with WI k _ => (k, tt) end) l, nx_of n) end.
Definition r_z (r : wr) : rres Z :=
  match r with WOk s => ROk (ls_z s) | WConf a b c d => RConflict a b c d
          | WTypeErr => RTypeError | WOther => RFuel end.
Definition r_u (r : wr) : rres unit :=
  match r with WOk s => ROk (ls_u s) | WConf a b c d => RConflict a b c d
          | WTypeErr => RTypeError | WOther => RFuel end.
Definition ts_z (t : wts) : tstate Z :=
  match t with WTNone => TNone | WTEmb s => TEmbedded (ls_z s) | WTMulti => TMulti | WTBad => TBad end.
Definition ts_u (t : wts) : tstate unit :=
  match t with WTNone => TNone | WTEmb s => TEmbedded (ls_u s) | WTMulti => TMulti | WTBad => TBad end.

(* a case is ok when the model's answer equals what C and Python both returned *)
Definition wcase_ok (c : wcase) : bool :=
  match c with
  | WLeaf false o cm n ec ep =>
    let r := bucket_resolve Z Z.eqb (ls_z o) (ls_z cm) (ls_z n) in
    rres_eqb Z Z.eqb r (r_z ec) && rres_eqb Z Z.eqb r (r_z ep)
  | WLeaf true o cm n ec ep =>
    let r := bucket_resolve unit ueq (ls_u o) (ls_u cm) (ls_u n) in
    rres_eqb unit ueq r (r_u ec) && rres_eqb unit ueq r (r_u ep)
  | WTree false o cm n ec ep =>
    let r := tree_resolve Z Z.eqb (ts_z o) (ts_z cm) (ts_z n) in
    rres_eqb Z Z.eqb r (r_z ec) && rres_eqb Z Z.eqb r (r_z ep)
  | WTree true o cm n ec ep =>
    let r := tree_resolve unit ueq (ts_u o) (ts_u cm) (ts_u n) in
    rres_eqb unit ueq r (r_u ec) && rres_eqb unit ueq r (r_u ep)
  end.
