(* The use / unuse discipline (PER_USE ... PER_UNUSE, the sticky state of
   cPersistence) of the three kinds of descent of the C extension, as traces:

     DGet   _BTree_get -> _bucket_get          (lookup, has_key, in, get):
            the pin is HANDED OVER from a node to its child (PER_UNUSE(self);
            self = child; PER_USE(self)); the bottom interior node stays
            pinned while _bucket_get, which pins the bucket itself, runs.
     DSet   _BTree_set -> _bucket_set          (insert, delete, setdefault, pop):
            recursion: every node on the path stays pinned until its callee
            returns; every error exit is `goto Error: PER_UNUSE(self); return -1`.
     DRange BTree_maxminKey -> BTree_findRangeEnd -> Bucket_findRangeEnd
            (minKey(k), maxKey(k); each end of keys/values/items(min, max)):
            the caller pins the root for the whole call; below the root the
            pin is handed over (self_got_rebound); Bucket_findRangeEnd pins
            the bucket; `Done:` unpins the rebound self, the caller the root.

   A trace lists PER_USE / PER_UNUSE and every three-way comparison of the
   argument with a stored key (the only points at which foreign code -- a
   key's __lt__, hence a cache sweep or an exception -- can run).  The
   parameter [c] is the countdown of the comparison that RAISES (None: no
   comparison raises); the traces are written routine by routine with their
   error exits, not as "prefix + unwind".

   Not in the traces: the comparison-free tails (reading child->len after the
   callee returned, BTree_grow, the firstbucket bookkeeping of a delete,
   lastBucket / next after a range search): pairs PER_USE(x) ... PER_UNUSE(x)
   around field reads during which no foreign code runs. *)
From Coq Require Import ZArith List Bool Arith.
From BT Require Import Model.RTree Model.Search.
Import ListNotations.
Open Scope Z_scope.

Inductive pev :=
| PUse (id : nat)
| PUnuse (id : nat)
| PCmp (id : nat) (key : Z).     (* the argument is compared with [key], stored in node [id] *)

Inductive disc := DGet | DSet | DRange.

(* the comparisons one search performs in node [id]; (events, countdown left, raised?) *)
Fixpoint cmps (id : nat) (ps : list Z) (c : option nat) : list pev * option nat * bool :=
  match ps with
  | [] => ([], c, false)
  | x :: r =>
    match c with
    | Some O => ([PCmp id x], Some O, true)
    | Some (S n) => let '(e, c', f) := cmps id r (Some n) in (PCmp id x :: e, c', f)
    | None => let '(e, c', f) := cmps id r None in (PCmp id x :: e, c', f)
    end
  end.

Section Paths.
Variable V : Type.
Notation tree := (tree V).

(* the nodes a descent for k visits, each with the stored keys it compares k
   with there ([sepcheck]: a delete also compares k with the node key of the
   chosen child, when that is not child 0) *)
Fixpoint path_probes (sepcheck : bool) (t : tree) (k : Z) : list (nat * list Z) :=
  match t with
  | Leaf id items => [(id, snd (bucket_search (map fst items) k))]
  | Node id [] => [(id, [])]
  | Node id kids =>
    let '(i, tr) := btree_search (map fst kids) k in
    (id, tr ++ (if sepcheck && negb (i =? 0)%nat then [zget (map fst kids) i] else [])) ::
    match nth_error kids i with
    | Some _ =>
      (fix go (l : list (Z * tree)) (j : nat) : list (nat * list Z) :=
         match l with
         | [] => []
         | (_, c') :: rest => if (j =? i)%nat then path_probes sepcheck c' k else go rest (S j)
         end) kids 0%nat
    | None => []
    end
  end.
End Paths.

(* _BTree_set / _bucket_set *)
Fixpoint set_tr (p : list (nat * list Z)) (c : option nat) : list pev * option nat * bool :=
  match p with
  | [] => ([], c, false)
  | (id, ps) :: rest =>
    let '(e1, c1, f1) := cmps id ps c in
    if f1 then (PUse id :: e1 ++ [PUnuse id], c1, true)            (* goto Error *)
    else let '(e2, c2, f2) := set_tr rest c1 in
         (PUse id :: e1 ++ e2 ++ [PUnuse id], c2, f2)               (* Done: / status < 0: goto Error *)
  end.

(* the loop of _BTree_get from the node [id] on, which is pinned when the loop
   is entered and is unpinned by whoever leaves the loop *)
Fixpoint get_loop (id : nat) (ps : list Z) (rest : list (nat * list Z)) (c : option nat)
  : list pev * option nat * bool :=
  let '(e1, c1, f1) := cmps id ps c in
  if f1 then (e1 ++ [PUnuse id], c1, true)                          (* BTREE_SEARCH(..., goto Done) *)
  else match rest with
       | [] => (e1 ++ [PUnuse id], c1, false)                       (* empty tree / no child: Done *)
       | [(b, bps)] =>                                               (* _bucket_get(child) under self's pin *)
         let '(e2, c2, f2) := cmps b bps c1 in
         (e1 ++ PUse b :: e2 ++ [PUnuse b; PUnuse id], c2, f2)
       | (id2, ps2) :: rest2 =>                                      (* PER_UNUSE(self); self = child; PER_USE *)
         let '(e2, c2, f2) := get_loop id2 ps2 rest2 c1 in
         (e1 ++ PUnuse id :: PUse id2 :: e2, c2, f2)
       end.
Definition get_tr (p : list (nat * list Z)) (c : option nat) : list pev * option nat * bool :=
  match p with
  | [] => ([], c, false)
  | [(b, bps)] => let '(e, c', f) := cmps b bps c in (PUse b :: e ++ [PUnuse b], c', f)   (* Bucket.get *)
  | (id, ps) :: rest => let '(e, c', f) := get_loop id ps rest c in (PUse id :: e, c', f)
  end.

(* the loop of BTree_findRangeEnd below the root: [id] is the current self,
   [reb] says whether it is a rebound self (pinned by the loop) or the root
   (pinned by the caller) *)
Fixpoint range_loop (id : nat) (reb : bool) (ps : list Z) (rest : list (nat * list Z)) (c : option nat)
  : list pev * option nat * bool :=
  let done := if reb then [PUnuse id] else [] in
  let '(e1, c1, f1) := cmps id ps c in
  if f1 then (e1 ++ done, c1, true)                                  (* BTREE_SEARCH(..., goto Done) *)
  else match rest with
       | [] => (e1 ++ done, c1, false)
       | [(b, bps)] =>                                               (* Bucket_findRangeEnd(pbucket) *)
         let '(e2, c2, f2) := cmps b bps c1 in
         (e1 ++ PUse b :: e2 ++ PUnuse b :: done, c2, f2)
       | (id2, ps2) :: rest2 =>                                      (* if (self_got_rebound) PER_UNUSE(self); self = pchild; PER_USE *)
         let '(e2, c2, f2) := range_loop id2 true ps2 rest2 c1 in
         (e1 ++ done ++ PUse id2 :: e2, c2, f2)
       end.
Definition range_tr (p : list (nat * list Z)) (c : option nat) : list pev * option nat * bool :=
  match p with
  | [] => ([], c, false)
  | [(b, bps)] => let '(e, c', f) := cmps b bps c in (PUse b :: e ++ [PUnuse b], c', f)   (* Bucket.minKey(k) *)
  | (id, ps) :: rest =>
    let '(e, c', f) := range_loop id false ps rest c in (PUse id :: e ++ [PUnuse id], c', f)  (* BTree_maxminKey: err / normal exit *)
  end.

(* BTree_rangeSearch with both bounds given (keys / values / items (min, max)): the root stays pinned over BOTH
   range-end searches; an unusable or failing low end leaves through `err`, a low end that finds nothing through
   `empty` (no second search).  [lowfound]: the low-end search found a position.  The comparison of the two end
   keys that follows when they lie in different buckets is made on references the routine owns, with only the
   root pinned; it involves no argument key and is not part of the trace. *)
Definition range2_tr (p1 p2 : list (nat * list Z)) (lowfound : bool) (c : option nat) : list pev * option nat * bool :=
  match p1 with
  | [] => ([], c, false)
  | (id, ps) :: rest =>
    let '(e1, c1, f1) := range_loop id false ps rest c in
    if f1 then (PUse id :: e1 ++ [PUnuse id], c1, true)                    (* rc < 0: goto err *)
    else if lowfound then
      match p2 with
      | (_, ps2) :: rest2 =>                                                (* the same root *)
        let '(e2, c2, f2) := range_loop id false ps2 rest2 c1 in
        (PUse id :: e1 ++ e2 ++ [PUnuse id], c2, f2)
      | [] => (PUse id :: e1 ++ [PUnuse id], c1, false)
      end
    else (PUse id :: e1 ++ [PUnuse id], c1, false)                          (* goto empty *)
  end.

Definition pin_trace (d : disc) (p : list (nat * list Z)) (c : option nat) : list pev * option nat * bool :=
  match d with DGet => get_tr p c | DSet => set_tr p c | DRange => range_tr p c end.

(* ---------- reading a trace ---------- *)
Fixpoint remove1 (x : nat) (l : list nat) : list nat :=
  match l with [] => [] | y :: r => if (x =? y)%nat then r else y :: remove1 x r end.
(* the pin counts as a list (a node appears once per outstanding PER_USE) *)
Definition pstep (pins : list nat) (e : pev) : list nat :=
  match e with PUse i => i :: pins | PUnuse i => remove1 i pins | PCmp _ _ => pins end.
Definition pins_after (tr : list pev) (pins : list nat) : list nat := fold_left pstep tr pins.

(* at every comparison: (stored key, node holding it, nodes pinned then) *)
Fixpoint observe (tr : list pev) (pins : list nat) : list (Z * nat * list nat) :=
  match tr with
  | [] => []
  | PCmp i x :: r => (x, i, pins) :: observe r pins
  | e :: r => observe r (pstep pins e)
  end.

(* a PER_UNUSE of a node that is not pinned never happens *)
Fixpoint unuse_ok (tr : list pev) (pins : list nat) : bool :=
  match tr with
  | [] => true
  | PUnuse i :: r => existsb (Nat.eqb i) pins && unuse_ok r (remove1 i pins)
  | e :: r => unuse_ok r (pstep pins e)
  end.

Definition prefix_ids (p : list (nat * list Z)) : list nat := map fst p.

(* ---------- wire (correspondence) ---------- *)
(* nodes are numbered in preorder, as the harness numbers the objects *)
Fixpoint number (w : wtr) (n : nat) : tree Z * nat :=
  match w with
  | WTL keys => (Leaf n (map (fun k => (k, 0)) keys), S n)
  | WTN kids =>
    let '(ks, n') :=
      (fix go (l : list wtk) (m : nat) : list (Z * tree Z) * nat :=
         match l with
         | [] => ([], m)
         | WTK s c :: r => let '(t, m1) := number c m in let '(r', m2) := go r m1 in ((s, t) :: r', m2)
         end) kids (S n) in
    (Node n ks, n')
  end.

Fixpoint insert_sorted (x : nat) (l : list nat) : list nat :=
  match l with [] => [x] | y :: r => if (x <=? y)%nat then x :: l else y :: insert_sorted x r end.
Definition sort_nat (l : list nat) : list nat := fold_right insert_sorted [] l.
Fixpoint nl_eqb (a b : list nat) : bool :=
  match a, b with [] , [] => true | x :: a', y :: b' => Nat.eqb x y && nl_eqb a' b' | _, _ => false end.

(* a three-way comparison is one or two primitive comparisons with the same
   stored key: consecutive observations with the same key in the same node
   are one *)
Fixpoint collapse_obs (l : list (Z * list nat)) : list (Z * list nat) :=
  match l with
  | [] => []
  | (x, p) :: r => match r with
                   | [] => [(x, p)]
                   | (y, q) :: _ => if (x =? y) && nl_eqb p q then collapse_obs r else (x, p) :: collapse_obs r
                   end
  end.
Fixpoint obs_prefixb (a b : list (Z * list nat)) : bool :=
  match a, b with
  | [], _ => true
  | (x, p) :: a', (y, q) :: b' => (x =? y) && nl_eqb p q && obs_prefixb a' b'
  | _, _ => false
  end.
Fixpoint obs_eqb (a b : list (Z * list nat)) : bool :=
  match a, b with
  | [], [] => true
  | (x, p) :: a', (y, q) :: b' => (x =? y) && nl_eqb p q && obs_eqb a' b'
  | _, _ => false
  end.

Definition disc_of (n : nat) : disc := match n with O => DGet | 1%nat => DSet | _ => DRange end.

(* [complete]: the call ran to its end (no comparison raised) -- the observed
   (stored key, pinned nodes) sequence must be the model's; otherwise (a
   comparison raised somewhere) it must be a prefix of it.  In both cases the
   model's trace with the raising comparison at ANY position of the observed
   length leaves nothing pinned -- that part is a theorem (Props/C05.v), the
   implementation's side is observed by the harness directly. *)
Inductive wpincase := PINC (t : wtr) (d : nat) (sepcheck : bool) (k : Z) (complete : bool) (obs : list (Z * list nat)).
Definition model_obs (t : wtr) (d : nat) (sepcheck : bool) (k : Z) : list (Z * list nat) :=
  let p := path_probes Z sepcheck (fst (number t 0%nat)) k in
  let '(tr, _, _) := pin_trace (disc_of d) p None in
  collapse_obs (map (fun o => match o with (x, _, pins) => (x, sort_nat pins) end) (observe tr [])).
Definition pincase_ok (c : wpincase) : bool :=
  match c with
  | PINC t d sc k complete obs =>
    let m := model_obs t d sc k in
    if complete then obs_eqb (collapse_obs obs) m else obs_prefixb (collapse_obs obs) m
  end.

(* keys(k1, k2) on a tree: [lowfound] is decided by the contents (C02: the low end is found iff some key >= k1) *)
Inductive wpincase2 := PINC2 (t : wtr) (k1 k2 : Z) (complete : bool) (obs : list (Z * list nat)).
Definition model_obs2 (t : wtr) (k1 k2 : Z) : list (Z * list nat) :=
  let tr0 := fst (number t 0%nat) in
  let lowfound := existsb (fun kv => k1 <=? fst kv) (contents Z tr0) in
  let '(tr, _, _) := range2_tr (path_probes Z false tr0 k1) (path_probes Z false tr0 k2) lowfound None in
  collapse_obs (map (fun o => match o with (x, _, pins) => (x, sort_nat pins) end) (observe tr [])).
Definition pincase2_ok (c : wpincase2) : bool :=
  match c with
  | PINC2 t k1 k2 complete obs =>
    let m := model_obs2 t k1 k2 in
    if complete then obs_eqb (collapse_obs obs) m else obs_prefixb (collapse_obs obs) m
  end.
