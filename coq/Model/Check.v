(* C18: the diagnostic checkers on ARBITRARY stored states.
   A state is what __setstate__ can install: leaves with keys and a next
   pointer, interior nodes with separators, children and a firstbucket
   pointer.  Pointers are leaf identities (nat); nothing is assumed about
   them.  check_value models BTrees.check.check() (Walker + Checker),
   pcheck models the _check() method (BTree_check_inner / _Tree._check). *)
From Coq Require Import ZArith List Bool Arith Sorted.
Import ListNotations.
Open Scope Z_scope.

Inductive pnode :=
| PLeaf (id : nat) (keys : list Z) (next : option nat)
| PNode (id : nat) (first : option nat) (kids : list (Z * pnode)).   (* first separator unused *)

Definition is_pleaf (p : pnode) : bool := match p with PLeaf _ _ _ => true | _ => false end.
Definition psize (p : pnode) : nat := match p with PLeaf _ k _ => length k | PNode _ _ k => length k end.
Definition onat_eqb (a b : option nat) : bool :=
  match a, b with None, None => true | Some x, Some y => Nat.eqb x y | _, _ => false end.

(* ---------- BTrees.check.check(): keys ascending and inside [lo, hi) ---------- *)
Definition okb (lo hi : option Z) (x : Z) : bool :=
  (match lo with None => true | Some a => a <=? x end) &&
  (match hi with None => true | Some b => x <? b end).
Fixpoint check_sorted (lo hi : option Z) (keys : list Z) : bool :=
  match keys with
  | [] => true
  | x :: r => okb lo hi x && (match r with [] => true | y :: _ => x <? y end) && check_sorted lo hi r
  end.

Fixpoint check_value (lo hi : option Z) (p : pnode) {struct p} : bool :=
  match p with
  | PLeaf _ keys _ => check_sorted lo hi keys
  | PNode _ _ kids =>
    check_sorted lo hi (map fst (tl kids)) &&
    (fix go (first : bool) (lo' : option Z) (l : list (Z * pnode)) {struct l} : bool :=
       match l with
       | [] => true
       | (s, c) :: rest =>
         let lo1 := if first then lo' else Some s in
         let hi1 := match rest with [] => hi | (s2, _) :: _ => Some s2 end in
         check_value lo1 hi1 c && go false lo1 rest
       end) true lo kids
  end.
Definition check_fn (p : pnode) : bool := check_value None None p.

(* ---------- _check(): pointers, kinds, emptiness ---------- *)
Definition pfirst (p : pnode) : option nat :=
  match p with PLeaf i _ _ => Some i | PNode _ f _ => f end.

(* [nextbucket]: what the last leaf below p must point to *)
Fixpoint pcheck (p : pnode) (nextbucket : option nat) {struct p} : bool :=
  match p with
  | PLeaf _ _ _ => true
  | PNode _ first [] => onat_eqb first None
  | PNode _ first ((s0, c0) :: kids') =>
    let kids := (s0, c0) :: kids' in
    negb (onat_eqb first None) &&
    forallb (fun sc => Bool.eqb (is_pleaf (snd sc)) (is_pleaf c0) && negb (psize (snd sc) =? 0)%nat) kids &&
    (if is_pleaf c0 then
       onat_eqb first (pfirst c0) &&
       (fix go (l : list (Z * pnode)) {struct l} : bool :=
          match l with
          | [] => true
          | (_, c) :: rest =>
            let after := match rest with [] => nextbucket | (_, c2) :: _ => pfirst c2 end in
            (match c with PLeaf _ _ nx => onat_eqb nx after | _ => false end) && go rest
          end) kids
     else
       onat_eqb first (pfirst c0) &&
       (fix go (l : list (Z * pnode)) {struct l} : bool :=
          match l with
          | [] => true
          | (_, c) :: rest =>
            let after := match rest with [] => nextbucket | (_, c2) :: _ => pfirst c2 end in
            pcheck c after && go rest
          end) kids)
  end.
Definition pcheck_fn (p : pnode) : bool := pcheck p None.

(* ---------- the stored invariant, stated globally ---------- *)
Fixpoint pleaves (p : pnode) : list (nat * list Z * option nat) :=
  match p with
  | PLeaf i k nx => [(i, k, nx)]
  | PNode _ _ kids => flat_map (fun sc => pleaves (snd sc)) kids
  end.
Definition pkeys (p : pnode) : list Z := flat_map (fun l => snd (fst l)) (pleaves p).

(* the chain: every leaf points to its in-order successor, the last to [after] *)
Fixpoint chain_ok (ls : list (nat * list Z * option nat)) (after : option nat) : Prop :=
  match ls with
  | [] => True
  | (_, _, nx) :: rest =>
    nx = match rest with [] => after | (i2, _, _) :: _ => Some i2 end /\ chain_ok rest after
  end.
(* every interior node's firstbucket is its leftmost leaf; no node (but an
   empty root) is empty; children of a node are of one kind *)
Fixpoint shape_ok (root : bool) (p : pnode) {struct p} : Prop :=
  match p with
  | PLeaf _ keys _ => keys <> []
  | PNode _ first kids =>
    (kids = [] -> root = true /\ first = None) /\
    (kids <> [] -> first = match pleaves p with [] => None | (i, _, _) :: _ => Some i end /\ first <> None) /\
    (forall c1 c2, In c1 (map snd kids) -> In c2 (map snd kids) -> is_pleaf c1 = is_pleaf c2) /\
    (fix all (l : list (Z * pnode)) : Prop :=
       match l with [] => True | (_, c) :: r => shape_ok false c /\ all r end) kids
  end.
(* containment: separators ascending and inside the promised interval, every
   key of child i inside [sep_i, sep_{i+1}) *)
Fixpoint bounds_ok (lo hi : option Z) (p : pnode) {struct p} : Prop :=
  match p with
  | PLeaf _ keys _ => forall x, In x keys -> okb lo hi x = true
  | PNode _ _ kids =>
    (forall s, In s (map fst (tl kids)) -> okb lo hi s = true) /\
    StronglySorted Z.lt (map fst (tl kids)) /\
    (fix go (first : bool) (lo' : option Z) (l : list (Z * pnode)) {struct l} : Prop :=
       match l with
       | [] => True
       | (s, c) :: rest =>
         let lo1 := if first then lo' else Some s in
         let hi1 := match rest with [] => hi | (s2, _) :: _ => Some s2 end in
         bounds_ok lo1 hi1 c /\ go false lo1 rest
       end) true lo kids
  end.
Fixpoint leaves_sorted (p : pnode) : Prop :=
  match p with
  | PLeaf _ keys _ => StronglySorted Z.lt keys
  | PNode _ _ kids => (fix all (l : list (Z * pnode)) : Prop :=
                         match l with [] => True | (_, c) :: r => leaves_sorted c /\ all r end) kids
  end.

Definition inv_stored (p : pnode) : Prop :=
  is_pleaf p = false /\
  leaves_sorted p /\ bounds_ok None None p /\         (* key order, containment *)
  chain_ok (pleaves p) None /\                          (* linking *)
  shape_ok true p.                                      (* firstbucket, kinds, non-emptiness *)

(* ---------- wire ---------- *)
Inductive wopt := WNoneP | WSomeP (n : nat).
Inductive wp := WPL (id : nat) (keys : list Z) (next : wopt) | WPN (id : nat) (first : wopt) (kids : list wpk)
with wpk := WPK (sep : Z) (c : wp).
Definition wo (o : wopt) : option nat := match o with WNoneP => None | WSomeP n => Some n end.
Fixpoint p_of (w : wp) : pnode :=
  match w with
  | WPL i k nx => PLeaf i k (wo nx)
  | WPN i f kids => PNode i (wo f) (map (fun x => match x with WPK s c => (s, p_of c) end) kids)
  end.
(* expected outcomes observed on C and on Python: check() accepted?, _check() accepted? *)
Inductive wccase := CC (p : wp) (check_c check_py pcheck_c pcheck_py : bool).
Definition ccase_ok (c : wccase) : bool :=
  match c with CC w a b x y =>
    let p := p_of w in
    Bool.eqb (check_fn p) a && Bool.eqb (check_fn p) b &&
    Bool.eqb (pcheck_fn p) x && Bool.eqb (pcheck_fn p) y end.
