(* C09: which calls are outside the shape-equality statement (finding F17) *)
From Coq Require Import ZArith List Bool.
From BT Require Import Model.TreeRun.
Definition is_iand (c : call) : bool := match c with CIand _ => true | _ => false end.
