(* The pointer structure of a tree: every leaf's `next` and every interior
   node's `firstbucket`, as a heap indexed by node identities, and the pointer
   assignments the code performs -- at the sites where it performs them:

     bucket_split / Bucket._split      new.next = self.next; self.next = new
     BTree_split / _Tree._split        next.firstbucket = first child of the right
                                       half (itself if a bucket, else ITS firstbucket)
     BTree_split_root / _split_root    child.firstbucket = self.firstbucket, then split
     BTree_grow on an empty tree       firstbucket = the new bucket (next = NULL)
     _BTree_set, delete path / _del    status 2 ("my first bucket went away"):
                                         index > 0: BTree_deleteNextBucket(data[index-1].child)
                                                    = lastBucket(prev).next = .next.next
                                         index = 0: self.firstbucket = child.firstbucket
                                       emptied bucket child:
                                         index > 0: data[index-1].child.next = .next.next
                                         index = 0: self.firstbucket = child.next
     _BTree_clear / clear()            firstbucket = NULL

   RTree.v does not store these pointers (there the chain IS the in-order leaf
   sequence).  Here the heap is threaded through the same descent; reads of
   `next` / `firstbucket` are reads of the heap, not of the tree.  Theorems
   (Proofs/ChainProofs.v, Props/C03.v): after every operation the heap realises
   the in-order leaf sequence and every node's first leaf.  Definitions only. *)
From Coq Require Import ZArith List Bool Arith.
From BT Require Import Model.RTree Model.TreeSpec Model.Persist.
Import ListNotations.
Open Scope Z_scope.

Record heap := mkH { nx : nat -> option nat; fb : nat -> option nat }.
Definition set_nx (h : heap) (i : nat) (v : option nat) : heap :=
  mkH (fun j => if Nat.eqb j i then v else nx h j) (fb h).
Definition set_fb (h : heap) (i : nat) (v : option nat) : heap :=
  mkH (nx h) (fun j => if Nat.eqb j i then v else fb h j).
Definition heap0 : heap := mkH (fun _ => None) (fun _ => None).

(* Bucket_deleteNextBucket(b): b.next = b.next.next *)
Definition del_next (h : heap) (b : nat) : heap :=
  match nx h b with
  | Some n => set_nx h b (nx h n)
  | None => h
  end.

Section Chain.
Variable V : Type.
Variable veq : V -> V -> bool.
Variable vs : bool.
Variables ml mi : nat.
Notation tree := (tree V).
Notation tset := (tset V veq vs ml mi).

(* the bucket a new right sibling starts with: the child itself, or the
   child's firstbucket field *)
Definition fb_of (h : heap) (c : tree) : option nat :=
  if is_leaf V c then Some (tid V c) else fb h (tid V c).

(* child._split() where the new right part gets identity [fresh] *)
Definition psplit (h : heap) (c : tree) (fresh : nat) : heap :=
  match c with
  | Leaf i _ => set_nx (set_nx h fresh (nx h i)) i (Some fresh)
  | Node _ k =>
    match skipn (Nat.div2 (length k)) k with
    | (_, c0) :: _ => set_fb h fresh (fb_of h c0)
    | [] => h
    end
  end.

(* ---------- insert ---------- *)
Fixpoint pset (h : heap) (fresh : nat) (t : tree) (k : Z) (v : V) (iu : bool) {struct t} : heap :=
  match t with
  | Leaf _ _ => h
  | Node i [] => set_fb (set_nx h fresh None) i (Some fresh)
  | Node i kids =>
    let '(h1, kids1, fresh1, grew) :=
      (fix go (l : list (Z * tree)) : heap * list (Z * tree) * nat * bool :=
         match l with
         | [] => (h, [], fresh, false)
         | (s, c) :: rest =>
           if chosen V k rest then
             let r := tset fresh c k v iu in
             let h1 := pset h fresh c k v iu in
             let c' := s_tree r in
             match s_st r with
             | St1 =>
               if (max_for V ml mi c' <? tsize V c')%nat then
                 (psplit h1 c' (s_fresh r), fst (fst (grow_at V (s_fresh r) s c' rest)),
                  S (s_fresh r), true)
               else (h1, (s, c') :: rest, s_fresh r, false)
             | _ => (h1, (s, c') :: rest, s_fresh r, false)
             end
           else let '(h', l', f', g) := go rest in (h', (s, c) :: l', f', g)
         end) kids in
    if grew && (2 * mi <=? length kids1)%nat then
      psplit (set_fb h1 fresh1 (fb h1 i)) (Node fresh1 kids1) (S fresh1)
    else h1
  end.

(* ---------- delete ---------- *)
Fixpoint pdel (h : heap) (t : tree) (k : Z) {struct t} : heap :=
  match t with
  | Leaf _ _ => h
  | Node i kids =>
    (fix go (prev : option tree) (l : list (Z * tree)) : heap :=
       match l with
       | [] => h
       | (s, c) :: rest =>
         if chosen V k rest then
           match tdel V c k with
           | None => h
           | Some r =>
             let h1 := pdel h c k in
             let c' := d_tree r in
             let h2 := if d_first r then
                         match prev with
                         | Some p => del_next h1 (last_leaf_id V p)
                         | None => set_fb h1 i (fb h1 (tid V c'))
                         end
                       else h1 in
             if negb (tsize V c' =? 0)%nat then h2
             else if is_leaf V c' then
                    match prev with
                    | Some p => del_next h2 (tid V p)
                    | None => set_fb h2 i (nx h2 (tid V c'))
                    end
                  else h2
           end
         else go (Some c) rest
       end) None kids
  end.

Definition pclear (h : heap) (t : tree) : heap := set_fb h (tid V t) None.

(* ---------- what the heap must realise ---------- *)
Definition hd_or (l : list nat) (d : option nat) : option nat :=
  match l with x :: _ => Some x | [] => d end.
(* consecutive leaves are linked; the last one points to [after] *)
Fixpoint chain_from (h : heap) (l : list nat) (after : option nat) : Prop :=
  match l with
  | [] => True
  | a :: r => nx h a = hd_or r after /\ chain_from h r after
  end.
(* (interior node, the first leaf of the in-order leaf sequence below it) for
   every interior node; on trees without empty interior nodes this is
   Persist.first_leaf (ChainProofs.first_leaf_hd) *)
Fixpoint fbs (t : tree) : list (nat * option nat) :=
  match t with
  | Leaf _ _ => []
  | Node i kids => (i, hd_or (leaf_ids V t) None) :: flat_map (fun sc => fbs (snd sc)) kids
  end.
Definition fbs_ok (h : heap) (l : list (nat * option nat)) : Prop :=
  Forall (fun p => fb h (fst p) = snd p) l.
Definition sub_ok (h : heap) (t : tree) (after : option nat) : Prop :=
  chain_from h (leaf_ids V t) after /\ fbs_ok h (fbs t).
Definition chain_ok (h : heap) (t : tree) : Prop := sub_ok h t None.

(* the same, as a boolean (evaluated in the correspondence and in examples) *)
Definition onat_eqb (a b : option nat) : bool :=
  match a, b with Some x, Some y => Nat.eqb x y | None, None => true | _, _ => false end.
Fixpoint chain_from_b (h : heap) (l : list nat) (after : option nat) : bool :=
  match l with
  | [] => true
  | a :: r => onat_eqb (nx h a) (hd_or r after) && chain_from_b h r after
  end.
Definition chain_ok_b (h : heap) (t : tree) : bool :=
  chain_from_b h (leaf_ids V t) None &&
  forallb (fun p => onat_eqb (fb h (fst p)) (snd p)) (fbs t).

(* what an observer sees: follow firstbucket of the root, then next *)
Fixpoint walk (fuel : nat) (h : heap) (cur : option nat) : list nat :=
  match fuel, cur with
  | S f, Some i => i :: walk f h (nx h i)
  | _, _ => []
  end.
Definition walk_tree (h : heap) (t : tree) : list nat :=
  walk (S (length (ids V t))) h (fb h (tid V t)).

(* __getstate__ of object n as the code computes it: `next` and `firstbucket`
   are fields that are READ (Persist.getstate computes them from the tree) *)
Definition pgetstate (h : heap) (stored : list nat) (n : tree) : record V :=
  match n with
  | Leaf i items => RLeaf items (nx h i)
  | Node _ [] => REmpty
  | Node i [(_, Leaf l items)] =>
    if mem l stored then RNode [(0, l)] (fb h i)
    else REmbedded items (nx h l)
  | Node i kids => RNode (map (fun sc => (fst sc, tid V (snd sc))) kids) (fb h i)
  end.

End Chain.

(* PreviousBucket(&current, first) of BTreeItemsTemplate.c: walk from [first]
   along next, one bucket behind, until the walker reaches [cur].  None: cur is
   first itself, or the chain ends without meeting it (the C function's 0) *)
Fixpoint prev_loop (fuel : nat) (h : heap) (trailing : nat) (cur : nat) : option nat :=
  match fuel with
  | O => None
  | S f =>
    match nx h trailing with
    | Some nxt => if Nat.eqb nxt cur then Some trailing else prev_loop f h nxt cur
    | None => None
    end
  end.
Definition prev_bucket (fuel : nat) (h : heap) (first cur : nat) : option nat :=
  if Nat.eqb first cur then None else prev_loop fuel h first cur.

(* ================= a run of the primitive writes ================= *)
(* Every public call of TreeRun.step changes the tree through insertions,
   deletions and clear only; the pointer model is driven by those. *)
Inductive prim := PSet (k v : Z) (ifunset : bool) | PDel (k : Z) | PClear.

Section PRun.
Variable vs : bool.
Variables ml mi : nat.

Record pst := mkPst { p_tree : tree Z; p_fresh : nat; p_heap : heap }.

Definition prim_step (s : pst) (p : prim) : pst :=
  match p with
  | PSet k v iu =>
    let r := tset Z Z.eqb vs ml mi (p_fresh s) (p_tree s) k v iu in
    mkPst (s_tree r) (s_fresh r) (pset Z Z.eqb vs ml mi (p_heap s) (p_fresh s) (p_tree s) k v iu)
  | PDel k =>
    match tdel Z (p_tree s) k with
    | None => s
    | Some r => mkPst (d_tree r) (p_fresh s) (pdel Z (p_heap s) (p_tree s) k)
    end
  | PClear =>
    match tsize Z (p_tree s) with
    | O => s
    | _ => mkPst (fst (tclear Z (p_tree s))) (p_fresh s) (pclear Z (p_heap s) (p_tree s))
    end
  end.
Definition prim_run (s : pst) (ps : list prim) : pst := fold_left prim_step ps s.
Definition pinit : pst := mkPst (empty_tree Z 0) 1 heap0.
End PRun.

(* the stored state of Model/Check.v (what the two checkers look at), with
   next / firstbucket READ from the heap *)
Section Stored.
Variable V : Type.
Fixpoint to_ph (h : heap) (t : tree V) {struct t} : Check.pnode :=
  match t with
  | Leaf i l => Check.PLeaf i (map fst l) (nx h i)
  | Node i kids =>
    Check.PNode i (fb h i)
      ((fix go (l : list (Z * tree V)) : list (Z * Check.pnode) :=
          match l with
          | [] => []
          | (s, c) :: rest => (s, to_ph h c) :: go rest
          end) kids)
  end.
End Stored.
