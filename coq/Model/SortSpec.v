(* Vocabulary for C11. *)
From Coq Require Import ZArith List Bool Sorted Permutation.
From BT Require Import Model.Sort.
Import ListNotations.
Open Scope Z_scope.

(* the key type's range: nbytes*8 bits, signed or unsigned *)
Definition in_range (signed : bool) (nbytes : nat) (x : Z) : Prop :=
  if signed then - 2 ^ (8 * Z.of_nat nbytes - 1) <= x < 2 ^ (8 * Z.of_nat nbytes - 1)
  else 0 <= x < 2 ^ (8 * Z.of_nat nbytes).

Definition ascending (l : list Z) : Prop := Sorted Z.le l.
Definition strictly_ascending (l : list Z) : Prop := StronglySorted Z.lt l.

(* r is the sorted, duplicate-free union of the operands *)
Definition sorted_union (operands : list (list Z)) (r : list Z) : Prop :=
  strictly_ascending r /\ forall k, In k r <-> In k (concat operands).
