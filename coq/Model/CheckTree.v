(* The stored (pointer) state of an RTree: leaves linked in in-order sequence,
   every interior node's firstbucket = its leftmost leaf.  This is the state
   that __getstate__ of an API-built tree describes; C18/C03 use it to say
   that the checkers accept every tree produced through the API. *)
From Coq Require Import ZArith List Bool Arith.
From BT Require Import Model.RTree Model.Check.
Import ListNotations.
Open Scope Z_scope.

Section CheckTree.
Variable V : Type.

Fixpoint first_id (t : tree V) : option nat :=
  match t with
  | Leaf i _ => Some i
  | Node _ kids => match kids with [] => None | (_, c) :: _ => first_id c end
  end.

Fixpoint to_p (t : tree V) (after : option nat) {struct t} : pnode :=
  match t with
  | Leaf i l => PLeaf i (map fst l) after
  | Node i kids =>
    PNode i (first_id t)
          ((fix go (l : list (Z * tree V)) : list (Z * pnode) :=
              match l with
              | [] => []
              | (s, c) :: rest =>
                (s, to_p c (match rest with [] => after | (_, c2) :: _ => first_id c2 end)) :: go rest
              end) kids)
  end.
Definition stored (t : tree V) : pnode := to_p t None.
End CheckTree.
