(* Running the generated Length model on operation lists (correspondence). *)
From Coq Require Import ZArith List.
From BT Require Import Gen.LengthGen.
Import ListNotations.
Open Scope Z_scope.

Inductive lop := OInit (x : Z) | OInitDefault | OSet (x : Z) | OChange (d : Z)
               | OPickle | OResolve (old s1 s2 : Z).

(* state = the value attribute; output = what the call returns (0 if None) *)
Definition lstep (v : Z) (o : lop) : Z * Z :=
  match o with
  | OInit x => (L_init v x, 0)
  | OInitDefault => (L_init v L_init_default, 0)
  | OSet x => (L_set v x, 0)
  | OChange d => (L_change v d, 0)
  | OPickle => (L_setstate L_default (L_getstate v), 0)
  | OResolve old s1 s2 => (v, L_resolve v old s1 s2)
  end.

Fixpoint lrun (v : Z) (ops : list lop) : list (Z * Z) :=
  match ops with
  | [] => []
  | o :: r => let '(v', out) := lstep v o in (L_call v', out) :: lrun v' r
  end.

Fixpoint zz_eqb (a b : list (Z * Z)) : bool :=
  match a, b with
  | [], [] => true
  | (x, y) :: a', (x', y') :: b' => Z.eqb x x' && Z.eqb y y' && zz_eqb a' b'
  | _, _ => false
  end.

Definition lcase_ok (c : list lop * list (Z * Z)) : bool :=
  zz_eqb (lrun L_default (fst c)) (snd c).
