(* C04, run level: a writer (tree + registration state) and a store, driven by
   public calls and commits.  Definitions only; theorem in Props/C04.v, proof
   in Proofs/RunSyncProofs.v. *)
From Coq Require Import ZArith List Bool.
From BT Require Import Model.RTree Model.TreeSpec Model.TreeRun Model.Persist Model.PersistSpec.
Import ListNotations.
Open Scope Z_scope.

Record pworld := mkPW { pw_st : st; pw_p : pstate; pw_s : store Z }.
Inductive action := ACall (c : call) | ACommit (seq : list nat).

(* events the call added *)
Definition new_events (st0 st1 : st) : list event := skipn (length (t_events st0)) (t_events st1).

Section World.
Variables vs isC : bool.
Variables ml mi : nat.

Definition pw_step (w : pworld) (a : action) : pworld :=
  match a with
  | ACall c =>
    let st1 := fst (step vs isC ml mi (pw_st w) c) in
    mkPW st1 (apply_events isC (pw_p w) (new_events (pw_st w) st1)) (pw_s w)
  | ACommit seq =>
    let '(p', s') := commit Z (t_tree (pw_st w)) (pw_p w) seq (pw_s w) in
    mkPW (pw_st w) p' s'
  end.
Definition pw_run (w : pworld) (acts : list action) : pworld := fold_left pw_step acts w.

(* the guard of C04 (finding F16) in the current state *)
Definition guard (w : pworld) : Prop :=
  no_embed_below Z true (p_stored (pw_p w)) (t_tree (pw_st w)).

(* what is assumed about one action: the guard holds when it starts; a commit
   dumps every registered object and every object that received an oid, and
   does not dump the leaf embedded in the root on its own *)
Definition act_ok (w : pworld) (a : action) : Prop :=
  guard w /\
  match a with
  | ACall _ => True
  | ACommit seq =>
    let t := t_tree (pw_st w) in
    complete Z t (pw_p w) seq (pw_s w) = true /\
    (forall i, In i seq -> forall r x items, t = Node r [(x, Leaf i items)] ->
               mem i (p_stored (pw_p w)) = true)
  end.
Fixpoint run_ok (w : pworld) (acts : list action) : Prop :=
  match acts with
  | [] => True
  | a :: r => act_ok w a /\ run_ok (pw_step w a) r
  end.
End World.

(* calls that perform at most one insert / delete (the bulk calls update, |=,
   &=, -=, ^= are folds of these in the model) *)
Definition simple_call (c : call) : bool :=
  match c with
  | CUpdate _ | CSUpdate _ | CIor _ | CIand _ | CIsub _ | CIxor _ => false
  | _ => true
  end.

(* the root object is added to the connection before the first call: it has an
   oid and is registered; the store is empty *)
Definition pw_init : pworld := mkPW init (mkP [0%nat] [0%nat] []) [].

(* ---------- abort ---------- *)
(* transaction.abort() invalidates every REGISTERED object: it becomes a ghost
   and loads its record when it is next used; an object that did not register
   keeps its in-memory state; objects created in the transaction are dropped
   with the references to them.  What the writer then sees by descent from the
   root object: the in-memory state of a stored, unregistered node of its tree,
   the stored record of everything else (children are resolved the same way) *)
Fixpoint abort_items (fuel : nat) (t : tree Z) (p : pstate) (s : store Z) (i : nat) : list (Z * Z) :=
  match fuel with
  | O => []
  | S f =>
    let r := match find_node Z t i with
             | Some n => if mem i (p_stored p) && negb (mem i (p_changed p))
                         then Some (getstate Z (p_stored p) t n)
                         else sget Z s i
             | None => sget Z s i
             end in
    match r with
    | Some (RLeaf items _) | Some (REmbedded items _) => items
    | Some (RNode kids _) => flat_map (fun sc => abort_items f t p s (snd sc)) kids
    | _ => []
    end
  end.
Definition abort_view (fuel : nat) (w : pworld) : list (Z * Z) :=
  abort_items fuel (t_tree (pw_st w)) (pw_p w) (pw_s w) (tid Z (t_tree (pw_st w))).
