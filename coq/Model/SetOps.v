(* Model of set_operation (SetOpTemplate.c) and of union / intersection /
   difference / weightedUnion / weightedIntersection (C and _base.py), at the
   level of the cursor streams: an operand is the list its SetIteration yields. *)
From Coq Require Import ZArith List Bool.
Import ListNotations.
Open Scope Z_scope.

(* ---- adaptation of an arbitrary iterable: materialise, sort, drop repeats
        (PySequence_List + PyList_Sort + nextGenericKeyIter in C;
         sorted(...) in _SetIteration.__init__) ---- *)
Fixpoint insert_sorted (x : Z) (l : list Z) : list Z :=
  match l with
  | [] => [x]
  | y :: r => if x <=? y then x :: l else y :: insert_sorted x r
  end.
Definition isort (l : list Z) : list Z := fold_right insert_sorted [] l.
Fixpoint dedup (l : list Z) : list Z :=
  match l with
  | [] => []
  | x :: r => match r with
              | [] => [x]
              | y :: _ => if x =? y then dedup r else x :: dedup r
              end
  end.
Definition adapt (l : list Z) : list Z := dedup (isort l).

(* ---- the merge walk ---- *)
Section Walk.
Variable V : Type.
Variables c1 c12 c2 : bool.
Variables (f1 f2 : V -> V) (f12 : V -> V -> V).

Definition emit (b : bool) (x : Z * V) (r : list (Z * V)) := if b then x :: r else r.

Fixpoint walk (l1 : list (Z * V)) : list (Z * V) -> list (Z * V) :=
  fix inner (l2 : list (Z * V)) : list (Z * V) :=
    match l1, l2 with
    | [], _ => if c2 then map (fun kv => (fst kv, f2 (snd kv))) l2 else []
    | _, [] => if c1 then map (fun kv => (fst kv, f1 (snd kv))) l1 else []
    | (k1, v1) :: t1, (k2, v2) :: t2 =>
      match k1 ?= k2 with
      | Lt => emit c1 (k1, f1 v1) (walk t1 l2)
      | Eq => emit c12 (k1, f12 v1 v2) (walk t1 t2)
      | Gt => emit c2 (k2, f2 v2) (inner t2)
      end
    end.
End Walk.

(* ---- operands and results ---- *)
Inductive operand :=
| ONone
| OMap (l : list (Z * Z))     (* Bucket / BTree: keys strictly ascending *)
| OSet (l : list Z)           (* Set / TreeSet *)
| OIter (l : list Z).         (* any other iterable of keys *)

Inductive sres :=
| SNone | SOp1 | SOp2           (* None, or the very operand object *)
| SSet (l : list Z)
| SMap (l : list (Z * Z))
| STypeError.

Definition is_none (o : operand) := match o with ONone => true | _ => false end.
Definition is_map (o : operand) := match o with OMap _ => true | _ => false end.

(* the stream of (key, value) a cursor over [o] yields; sets yield [dflt] *)
Definition stream (dflt : Z) (o : operand) : list (Z * Z) :=
  match o with
  | ONone => []
  | OMap l => l
  | OSet l => map (fun k => (k, dflt)) l
  | OIter l => map (fun k => (k, dflt)) (adapt l)
  end.
Definition keys_of (l : list (Z * Z)) : list Z := map fst l.

Definition kwalk c1 c12 c2 (a b : operand) : list Z :=
  keys_of (walk Z c1 c12 c2 (fun v => v) (fun v => v) (fun v _ => v) (stream 0 a) (stream 0 b)).

Definition m_union (a b : operand) : sres :=
  if is_none a then (if is_none b then SNone else SOp2)
  else if is_none b then SOp1
  else SSet (kwalk true true true a b).

Definition m_intersection (a b : operand) : sres :=
  if is_none a then (if is_none b then SNone else SOp2)
  else if is_none b then SOp1
  else SSet (kwalk false true false a b).

(* difference(o1, o2): o1 must be a BTrees container; keeps o1's values *)
Definition m_difference (a b : operand) : sres :=
  if is_none a then SNone
  else if is_none b then SOp1
  else match a with
       | OMap l => SMap (walk Z true false false (fun v => v) (fun v => v) (fun v _ => v) l (stream 0 b))
       | OSet l => SSet (kwalk true false false a b)
       | _ => STypeError
       end.

(* ---- weighted operations (integer-valued families) ----
   [wrap] is the value type's wrap-around (C computes in the native type);
   the Python flavour is [wrap := id]. *)
Section Weighted.
Variable wrap : Z -> Z.

Definition wmerge (w1 w2 : Z) (v1 v2 : Z) : Z := wrap (wrap (v1 * w1) + wrap (v2 * w2)).
Definition wscale (w v : Z) : Z := wrap (v * w).

(* both operands are BTrees containers (Set/TreeSet/Bucket/BTree) or None *)
Definition m_wunion (a b : operand) (w1 w2 : Z) : Z * sres :=
  if is_none a then (if is_none b then (0, SNone) else (w2, SOp2))
  else if is_none b then (w1, SOp1)
  else if is_map a || is_map b then
    (* a set on the left and a mapping on the right: cursors and weights swap *)
    let '(x, y, u1, u2) := if negb (is_map a) && is_map b then (b, a, w2, w1) else (a, b, w1, w2) in
    (1, SMap (walk Z true true true (wscale u1) (wscale u2) (wmerge u1 u2) (stream 1 x) (stream 1 y)))
  else (1, SSet (kwalk true true true a b)).

Definition m_winter (a b : operand) (w1 w2 : Z) : Z * sres :=
  if is_none a then (if is_none b then (0, SNone) else (w2, SOp2))
  else if is_none b then (w1, SOp1)
  else if is_map a || is_map b then
    let '(x, y, u1, u2) := if negb (is_map a) && is_map b then (b, a, w2, w1) else (a, b, w1, w2) in
    (1, SMap (walk Z false true false (wscale u1) (wscale u2) (wmerge u1 u2) (stream 1 x) (stream 1 y)))
  else (wrap (w1 + w2), SSet (kwalk false true false a b)).
End Weighted.

(* ---- wire format for the case files ---- *)
Inductive wop := WUnion | WInter | WDiff | WWUnion (w1 w2 : Z) | WWInter (w1 w2 : Z).
Inductive wkv := KV (k v : Z).
Inductive wopnd := PNone | PMap (l : list wkv) | PSet (l : list Z) | PIter (l : list Z).
Inductive wres := XNone | XOp1 | XOp2 | XSet (l : list Z) | XMap (l : list wkv) | XTypeError | XOther.
(* wrap kind: 0 = none (Python / no weights), 32/64 signed = 1/2, unsigned = 3/4 *)
Inductive wsetcase := SC (op : wop) (wrapkind : Z) (a b : wopnd) (weight : Z) (r : wres).

Definition opnd_of (p : wopnd) : operand :=
  match p with
  | PNone => ONone
  | PMap l => OMap (map (fun x => match x with KV k v => (k, v) end) l)
  | PSet l => OSet l
  | PIter l => OIter l
  end.

Definition wrap_of (kind : Z) (x : Z) : Z :=
  if kind =? 1 then (x + 2^31) mod 2^32 - 2^31
  else if kind =? 2 then (x + 2^63) mod 2^64 - 2^63
  else if kind =? 3 then x mod 2^32
  else if kind =? 4 then x mod 2^64
  else x.

Fixpoint zl_eqb (a b : list Z) : bool :=
  match a, b with
  | [], [] => true
  | x :: a', y :: b' => Z.eqb x y && zl_eqb a' b'
  | _, _ => false
  end.
Fixpoint kvl_eqb (a : list (Z * Z)) (b : list wkv) : bool :=
  match a, b with
  | [], [] => true
  | (k, v) :: a', KV k' v' :: b' => Z.eqb k k' && Z.eqb v v' && kvl_eqb a' b'
  | _, _ => false
  end.
Definition sres_eqb (r : sres) (x : wres) : bool :=
  match r, x with
  | SNone, XNone | SOp1, XOp1 | SOp2, XOp2 | STypeError, XTypeError => true
  | SSet l, XSet l' => zl_eqb l l'
  | SMap l, XMap l' => kvl_eqb l l'
  | _, _ => false
  end.

Definition setcase_ok (c : wsetcase) : bool :=
  match c with
  | SC op kind a b weight r =>
    let a' := opnd_of a in let b' := opnd_of b in
    match op with
    | WUnion => sres_eqb (m_union a' b') r
    | WInter => sres_eqb (m_intersection a' b') r
    | WDiff => sres_eqb (m_difference a' b') r
    | WWUnion w1 w2 => let '(w, s) := m_wunion (wrap_of kind) a' b' w1 w2 in Z.eqb w weight && sres_eqb s r
    | WWInter w1 w2 => let '(w, s) := m_winter (wrap_of kind) a' b' w1 w2 in Z.eqb w weight && sres_eqb s r
    end
  end.
