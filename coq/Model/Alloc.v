(* C17: the allocation discipline of a bucket's two parallel vectors (keys,
   values) over an explicit block heap.  A block is an id; a successful
   realloc RELEASES the old id and returns a fresh one (the pessimistic view:
   realloc may always move), so a struct field that still holds the old id is
   a visible dangling pointer.  The n-th allocation request fails.
   Modelled: Bucket_grow (insert path, merge_output, set operations,
   multiunion gather), the realloc pair of _bucket_setstate / fromBytes, and
   the malloc pair of bucket_split. *)
From Coq Require Import List Bool Arith.
Import ListNotations.

Record heap := mkH { live : list nat; nextid : nat; countdown : nat (* 0 = never fail; n+1 = the (n+1)-th request from now fails *) }.

Definition fresh_block (h : heap) : nat * heap :=
  (nextid h, mkH (nextid h :: live h) (S (nextid h)) (countdown h)).
(* one allocation request: None = failure *)
Definition request (h : heap) : option unit * heap :=
  match countdown h with
  | 1 => (None, mkH (live h) (nextid h) 0)
  | O => (Some tt, h)
  | S n => (Some tt, mkH (live h) (nextid h) n)
  end.
Definition release (b : nat) (h : heap) : heap :=
  mkH (filter (fun x => negb (Nat.eqb x b)) (live h)) (nextid h) (countdown h).

Definition malloc (h : heap) : option nat * heap :=
  match request h with
  | (None, h') => (None, h')
  | (Some _, h') => let '(b, h'') := fresh_block h' in (Some b, h'')
  end.
(* realloc(p): on failure p stays valid; on success p is released *)
Definition realloc (p : option nat) (h : heap) : option nat * heap :=
  match request h with
  | (None, h') => (None, h')
  | (Some _, h') =>
    let h1 := match p with Some b => release b h' | None => h' end in
    let '(b, h2) := fresh_block h1 in (Some b, h2)
  end.

Record bucket := mkB { b_keys : option nat; b_vals : option nat; b_size : nat; b_len : nat }.

Inductive res := ROk (b : bucket) (h : heap) | RMem (b : bucket) (h : heap).   (* RMem = MemoryError raised *)

(* Bucket_grow(self, -1, noval) *)
Definition bucket_grow (noval : bool) (b : bucket) (h : heap) : res :=
  match b_size b with
  | O =>
    match malloc h with
    | (None, h1) => RMem b h1
    | (Some k, h1) =>
      if noval then ROk (mkB (Some k) (b_vals b) 16 (b_len b)) h1
      else match malloc h1 with
           | (None, h2) => RMem (mkB None (b_vals b) 0 (b_len b)) (release k h2)   (* free(self->keys); self->keys = NULL *)
           | (Some v, h2) => ROk (mkB (Some k) (Some v) 16 (b_len b)) h2
           end
    end
  | S _ =>
    match realloc (b_keys b) h with
    | (None, h1) => RMem b h1
    | (Some k, h1) =>
      let b1 := mkB (Some k) (b_vals b) (b_size b) (b_len b) in    (* self->keys = keys, at once *)
      if noval then ROk (mkB (Some k) (b_vals b) (2 * b_size b) (b_len b)) h1
      else match realloc (b_vals b) h1 with
           | (None, h2) => RMem b1 h2
           | (Some v, h2) => ROk (mkB (Some k) (Some v) (2 * b_size b) (b_len b)) h2
           end
    end
  end.

(* the realloc pair of _bucket_setstate / fsBucket.fromBytes for a state of n entries *)
Definition bucket_resize (n : nat) (b : bucket) (h : heap) : res :=
  if (n <=? b_size b)%nat then ROk b h
  else match realloc (b_keys b) h with
       | (None, h1) => RMem b h1
       | (Some k, h1) =>
         let b1 := mkB (Some k) (b_vals b) (b_size b) (b_len b) in
         match realloc (b_vals b) h1 with
         | (None, h2) => RMem b1 h2
         | (Some v, h2) => ROk (mkB (Some k) (Some v) n (b_len b)) h2
         end
       end.

(* _bucket_set, insert of a new key: grow if full, then len++ *)
Definition bucket_insert (noval : bool) (b : bucket) (h : heap) : res :=
  if Nat.eqb (b_len b) (b_size b) then
    match bucket_grow noval b h with
    | ROk b' h' => ROk (mkB (b_keys b') (b_vals b') (b_size b') (S (b_len b'))) h'
    | r => r
    end
  else ROk (mkB (b_keys b) (b_vals b) (b_size b) (S (b_len b))) h.

(* no field refers to a released block; the two vectors are different blocks;
   every live block is referenced (no leak) *)
Definition owned (b : bucket) : list nat :=
  (match b_keys b with Some k => [k] | None => [] end) ++ (match b_vals b with Some v => [v] | None => [] end).
Definition sound (b : bucket) (h : heap) : Prop :=
  NoDup (owned b) /\ (forall x, In x (owned b) <-> In x (live h)) /\ b_len b <= b_size b /\
  (forall x, In x (live h) -> x < nextid h) /\
  (b_size b = 0 <-> b_keys b = None).

(* number of allocation requests for n successive inserts into an empty bucket *)
Fixpoint inserts (noval : bool) (n : nat) (b : bucket) (h : heap) : res :=
  match n with
  | O => ROk b h
  | S m => match inserts noval m b h with
           | ROk b' h' => bucket_insert noval b' h'
           | r => r
           end
  end.
Definition empty_bucket : bucket := mkB None None 0 0.
Definition heap0 (fail_at : nat) : heap := mkH [] 0 fail_at.
(* requests made = fresh ids handed out when nothing fails *)
Definition requests_for (noval : bool) (n : nat) : nat :=
  match inserts noval n empty_bucket (heap0 0) with ROk _ h => nextid h | RMem _ h => nextid h end.

(* wire: observed number of allocations while inserting n keys into an empty Bucket / Set *)
Inductive wacase := AC (noval : bool) (n : nat) (allocs : nat).
Definition acase_ok (c : wacase) : bool :=
  match c with AC nv n a => Nat.eqb (requests_for nv n) a end.
