(* C16: reference accounting of a leaf (Bucket / Set) in the C extension, with
   the INCREF / DECREF operations at the places where BucketTemplate.c and
   SetTemplate.c have them.  Objects are identities (nat); [rc] is the net
   number of references the extension has taken on each object; [held] are
   references handed over to the caller (results of pop / minKey).  The
   invariant: rc x = number of key slots + value slots holding x + references
   handed to the caller and not yet released by it. *)
From Coq Require Import ZArith List Bool Arith.
Import ListNotations.
Open Scope Z_scope.

Definition refmap := nat -> Z.
Definition incref (x : nat) (rc : refmap) : refmap := fun y => if Nat.eqb x y then rc y + 1 else rc y.
Definition decref (x : nat) (rc : refmap) : refmap := fun y => if Nat.eqb x y then rc y - 1 else rc y.

Record rstate := mkR { slots : list (nat * nat * nat);   (* (ordering rank of the key, key object, value object) *)
                       held : list nat; rc : refmap }.

Inductive rop :=
| RSet (rank k v : nat) (unique : bool)   (* _bucket_set with a value; unique: insert()/setdefault() *)
| RDel (rank : nat)                       (* _bucket_set with v == NULL *)
| RClear                                  (* _bucket_clear *)
| RPop                                    (* Set_pop: minKey (new reference) + remove *)
| RMinKey                                 (* Bucket_minKey: COPY_KEY_TO_OBJECT increfs *)
| RRelease (x : nat).                     (* the caller drops a reference it was given *)

Fixpoint find_rank (l : list (nat * nat * nat)) (r : nat) : option (nat * nat) :=
  match l with
  | [] => None
  | (r', k, v) :: rest => if Nat.eqb r r' then Some (k, v) else find_rank rest r
  end.
Fixpoint remove_rank (l : list (nat * nat * nat)) (r : nat) : list (nat * nat * nat) :=
  match l with
  | [] => []
  | (r', k, v) :: rest => if Nat.eqb r r' then rest else (r', k, v) :: remove_rank rest r
  end.
Fixpoint replace_val (l : list (nat * nat * nat)) (r v : nat) : list (nat * nat * nat) :=
  match l with
  | [] => []
  | (r', k, v') :: rest => if Nat.eqb r r' then (r', k, v) :: rest else (r', k, v') :: replace_val rest r v
  end.
Fixpoint insert_rank (l : list (nat * nat * nat)) (r k v : nat) : list (nat * nat * nat) :=
  match l with
  | [] => [(r, k, v)]
  | (r', k', v') :: rest => if (r <? r')%nat then (r, k, v) :: l else (r', k', v') :: insert_rank rest r k v
  end.
Fixpoint release_one (x : nat) (l : list nat) : option (list nat) :=
  match l with
  | [] => None
  | y :: rest => if Nat.eqb x y then Some rest
                 else match release_one x rest with Some r => Some (y :: r) | None => None end
  end.

Definition rstep (s : rstate) (o : rop) : rstate :=
  match o with
  | RSet r k v unique =>
    match find_rank (slots s) r with
    | Some (_, vold) =>
      if unique then s                                                  (* key exists, leave it *)
      else mkR (replace_val (slots s) r v) (held s)
               (incref v (decref vold (rc s)))                          (* DECREF_VALUE(old); INCREF_VALUE(new) *)
    | None =>
      mkR (insert_rank (slots s) r k v) (held s) (incref v (incref k (rc s)))   (* INCREF_KEY; INCREF_VALUE *)
    end
  | RDel r =>
    match find_rank (slots s) r with
    | Some (k, v) => mkR (remove_rank (slots s) r) (held s) (decref v (decref k (rc s)))
    | None => s                                                         (* KeyError *)
    end
  | RClear =>
    mkR [] (held s) (fold_left (fun m e => decref (snd e) (decref (snd (fst e)) m)) (slots s) (rc s))
  | RPop =>
    match slots s with
    | [] => s                                                           (* KeyError *)
    | (r, k, v) :: rest =>
      (* key = minKey(): new reference; remove: DECREF of the stored key and value; result = key *)
      mkR rest (k :: held s) (decref v (decref k (incref k (rc s))))
    end
  | RMinKey =>
    match slots s with
    | [] => s
    | (_, k, _) :: _ => mkR (slots s) (k :: held s) (incref k (rc s))
    end
  | RRelease x =>
    match release_one x (held s) with
    | Some h => mkR (slots s) h (decref x (rc s))
    | None => s
    end
  end.

Definition rrun (ops : list rop) : rstate := fold_left rstep ops (mkR [] [] (fun _ => 0)).

Definition zcount (x : nat) (l : list nat) : Z := Z.of_nat (count_occ Nat.eq_dec l x).
(* what the extension should hold on x *)
Definition owned (s : rstate) (x : nat) : Z :=
  zcount x (map (fun e => snd (fst e)) (slots s)) + zcount x (map snd (slots s)) + zcount x (held s).

(* wire: a history and the observed reference-count deltas of some probes at the end *)
Inductive wrop := WSet (rank k v : nat) (unique : bool) | WDel (rank : nat) | WClear | WPop | WMinKey | WRelease (x : nat).
Definition rop_of (w : wrop) : rop :=
  match w with
  | WSet r k v u => RSet r k v u | WDel r => RDel r | WClear => RClear | WPop => RPop
  | WMinKey => RMinKey | WRelease x => RRelease x
  end.
Inductive wrcase := RCase (ops : list wrop) (probes : list nat) (deltas : list Z).
Fixpoint zl_eqb (a b : list Z) : bool :=
  match a, b with [], [] => true | x :: a', y :: b' => Z.eqb x y && zl_eqb a' b' | _, _ => false end.
Definition refcase_ok (c : wrcase) : bool :=
  match c with RCase ops probes deltas => zl_eqb (map (rc (rrun (map rop_of ops))) probes) deltas end.
