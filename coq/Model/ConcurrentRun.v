(* Wire format of the C08 correspondence for Model/Concurrent.v: the leaves of
   the committed base tree in key order, what each of the two leaf-local
   transactions made of the leaves it changed (by leaf position), and what the
   implementation did when the second one was committed after the first. *)
From Coq Require Import ZArith List Bool.
From BT Require Import Model.CaseUtil Model.TreeRun Model.Concurrent.
Import ListNotations.
Open Scope Z_scope.

Inductive wcleaf := WCL (items : list wkv).
Inductive wctx := WCT (pos : nat) (items : list wkv).
Inductive wccase := CC (leaves : list wcleaf) (first second : list wctx) (conflict : bool) (final : list wcleaf).

Definition items_of (l : wcleaf) : list (Z * Z) := match l with WCL its => map of_kv its end.
Fixpoint mk_base (n : nat) (ls : list wcleaf) : list leaf :=
  match ls with [] => [] | l :: r => Lf n None None (items_of l) :: mk_base (S n) r end.
Definition mk_txn (x : list wctx) : txn := map (fun e => match e with WCT p its => (p, map of_kv its) end) x.
Fixpoint leaves_eqb (a : list leaf) (b : list wcleaf) : bool :=
  match a, b with
  | [], [] => true
  | l :: a', WCL its :: b' => kvl_eqb (map kv_of (litems l)) its && leaves_eqb a' b'
  | _, _ => false
  end.

Definition cccase_ok (c : wccase) : bool :=
  match c with
  | CC ls t1 t2 conflict final =>
    match commit2 (mk_base 0 ls) (mk_txn t1) (mk_txn t2) with
    | None => conflict
    | Some f => negb conflict && leaves_eqb f final
    end
  end.
