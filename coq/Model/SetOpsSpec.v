(* Specification vocabulary for C10 / C12: operands as mathematical sets / maps. *)
From Coq Require Import ZArith List Bool Sorted.
From BT Require Import Model.SetOps.
Import ListNotations.
Open Scope Z_scope.

Definition ssorted (l : list Z) : Prop := StronglySorted Z.lt l.

(* a container operand is well formed when its keys are strictly ascending;
   a plain iterable may be anything (unsorted, with repeats) *)
Definition wf_operand (o : operand) : Prop :=
  match o with
  | ONone => True
  | OMap l => ssorted (map fst l)
  | OSet l => ssorted l
  | OIter _ => True
  end.

(* the keys an operand contributes, as a list read as a set *)
Definition okeys (o : operand) : list Z :=
  match o with
  | ONone => []
  | OMap l => map fst l
  | OSet l => l
  | OIter l => l
  end.

Fixpoint zlookup (l : list (Z * Z)) (k : Z) : option Z :=
  match l with
  | [] => None
  | (k', v) :: r => if Z.eqb k k' then Some v else zlookup r k
  end.

(* the value a key counts with in a weighted operation: a mapping's value, 1
   for a member of a set, 0 when absent *)
Definition oval (o : operand) (k : Z) : Z :=
  match o with
  | OMap l => match zlookup l k with Some v => v | None => 0 end
  | OSet l => if existsb (Z.eqb k) l then 1 else 0
  | OIter l => if existsb (Z.eqb k) l then 1 else 0
  | ONone => 0
  end.

Definition is_container (o : operand) : Prop :=
  match o with OMap _ | OSet _ => True | _ => False end.
