(* Public API of BTree / TreeSet (and Bucket / Set) as a step function over the
   RTree model, and the reference sorted map of C01 (Spec).  Values are Z in
   this instance; a TreeSet / Set stores value 0 and its outputs never show it. *)
From Coq Require Import ZArith List Bool Arith.
From BT Require Import Model.RTree Model.TreeSpec.
Import ListNotations.
Open Scope Z_scope.

Inductive wkv := KV (k v : Z).
Definition kv_of (p : Z * Z) : wkv := KV (fst p) (snd p).
Definition of_kv (x : wkv) : Z * Z := match x with KV k v => (k, v) end.

Inductive call :=
| CSet (k v : Z) | CDel (k : Z) | CInsert (k v : Z) | CSetdefault (k v : Z)
| CPop (k : Z) | CPopD (k d : Z) | CPopitem | CUpdate (l : list wkv) | CClear
| CGet (k : Z) | CGetD (k d : Z) | CItem (k : Z) | CIn (k : Z) | CHasKey (k : Z)
| CLen | CBool | CKeys | CItems
| CAdd (k : Z) | CRemove (k : Z) | CDiscard (k : Z) | CSPop | CSUpdate (l : list Z)
| CIor (l : list Z) | CIand (l : list Z) | CIsub (l : list Z) | CIxor (l : list Z)
| CIsdisjoint (l : list Z).

Inductive out :=
| ONone | OVal (v : Z) | OBool (b : bool) | OKeyError | OKV (k v : Z) | ONat (n : nat)
| OKeys (l : list Z) | OItems (l : list wkv) | OOther.

(* ================= reference: a sorted association list ================= *)
Module Spec.
Definition map := list (Z * Z).
Fixpoint lookup (m : map) (k : Z) : option Z :=
  match m with [] => None | (k', v) :: r => if k =? k' then Some v else lookup r k end.
Fixpoint insert (m : map) (k v : Z) : map :=
  match m with
  | [] => [(k, v)]
  | (k', v') :: r => match k ?= k' with
                     | Lt => (k, v) :: m
                     | Eq => (k, v) :: r
                     | Gt => (k', v') :: insert r k v
                     end
  end.
Fixpoint remove (m : map) (k : Z) : map :=
  match m with [] => [] | (k', v') :: r => if k =? k' then r else (k', v') :: remove r k end.
Definition mem (m : map) (k : Z) : bool := match lookup m k with Some _ => true | None => false end.

Definition step (m : map) (c : call) : map * out :=
  match c with
  | CSet k v => (insert m k v, ONone)
  | CDel k => if mem m k then (remove m k, ONone) else (m, OKeyError)
  | CInsert k v => if mem m k then (m, OBool false) else (insert m k v, OBool true)
  | CSetdefault k v => match lookup m k with Some x => (m, OVal x) | None => (insert m k v, OVal v) end
  | CPop k => match lookup m k with Some x => (remove m k, OVal x) | None => (m, OKeyError) end
  | CPopD k d => match lookup m k with Some x => (remove m k, OVal x) | None => (m, OVal d) end
  | CPopitem => match m with [] => (m, OKeyError) | (k, v) :: r => (r, OKV k v) end
  | CUpdate l => (fold_left (fun acc x => insert acc (fst (of_kv x)) (snd (of_kv x))) l m, ONone)
  | CClear => ([], ONone)
  | CGet k => (m, match lookup m k with Some x => OVal x | None => ONone end)
  | CGetD k d => (m, match lookup m k with Some x => OVal x | None => OVal d end)
  | CItem k => (m, match lookup m k with Some x => OVal x | None => OKeyError end)
  | CIn k | CHasKey k => (m, OBool (mem m k))
  | CLen => (m, ONat (length m))
  | CBool => (m, OBool (negb (match m with [] => true | _ => false end)))
  | CKeys => (m, OKeys (List.map fst m))
  | CItems => (m, OItems (List.map kv_of m))
  | CAdd k => if mem m k then (m, OBool false) else (insert m k 0, OBool true)
  | CRemove k => if mem m k then (remove m k, ONone) else (m, OKeyError)
  | CDiscard k => (remove m k, ONone)
  | CSPop => match m with [] => (m, OKeyError) | (k, _) :: r => (r, OVal k) end
  | CSUpdate l | CIor l => (fold_left (fun acc k => if mem acc k then acc else insert acc k 0) l m, ONone)
  | CIand l => (filter (fun kv => existsb (Z.eqb (fst kv)) l) m, ONone)
  | CIsub l => (fold_left remove l m, ONone)
  | CIxor l => (fold_left (fun acc k => if mem acc k then remove acc k else insert acc k 0) l m, ONone)
  | CIsdisjoint l => (m, OBool (negb (existsb (mem m) l)))
  end.

Fixpoint run (m : map) (cs : list call) : map * list out :=
  match cs with
  | [] => (m, [])
  | c :: r => let '(m1, o) := step m c in let '(m2, os) := run m1 r in (m2, o :: os)
  end.
End Spec.

(* ================= the tree ================= *)
Section Run.
Variable vsame : bool.   (* VALUE_SAME short-circuit (C, numeric values) *)
Variable iand_rebuilds : bool.  (* C: &= clears and re-adds the kept keys; Python discards the others *)
Variables ml mi : nat.

Notation tree := (tree Z).
Definition T_set := tset Z Z.eqb vsame ml mi.
Definition T_del := tdel Z.

Record st := mkSt { t_tree : tree; t_fresh : nat; t_events : list event }.

Definition do_set (s : st) (k v : Z) (ifunset : bool) : st * status * option Z :=
  let r := T_set (t_fresh s) (t_tree s) k v ifunset in
  (mkSt (s_tree r) (s_fresh r) (t_events s ++ s_ev r), s_st r, s_val r).
Definition do_del (s : st) (k : Z) : option (st * Z) :=
  match T_del (t_tree s) k with
  | None => None
  | Some r => Some (mkSt (d_tree r) (t_fresh s) (t_events s ++ d_ev r), d_val r)
  end.
(* a delete that ends in KeyError still declared its read dependencies (the C
   extension raises before that when the root is empty) *)
Definition del_failed (s : st) (k : Z) : st :=
  match t_tree s with
  | Node _ [] => if iand_rebuilds then s else mkSt (t_tree s) (t_fresh s) (t_events s ++ read_path Z (t_tree s) k)
  | t => mkSt t (t_fresh s) (t_events s ++ read_path Z t k)
  end.
(* Python's clear() assigns _firstbucket even on an empty tree, which marks it changed *)
Definition do_clear (s : st) : st :=
  let '(t', ev) := tclear Z (t_tree s) in
  let ev' := match t_tree s with
             | Node i [] => if iand_rebuilds then ev else [EChanged i]
             | _ => ev
             end in
  mkSt t' (t_fresh s) (t_events s ++ ev').
Definition has (s : st) (k : Z) : bool :=
  match tget Z (t_tree s) k with Some _ => true | None => false end.
(* C: discard is a delete whose KeyError is suppressed (the descent declared its
   reads); Python: a membership test first *)
Definition discard (s : st) (k : Z) : st :=
  if has s k then match do_del s k with Some (s', _) => s' | None => s end
  else if iand_rebuilds then del_failed s k else s.
(* Python's Set._set reports False (not None) for an existing key, so the
   "single bucket without oid changed" rule of _Tree._set fires although
   nothing changed *)
Definition set_nochange_quirk (s : st) (stt : status) : st :=
  match stt, t_tree s with
  | StNone, Node i [(_, Leaf l _)] =>
    if iand_rebuilds then s else mkSt (t_tree s) (t_fresh s) (t_events s ++ [EEmbed i l])
  | _, _ => s
  end.
Definition add (s : st) (k : Z) : st :=
  let '(s', stt, _) := do_set s k 0 true in set_nochange_quirk s' stt.

Definition step (s : st) (c : call) : st * out :=
  match c with
  | CSet k v => let '(s', _, _) := do_set s k v false in (s', ONone)
  | CDel k => match do_del s k with Some (s', _) => (s', ONone) | None => (del_failed s k, OKeyError) end
  | CInsert k v => let '(s', stt, _) := do_set s k v true in
                   (s', OBool (match stt with St1 => true | _ => false end))
  | CSetdefault k v =>
    (* BTree_setdefault looks the key up first and returns without touching the tree *)
    match (if iand_rebuilds then tget Z (t_tree s) k else None) with
    | Some x => (s, OVal x)
    | None => let '(s', _, rv) := do_set s k v true in
              (s', match rv with Some x => OVal x | None => OOther end)
    end
  (* BTree_pop looks the key up first and never starts a delete for a missing key *)
  | CPop k => match do_del s k with Some (s', v) => (s', OVal v)
              | None => (if iand_rebuilds then s else del_failed s k, OKeyError) end
  | CPopD k d => match do_del s k with Some (s', v) => (s', OVal v)
                 | None => (if iand_rebuilds then s else del_failed s k, OVal d) end
  | CPopitem => match contents Z (t_tree s) with
                | [] => (s, OKeyError)
                | (k, v) :: _ => match do_del s k with Some (s', _) => (s', OKV k v) | None => (s, OOther) end
                end
  | CUpdate l => (fold_left (fun acc x => let '(a, _, _) := do_set acc (fst (of_kv x)) (snd (of_kv x)) false in a) l s, ONone)
  | CClear => (do_clear s, ONone)
  | CGet k => (s, match tget Z (t_tree s) k with Some x => OVal x | None => ONone end)
  | CGetD k d => (s, match tget Z (t_tree s) k with Some x => OVal x | None => OVal d end)
  | CItem k => (s, match tget Z (t_tree s) k with Some x => OVal x | None => OKeyError end)
  | CIn k | CHasKey k => (s, OBool (has s k))
  | CLen => (s, ONat (length (contents Z (t_tree s))))
  | CBool => (s, OBool (negb (tsize Z (t_tree s) =? 0)%nat))
  | CKeys => (s, OKeys (map fst (contents Z (t_tree s))))
  | CItems => (s, OItems (map kv_of (contents Z (t_tree s))))
  | CAdd k => let '(s', stt, _) := do_set s k 0 true in
              (set_nochange_quirk s' stt, OBool (match stt with St1 => true | _ => false end))
  | CRemove k => match do_del s k with Some (s', _) => (s', ONone) | None => (del_failed s k, OKeyError) end
  | CDiscard k => (discard s k, ONone)
  | CSPop => match contents Z (t_tree s) with
             | [] => (s, OKeyError)
             | (k, _) :: _ => (discard s k, OVal k)
             end
  | CSUpdate l | CIor l => (fold_left add l s, ONone)
  | CIand l =>
    if iand_rebuilds then
      let keep := filter (has s) l in
      (fold_left add keep (do_clear s), ONone)
    else
      let drop := filter (fun k => negb (existsb (Z.eqb k) l)) (map fst (contents Z (t_tree s))) in
      (fold_left discard drop s, ONone)
  | CIsub l => (fold_left discard l s, ONone)
  | CIxor l => (fold_left (fun acc k => if has acc k then discard acc k else add acc k) l s, ONone)
  | CIsdisjoint l => (s, OBool (negb (existsb (has s) l)))
  end.

Fixpoint run (s : st) (cs : list call) : st * list out :=
  match cs with
  | [] => (s, [])
  | c :: r => let '(s1, o) := step s c in let '(s2, os) := run s1 r in (s2, o :: os)
  end.

Definition init : st := mkSt (empty_tree Z 0) 1 [].
End Run.

(* ================= wire: equality on observations ================= *)
Fixpoint zl_eqb (a b : list Z) : bool :=
  match a, b with [], [] => true | x :: a', y :: b' => Z.eqb x y && zl_eqb a' b' | _, _ => false end.
Fixpoint kvl_eqb (a b : list wkv) : bool :=
  match a, b with
  | [], [] => true
  | KV k v :: a', KV k' v' :: b' => Z.eqb k k' && Z.eqb v v' && kvl_eqb a' b'
  | _, _ => false
  end.
Definition out_eqb (a b : out) : bool :=
  match a, b with
  | ONone, ONone | OKeyError, OKeyError => true
  | OVal x, OVal y => Z.eqb x y
  | OBool x, OBool y => Bool.eqb x y
  | OKV k v, OKV k' v' => Z.eqb k k' && Z.eqb v v'
  | ONat n, ONat m => Nat.eqb n m
  | OKeys l, OKeys l' => zl_eqb l l'
  | OItems l, OItems l' => kvl_eqb l l'
  | _, _ => false
  end.
Fixpoint outs_eqb (a b : list out) : bool :=
  match a, b with [], [] => true | x :: a', y :: b' => out_eqb x y && outs_eqb a' b' | _, _ => false end.

(* observed shape: separators, keys per leaf *)
Inductive wshape := WAnyS | WLeafS (keys : list Z) | WNodeS (kids : list wkid)
with wkid := WKid (sep : Z) (c : wshape).
Fixpoint wshape_eqb (a : shape) (b : wshape) {struct b} : bool :=
  match a, b with
  | _, WAnyS => true
  | ShLeaf ks, WLeafS ks' => zl_eqb ks ks'
  | ShNode kids, WNodeS kids' =>
    (fix go (x : list (Z * shape)) (y : list wkid) (first : bool) {struct y} : bool :=
       match x, y with
       | [], [] => true
       | (s, c) :: x', WKid s' c' :: y' =>
         (first || Z.eqb s s') && wshape_eqb c c' && go x' y' false
       | _, _ => false
       end) kids kids' true
  | _, _ => false
  end.

(* one history on one tree: node sizes, flags, calls, expected outputs,
   final shape and final items *)
Inductive wtcase :=
  TC (ml mi : nat) (vsame iand_rebuilds : bool) (calls : list call) (outs : list out)
     (final : wshape) (items : list wkv).

(* the C03 invariant after every step of the model's run *)
Fixpoint run_wf (vs ir : bool) (ml mi : nat) (s : st) (cs : list call) : bool :=
  match cs with
  | [] => true
  | c :: r => let '(s1, _) := step vs ir ml mi s c in
              wfb Z ml mi (t_tree s1) && run_wf vs ir ml mi s1 r
  end.

Definition tcase_ok (c : wtcase) : bool :=
  match c with
  | TC ml mi vs ir calls outs final items =>
    let '(s, os) := run vs ir ml mi (init) calls in
    outs_eqb os outs &&
    wshape_eqb (shape_of Z (t_tree s)) final &&
    kvl_eqb (map kv_of (contents Z (t_tree s))) items &&
    run_wf vs ir ml mi init calls &&
    (* the model itself refines the reference map on this history *)
    (let '(m, os') := Spec.run [] calls in outs_eqb os' outs && kvl_eqb (map kv_of m) items)
  end.

(* C03 correspondence: the observed shape after every call *)
Inductive wt3case := TC3 (ml mi : nat) (vsame iand_rebuilds : bool) (calls : list call) (shapes : list wshape).
Fixpoint run_shapes_ok (vs ir : bool) (ml mi : nat) (s : st) (cs : list call) (shs : list wshape) : bool :=
  match cs, shs with
  | [], [] => true
  | c :: r, sh :: shs' =>
    let '(s1, _) := step vs ir ml mi s c in
    wshape_eqb (shape_of Z (t_tree s1)) sh && wfb Z ml mi (t_tree s1) && run_shapes_ok vs ir ml mi s1 r shs'
  | _, _ => false
  end.
Definition t3case_ok (c : wt3case) : bool :=
  match c with TC3 ml mi vs ir calls shs => run_shapes_ok vs ir ml mi init calls shs end.

(* The set-only call &= exists on Set / TreeSet only, where every stored value
   is 0.  (The C flavour rebuilds the set from the kept keys, which would reset
   the values of a mapping.) *)
Definition is_iand (c : call) : bool := match c with CIand _ => true | _ => false end.
Definition zero_values (c : call) : bool :=
  match c with
  | CSet _ v | CInsert _ v | CSetdefault _ v => v =? 0
  | CUpdate l => forallb (fun x => snd (of_kv x) =? 0) l
  | _ => true
  end.
Definition set_calls_ok (calls : list call) : bool :=
  negb (existsb is_iand calls) || forallb zero_values calls.
