(* C08 for a tree of several leaves: two transactions that started from the
   same committed tree are committed one after the other under ZODB's
   optimistic concurrency control with per-object conflict resolution.

   Scope: LEAF-LOCAL transactions -- each transaction replaces the items of
   some leaves and does nothing else: no leaf is split, none is emptied, every
   key stays inside the key interval that the leaf's ancestors promise for it.
   Such a transaction marks only leaves as changed (RTree.tset / tdel report
   EChanged for the leaf alone in that case); the interior nodes are only
   declared as read dependencies (ERead), and since the other transaction does
   not change them either, that check passes.  The interior nodes therefore
   never change here, and the model keeps of them only what matters: the
   in-order sequence of leaves (RTree.leaves) and, for every leaf, the
   half-open interval [lo, hi) that the separators above it promise (the
   lo/hi arguments with which TreeSpec.wf_search_node reaches the leaf).

   Keys and values are Z; value equality is Z.eqb. *)
From Coq Require Import ZArith List Bool.
From BT Require Import Model.Merge Model.MergeSpec Model.RTree Model.TreeSpec.
Import ListNotations.
Open Scope Z_scope.

(* ---------- the committed tree ---------- *)

Record leaf := Lf {
  lid : nat;                  (* identity of the leaf object *)
  llo : option Z;             (* promised interval [llo, lhi); None = unbounded *)
  lhi : option Z;
  litems : list (Z * Z)       (* the leaf's state *)
}.

(* the part of a leaf no leaf-local transaction changes *)
Definition skel (l : leaf) : nat * option Z * option Z := (lid l, llo l, lhi l).

Definition with_items (l : leaf) (its : list (Z * Z)) : leaf :=
  {| lid := lid l; llo := llo l; lhi := lhi l; litems := its |}.

(* k lies in the leaf's interval (TreeSpec.within: lo <= k < hi) *)
Definition inside (l : leaf) (k : Z) : bool := within (llo l) (lhi l) k.

(* one leaf as stored: not empty, keys strictly ascending and inside the interval *)
Definition leaf_ok (l : leaf) : Prop :=
  litems l <> [] /\
  keys_sorted Z (litems l) /\
  (forall k v, In (k, v) (litems l) -> inside l k = true).

(* neighbouring leaves share the separator between them *)
Fixpoint consecutive (b : list leaf) : Prop :=
  match b with
  | [] => True
  | l :: rest =>
    match rest with
    | [] => True
    | l' :: _ => (exists s, lhi l = Some s /\ llo l' = Some s) /\ consecutive rest
    end
  end.

(* the leaves of a sound stored tree, in key order *)
Definition base_ok (b : list leaf) : Prop :=
  NoDup (map lid b) /\ Forall leaf_ok b /\ consecutive b.

(* what the tree contains *)
Definition contents_of (b : list leaf) : list (Z * Z) := flat_map litems b.

(* ---------- transactions ---------- *)

(* the new items of every leaf the transaction changed, by leaf identity *)
Definition txn := list (nat * list (Z * Z)).

Fixpoint change (x : txn) (i : nat) : option (list (Z * Z)) :=
  match x with
  | [] => None
  | (j, its) :: r => if Nat.eqb i j then Some its else change r i
  end.

(* leaf-local: at most one entry per leaf; every changed leaf exists, and its
   new state is again a legal state for that leaf (so: not emptied, not moved
   out of its interval -- the parent need not change) *)
Definition txn_ok (b : list leaf) (x : txn) : Prop :=
  NoDup (map fst x) /\
  forall i its, In (i, its) x ->
    exists l, In l b /\ lid l = i /\ leaf_ok (with_items l its).

(* the tree as the transaction sees it when it finishes *)
Definition leaf_after (x : txn) (l : leaf) : leaf :=
  match change x (lid l) with Some its => with_items l its | None => l end.
Definition apply (b : list leaf) (x : txn) : list leaf := map (leaf_after x) b.

(* ---------- the commit of the second transaction ---------- *)

(* the successor link stored in a leaf: the identity of the next leaf *)
Definition next_of (rest : list leaf) : option Z :=
  match rest with [] => None | l' :: _ => Some (Z.of_nat (lid l')) end.

(* t1 is committed already.  ZODB now stores t2's objects one by one:
     - an object t2 did not write keeps its committed state (t1's, or the base's);
     - an object only t2 wrote was read at its current serial: stored as is;
     - an object both wrote: _p_resolveConflict(original, committed, new), and
       anything but a resolved state aborts the whole commit (ConflictError).
   Nobody relinks leaves, so the three states carry the same successor link. *)
Definition commit_leaf (t1 t2 : txn) (l : leaf) (next : option Z) : option leaf :=
  match change t1 (lid l), change t2 (lid l) with
  | None, None => Some l
  | Some c, None => Some (with_items l c)
  | None, Some n => Some (with_items l n)
  | Some c, Some n =>
    match bucket_resolve Z Z.eqb (litems l, next) (c, next) (n, next) with
    | ROk (r, _) => Some (with_items l r)
    | _ => None
    end
  end.

(* None = ConflictError, nothing of t2 is stored *)
Fixpoint commit2 (b : list leaf) (t1 t2 : txn) : option (list leaf) :=
  match b with
  | [] => Some []
  | l :: rest =>
    match commit_leaf t1 t2 l (next_of rest), commit2 rest t1 t2 with
    | Some l', Some rest' => Some (l' :: rest')
    | _, _ => None
    end
  end.

(* ---------- where the leaf sequence comes from ---------- *)

(* the leaves of an RTree in key order, each with the interval under which
   TreeSpec.wf_search_node / wf_node check it (same recursion, same bounds):
   child i of a node lives in [separator i, separator i+1), the first child
   inherits the node's lower bound, the last its upper bound *)
Fixpoint tree_leaves (lo hi : option Z) (t : tree Z) {struct t} : list leaf :=
  match t with
  | Leaf i l => [Lf i lo hi l]
  | Node _ kids =>
    (fix go (first : bool) (lo' : option Z) (l : list (Z * tree Z)) {struct l} : list leaf :=
       match l with
       | [] => []
       | (s, c) :: rest =>
         let lo1 := if first then lo' else Some s in
         let hi1 := match rest with [] => hi | (s2, _) :: _ => Some s2 end in
         tree_leaves lo1 hi1 c ++ go false lo1 rest
       end) true lo kids
  end.
