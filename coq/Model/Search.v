(* Literal models of the two binary searches (BUCKET_SEARCH in
   BucketTemplate.c / Bucket._search, BTREE_SEARCH in BTreeModuleTemplate.c /
   _Tree._search) with the sequence of stored keys they compare the argument
   with, and the comparison traces of lookup / insert / delete on the RTree
   model (C14). *)
From Coq Require Import ZArith List Bool Arith.
From BT Require Import Model.RTree.
Import ListNotations.
Open Scope Z_scope.

Definition zget (l : list Z) (i : nat) : Z := nth i l 0.

(* for (_i = _hi >> 1; _lo < _hi; _i = (_lo + _hi) >> 1): returns (index, last comparison, probes) *)
Fixpoint bucket_loop (fuel : nat) (keys : list Z) (k : Z) (lo hi i : nat) (c : comparison) (tr : list Z)
  : nat * comparison * list Z :=
  match fuel with
  | O => (i, c, tr)
  | S f =>
    if (lo <? hi)%nat then
      let x := zget keys i in
      match x ?= k with
      | Lt => let lo' := S i in bucket_loop f keys k lo' hi (Nat.div2 (lo' + hi)) Lt (tr ++ [x])
      | Eq => (i, Eq, tr ++ [x])
      | Gt => bucket_loop f keys k lo i (Nat.div2 (lo + i)) Gt (tr ++ [x])
      end
    else (i, c, tr)
  end.
(* (index, found?, probes) *)
Definition bucket_search (keys : list Z) (k : Z) : nat * bool * list Z :=
  let n := length keys in
  let '(i, c, tr) := bucket_loop (S n) keys k 0 n (Nat.div2 n) Gt [] in
  (i, match c with Eq => true | _ => false end, tr).

(* for (_i = _hi >> 1; _i > _lo; _i = (_lo + _hi) >> 1) over the separators
   (index 0 is unused): returns (child index, probes) *)
Fixpoint btree_loop (fuel : nat) (seps : list Z) (k : Z) (lo hi i : nat) (tr : list Z) : nat * list Z :=
  match fuel with
  | O => (i, tr)
  | S f =>
    if (lo <? i)%nat then
      let x := zget seps i in
      match x ?= k with
      | Lt => btree_loop f seps k i hi (Nat.div2 (i + hi)) (tr ++ [x])
      | Gt => btree_loop f seps k lo i (Nat.div2 (lo + i)) (tr ++ [x])
      | Eq => (i, tr ++ [x])
      end
    else (i, tr)
  end.
Definition btree_search (seps : list Z) (k : Z) : nat * list Z :=
  let n := length seps in btree_loop (S n) seps k 0 n (Nat.div2 n) [].

Section Traces.
Variable V : Type.
Notation tree := (tree V).

(* the stored keys compared with k, in order, by a descent for k;
   [sepcheck]: a delete also compares k with the node key of the chosen child
   (when it is not child 0) on the way down *)
Fixpoint cmp_trace (sepcheck : bool) (t : tree) (k : Z) : list Z :=
  match t with
  | Leaf _ items => snd (bucket_search (map fst items) k)
  | Node _ [] => []
  | Node _ kids =>
    let '(i, tr) := btree_search (map fst kids) k in
    tr ++ (if sepcheck && negb (i =? 0)%nat then [zget (map fst kids) i] else []) ++
    match nth_error kids i with
    | Some (_, c) =>
      (fix go (l : list (Z * tree)) (j : nat) : list Z :=
         match l with
         | [] => []
         | (_, c') :: rest => if (j =? i)%nat then cmp_trace sepcheck c' k else go rest (S j)
         end) kids 0%nat
    | None => []
    end
  end.
End Traces.

(* ---------- wire ---------- *)
Inductive wtr := WTL (keys : list Z) | WTN (kids : list wtk)
with wtk := WTK (sep : Z) (c : wtr).
Fixpoint tr_of (w : wtr) : tree Z :=
  match w with
  | WTL keys => Leaf 0%nat (map (fun k => (k, 0)) keys)
  | WTN kids => Node 0%nat (map (fun x => match x with WTK s c => (s, tr_of c) end) kids)
  end.
Fixpoint zl_eqb (a b : list Z) : bool :=
  match a, b with [], [] => true | x :: a', y :: b' => Z.eqb x y && zl_eqb a' b' | _, _ => false end.
(* observed probe sequence of a lookup/insert (sepcheck=false) or delete (true) *)
Inductive wcmpcase := CT (t : wtr) (sepcheck : bool) (k : Z) (probes : list Z).
(* a three-way comparison is one or two primitive comparisons with the same
   stored key, so the observation cannot tell consecutive probes of one key apart *)
Fixpoint collapse (l : list Z) : list Z :=
  match l with
  | [] => []
  | x :: r => match r with
              | [] => [x]
              | y :: _ => if x =? y then collapse r else x :: collapse r
              end
  end.
Definition cmpcase_ok (c : wcmpcase) : bool :=
  match c with CT t sc k probes => zl_eqb (collapse (cmp_trace Z sc (tr_of t) k)) probes end.

(* every key and node key stored in a tree *)
Fixpoint all_keys (V : Type) (t : tree V) : list Z :=
  match t with
  | Leaf _ items => map fst items
  | Node _ kids => map fst (tl kids) ++ flat_map (fun sc => all_keys V (snd sc)) kids
  end.
