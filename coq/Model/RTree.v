(* The B+tree of BTreeTemplate.c / BucketTemplate.c / _base.py (_Tree, Bucket)
   as a pure tree with the code's exact policies:
     - a leaf splits at len/2 when its size exceeds max_leaf_size, an interior
       node when its size exceeds max_internal_size, the root when it reaches
       2*max_internal_size children;
     - the separator of a new right sibling is the smallest key below it;
     - deletion refreshes a separator only when the deleted key equals it;
     - an emptied child is removed from its parent.
   The leaf chain (firstbucket / next) is not stored: it is the in-order
   sequence of leaves, and the correspondence check compares the
   implementation's actual chain with it after every operation.
   Every node carries an identity (nat) so that the persistence layer can talk
   about "the same object"; operations report, as events, which objects they
   marked changed, which they declared as read dependencies, and which they
   created.  Keys are Z (see DESIGN.md), values any type. *)
From Coq Require Import ZArith List Bool Arith.
Import ListNotations.
Open Scope Z_scope.

Inductive event :=
| EChanged (id : nat)             (* _p_changed = True / PER_CHANGED *)
| ERead (id : nat)                (* readCurrent(self), effective only when stored *)
| ENew (id : nat)                 (* a node created by this operation *)
| EEmbed (id leaf : nat).         (* "single bucket without oid changed": id is marked iff leaf has no oid *)

Section RTree.
Variable V : Type.
Variable veq : V -> V -> bool.
Variable value_same_check : bool.   (* VALUE_SAME / VALUE_SAME_CHECK: numeric value families *)
Variables ml mi : nat.              (* max_leaf_size, max_internal_size *)

Inductive tree :=
| Leaf (id : nat) (items : list (Z * V))
| Node (id : nat) (kids : list (Z * tree)).   (* (separator, child); the first separator is unused *)

Definition tid (t : tree) : nat := match t with Leaf i _ => i | Node i _ => i end.
Definition tsize (t : tree) : nat :=
  match t with Leaf _ l => length l | Node _ k => length k end.
Definition is_leaf (t : tree) : bool := match t with Leaf _ _ => true | Node _ _ => false end.

(* smallest key below t: firstbucket->keys[0] *)
Fixpoint tmin (t : tree) : option Z :=
  match t with
  | Leaf _ l => match l with [] => None | (k, _) :: _ => Some k end
  | Node _ kids => match kids with [] => None | (_, c) :: _ => tmin c end
  end.
Definition tmin0 (t : tree) : Z := match tmin t with Some k => k | None => 0 end.

(* in-order contents and in-order leaf sequence *)
Fixpoint contents (t : tree) : list (Z * V) :=
  match t with
  | Leaf _ l => l
  | Node _ kids => flat_map (fun sc => contents (snd sc)) kids
  end.
Fixpoint leaves (t : tree) : list (nat * list (Z * V)) :=
  match t with
  | Leaf i l => [(i, l)]
  | Node _ kids => flat_map (fun sc => leaves (snd sc)) kids
  end.

(* ---------- leaf (Bucket / Set) ---------- *)
Inductive status := StNone | St0 | St1.   (* no change / changed, same size / size changed *)

Fixpoint llookup (l : list (Z * V)) (k : Z) : option V :=
  match l with
  | [] => None
  | (k', v) :: r => match k ?= k' with Eq => Some v | Lt => None | Gt => llookup r k end
  end.

(* _bucket_set with a value: (items', status, value reported) *)
Fixpoint lset (l : list (Z * V)) (k : Z) (v : V) (ifunset : bool) : list (Z * V) * status * V :=
  match l with
  | [] => ([(k, v)], St1, v)
  | (k', v') :: r =>
    match k ?= k' with
    | Lt => ((k, v) :: l, St1, v)
    | Eq => if ifunset || (value_same_check && veq v v') then (l, StNone, v')
            else ((k', v) :: r, St0, v)
    | Gt => let '(r', st, rv) := lset r k v ifunset in ((k', v') :: r', st, rv)
    end
  end.

(* delete: None = KeyError *)
Fixpoint ldel (l : list (Z * V)) (k : Z) : option (list (Z * V) * V) :=
  match l with
  | [] => None
  | (k', v') :: r =>
    match k ?= k' with
    | Lt => None
    | Eq => Some (r, v')
    | Gt => match ldel r k with Some (r', v) => Some ((k', v') :: r', v) | None => None end
    end
  end.

(* ---------- descent ---------- *)
(* the child to descend into is the last one whose separator is <= key
   (BTREE_SEARCH); on sorted separators: the first child whose successor's
   separator is greater than the key *)
Definition chosen (k : Z) (rest : list (Z * tree)) : bool :=
  match rest with [] => true | (s, _) :: _ => k <? s end.

Fixpoint tget (t : tree) (k : Z) : option V :=
  match t with
  | Leaf _ l => llookup l k
  | Node _ kids =>
    (fix go (l : list (Z * tree)) : option V :=
       match l with
       | [] => None
       | (_, c) :: rest => if chosen k rest then tget c k else go rest
       end) kids
  end.

(* ---------- split ---------- *)
(* child._split(): left part keeps the identity, the right part is new *)
Definition split_node (fresh : nat) (t : tree) : tree * tree :=
  match t with
  | Leaf i l => let h := Nat.div2 (length l) in (Leaf i (firstn h l), Leaf fresh (skipn h l))
  | Node i k => let h := Nat.div2 (length k) in (Node i (firstn h k), Node fresh (skipn h k))
  end.
Definition max_for (c : tree) : nat := if is_leaf c then ml else mi.

(* ---------- set ---------- *)
Record sres := mkS { s_tree : tree; s_st : status; s_val : option V;
                     s_ev : list event; s_fresh : nat }.

(* _grow(child, index) applied to the freshly updated child c' at its place *)
Definition grow_at (fresh : nat) (sep : Z) (c' : tree) (rest : list (Z * tree))
  : list (Z * tree) * nat * list event :=
  let '(a, b) := split_node fresh c' in
  ((sep, a) :: (tmin0 b, b) :: rest, S fresh, [ENew fresh]).

(* _split_root followed by _grow(child, 0) *)
Definition split_root (fresh : nat) (kids : list (Z * tree)) : list (Z * tree) * nat * list event :=
  let child := Node fresh kids in
  let '(a, b) := split_node (S fresh) child in
  ([(0, a); (tmin0 b, b)], S (S fresh), [ENew fresh; ENew (S fresh)]).

Fixpoint tset (fresh : nat) (t : tree) (k : Z) (v : V) (ifunset : bool) {struct t} : sres :=
  match t with
  | Leaf i l =>
    let '(l', st, rv) := lset l k v ifunset in
    mkS (Leaf i l') st (Some rv) (match st with StNone => [] | _ => [EChanged i] end) fresh
  | Node i [] =>
    (* an empty node (only the root can be): create the first bucket, insert into it *)
    mkS (Node i [(0, Leaf fresh [(k, v)])]) St1 (Some v)
        [ERead i; ENew fresh; EChanged fresh; EEmbed i fresh] (S fresh)
  | Node i kids =>
    let single := (length kids =? 1)%nat in
    let '(kids1, st, rv, ev1, fresh1, grew_here) :=
      (fix go (l : list (Z * tree)) : list (Z * tree) * status * option V * list event * nat * bool :=
         match l with
         | [] => ([], StNone, None, [], fresh, false)
         | (s, c) :: rest =>
           if chosen k rest then
             let r := tset fresh c k v ifunset in
             let c' := s_tree r in
             let emb := match s_st r with
                        | StNone => []
                        | _ => if is_leaf c' && single then [EEmbed i (tid c')] else []
                        end in
             match s_st r with
             | St1 =>
               if (max_for c' <? tsize c')%nat then
                 let '(l', f', evg) := grow_at (s_fresh r) s c' rest in
                 (l', St1, s_val r, s_ev r ++ EChanged i :: evg ++ emb, f', true)
               else ((s, c') :: rest, St1, s_val r, s_ev r ++ emb, s_fresh r, false)
             | st' => ((s, c') :: rest, st', s_val r, s_ev r ++ emb, s_fresh r, false)
             end
           else
             let '(l', st, rv, ev, f', g) := go rest in ((s, c) :: l', st, rv, ev, f', g)
         end) kids in
    if grew_here && (2 * mi <=? length kids1)%nat then
      let '(kids2, fresh2, ev2) := split_root fresh1 kids1 in
      mkS (Node i kids2) st rv (ERead i :: ev1 ++ ev2) fresh2
    else mkS (Node i kids1) st rv (ERead i :: ev1) fresh1
  end.

(* ---------- delete ---------- *)
(* result of deleting below a node; d_first = "the first bucket of this subtree went away" *)
Record dres := mkD { d_tree : tree; d_val : V; d_ev : list event; d_first : bool }.

(* id of the last leaf below t: whose next pointer _deleteNextBucket rewrites *)
Fixpoint last_leaf_id (t : tree) : nat :=
  match t with
  | Leaf i _ => i
  | Node i kids => (fix go (l : list (Z * tree)) (d : nat) : nat :=
                      match l with [] => d | (_, c) :: rest => go rest (last_leaf_id c) end) kids i
  end.

Fixpoint tdel (t : tree) (k : Z) {struct t} : option dres :=
  match t with
  | Leaf i l =>
    match ldel l k with
    | None => None
    | Some (l', v) => Some (mkD (Leaf i l') v [EChanged i] false)
    end
  | Node i kids =>
    let single := (length kids =? 1)%nat in
    match
      (fix go (prev : option tree) (first : bool) (l : list (Z * tree))
         : option (list (Z * tree) * V * list event * bool) :=
         match l with
         | [] => None
         | (s, c) :: rest =>
           if chosen k rest then
             match tdel c k with
             | None => None
             | Some r =>
               let c' := d_tree r in
               let emb := if is_leaf c' && single then [EEmbed i (tid c')] else [] in
               (* separator refresh: not for child 0, only when the deleted key equals it *)
               let '(s', evs) :=
                   if negb first && negb (tsize c' =? 0)%nat && (k =? s)
                   then (tmin0 c', [EChanged i]) else (s, []) in
               (* the child reported that its first bucket went away *)
               let '(first_gone, evf) :=
                   if d_first r then
                     match prev with
                     | Some p => (false, [EChanged (last_leaf_id p)])
                     | None => (true, [EChanged i])
                     end
                   else (false, []) in
               if negb (tsize c' =? 0)%nat then
                 Some ((s', c') :: rest, d_val r, d_ev r ++ emb ++ evs ++ evf, first_gone)
               else
                 (* the child became empty: unlink (if a bucket) and remove it *)
                 let '(first_gone', evu) :=
                     if is_leaf c' then
                       match prev with
                       | Some p => (first_gone, [EChanged (last_leaf_id p)])
                       | None => (true, [])
                       end
                     else (first_gone, []) in
                 Some (rest, d_val r, d_ev r ++ emb ++ evs ++ evf ++ evu ++ [EChanged i], first_gone')
             end
           else
             match go (Some c) false rest with
             | None => None
             | Some (l', v, ev, fg) => Some ((s, c) :: l', v, ev, fg)
             end
         end) None true kids
    with
    | None => None
    | Some (kids', v, ev, fg) => Some (mkD (Node i kids') v (ERead i :: ev) fg)
    end
  end.

(* read dependencies declared by a descent for k that ends in KeyError *)
Fixpoint read_path (t : tree) (k : Z) : list event :=
  match t with
  | Leaf _ _ => []
  | Node i kids =>
    ERead i ::
    (fix go (l : list (Z * tree)) : list event :=
       match l with
       | [] => []
       | (_, c) :: rest => if chosen k rest then read_path c k else go rest
       end) kids
  end.

(* ---------- whole-container operations ---------- *)
Definition tclear (t : tree) : tree * list event :=
  match t with
  | Node i [] => (t, [])
  | Node i _ => (Node i [], [EChanged i])
  | Leaf i [] => (t, [])
  | Leaf i _ => (Leaf i [], [EChanged i])
  end.

Definition empty_tree (id : nat) : tree := Node id [].

(* minKey / maxKey without argument *)
Fixpoint tmax (t : tree) : option Z :=
  match t with
  | Leaf _ l => match rev l with [] => None | (k, _) :: _ => Some k end
  | Node _ kids => (fix go (l : list (Z * tree)) : option Z :=
                      match l with
                      | [] => None
                      | [(_, c)] => tmax c
                      | _ :: rest => go rest
                      end) kids
  end.

(* ---------- shape: what the harness observes on the implementation ---------- *)
(* separators and sizes only (identities and values dropped) *)
Inductive shape := ShLeaf (keys : list Z) | ShNode (kids : list (Z * shape)).
Fixpoint shape_of (t : tree) : shape :=
  match t with
  | Leaf _ l => ShLeaf (map fst l)
  | Node _ kids => ShNode (map (fun sc => (fst sc, shape_of (snd sc))) kids)
  end.

End RTree.

Arguments Leaf {V}. Arguments Node {V}.
Arguments mkS {V}. Arguments mkD {V}.
Arguments s_tree {V}. Arguments s_st {V}. Arguments s_val {V}. Arguments s_ev {V}. Arguments s_fresh {V}.
Arguments d_tree {V}. Arguments d_val {V}. Arguments d_ev {V}. Arguments d_first {V}.
