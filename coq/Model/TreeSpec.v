(* The invariant of C03 on the RTree model, as a boolean checker (so that it
   can be evaluated on every state the correspondence run visits) and as a
   proposition. *)
From Coq Require Import ZArith List Bool Arith.
From BT Require Import Model.RTree.
Import ListNotations.
Open Scope Z_scope.

Section TreeSpec.
Variable V : Type.
Variables ml mi : nat.
Notation tree := (tree V).

Definition above (lo : option Z) (k : Z) : bool := match lo with None => true | Some a => a <=? k end.
Definition below (hi : option Z) (k : Z) : bool := match hi with None => true | Some b => k <? b end.
Definition within (lo hi : option Z) (k : Z) : bool := above lo k && below hi k.

Fixpoint strictly_sorted_b (l : list Z) : bool :=
  match l with
  | [] => true
  | x :: r => match r with [] => true | y :: _ => (x <? y) && strictly_sorted_b r end
  end.

Fixpoint depth (t : tree) : nat :=
  match t with
  | Leaf _ _ => O
  | Node _ kids => match kids with [] => 1%nat | (_, c) :: _ => S (depth c) end
  end.

Definition opt_eqb (a : option Z) (b : Z) : bool := match a with Some x => x =? b | None => false end.

(* every key of the subtree lies in [lo, hi); separators ascending and inside
   the interval; for i >= 1 the separator equals the smallest key below child
   i; children of one kind and one depth; nothing empty; sizes bounded *)
Fixpoint wf_node (root : bool) (lo hi : option Z) (t : tree) {struct t} : bool :=
  match t with
  | Leaf _ l =>
    negb (length l =? 0)%nat && (length l <=? ml)%nat &&
    strictly_sorted_b (map fst l) && forallb (within lo hi) (map fst l)
  | Node _ kids =>
    negb (length kids =? 0)%nat &&
    (if root then (length kids <? 2 * mi)%nat else (length kids <=? mi)%nat) &&
    match kids with
    | [] => true
    | (_, c0) :: _ =>
      (fix go (first : bool) (lo' : option Z) (l : list (Z * tree)) {struct l} : bool :=
         match l with
         | [] => true
         | (s, c) :: rest =>
           let lo1 := if first then lo' else Some s in
           let hi1 := match rest with [] => hi | (s2, _) :: _ => Some s2 end in
           (first || (within lo' hi s && opt_eqb (tmin V c) s)) &&
           Bool.eqb (is_leaf V c) (is_leaf V c0) && (depth c =? depth c0)%nat &&
           wf_node false lo1 hi1 c && go false lo1 rest
         end) true lo kids
    end
  end.

(* a whole container: an empty root, or a well-formed root node *)
Definition wfb (t : tree) : bool :=
  match t with
  | Node _ [] => true
  | Node _ _ => wf_node true None None t
  | Leaf _ _ => false
  end.
Definition Inv (t : tree) : Prop := wfb t = true.

(* the stored invariant without the size clause and without exact separators:
   what range searches and the checkers rely on (stale separators allowed) *)
Fixpoint wf_search_node (lo hi : option Z) (t : tree) {struct t} : bool :=
  match t with
  | Leaf _ l =>
    negb (length l =? 0)%nat && strictly_sorted_b (map fst l) && forallb (within lo hi) (map fst l)
  | Node _ kids =>
    negb (length kids =? 0)%nat &&
    match kids with
    | [] => true
    | (_, c0) :: _ =>
      (fix go (first : bool) (lo' : option Z) (l : list (Z * tree)) {struct l} : bool :=
         match l with
         | [] => true
         | (s, c) :: rest =>
           let lo1 := if first then lo' else Some s in
           let hi1 := match rest with [] => hi | (s2, _) :: _ => Some s2 end in
           (first || within lo' hi s) &&
           Bool.eqb (is_leaf V c) (is_leaf V c0) &&
           wf_search_node lo1 hi1 c && go false lo1 rest
         end) true lo kids
    end
  end.
Definition wf_search (t : tree) : bool :=
  match t with
  | Node _ [] => true
  | Node _ _ => wf_search_node None None t
  | Leaf _ _ => false
  end.

(* identities are pairwise distinct and below the allocation counter *)
Fixpoint ids (t : tree) : list nat :=
  match t with
  | Leaf i _ => [i]
  | Node i kids => i :: flat_map (fun sc => ids (snd sc)) kids
  end.

End TreeSpec.
