(* C15, pure Python: iterating a tree is the generator _TreeItems.__iter__: for
   each bucket of the chain it runs the bucket's own generator
   `keys[i] for i in range(start, stop)` (start, stop = self._range(...)), whose index range is fixed
   when the bucket is ENTERED while keys[i] is read when the entry is asked
   for; two buckets in a row that yield nothing end the iteration (`done`).
   An index that is no longer there raises IndexError, which finishes the
   generators: every later next() raises StopIteration.  No bounds here
   (iter(t), t.iterkeys(), t.iteritems()).  Same leaf store as Model/Iter.v. *)
From Coq Require Import ZArith List Bool Arith.
From BT Require Import Model.Iter.
Import ListNotations.
Open Scope Z_scope.

Section IterPy.
Variable V : Type.

Record pyit := mkPy { p_cur : option nat;     (* bucket of the outer loop; None: generator finished *)
                      p_in : bool;            (* the bucket's generator has been created *)
                      p_i : nat; p_stop : nat;(* its range *)
                      p_done : bool }.
Inductive pyres := PEntry (kv : Z * V) | PStop | PIndexError | POob.

Definition finished : pyit := mkPy None false 0 0 false.

Fixpoint py_next (fuel : nat) (s : lstore V) (it : pyit) : pyres * pyit :=
  match fuel with
  | O => (POob, it)
  | S f =>
    match p_cur it with
    | None => (PStop, finished)
    | Some b =>
      match lget V s b with
      | None => (POob, it)
      | Some (items, nxt) =>
        (* entering the bucket fixes range(0, len) *)
        let stop := if p_in it then p_stop it else length items in
        let i := if p_in it then p_i it else O in
        if (i <? stop)%nat then
          match nth_error items i with
          | Some kv => (PEntry kv, mkPy (Some b) true (S i) stop false)
          | None => (PIndexError, finished)        (* keys[i]: the list shrank *)
          end
        else if p_done it then (PStop, finished)
        else py_next f s (mkPy nxt false 0 0 true)
      end
    end
  end.
Definition py_fuel : nat := 4.

Definition py_holds (s : lstore V) (it : pyit) : Prop :=
  match p_cur it with Some b => lget V s b <> None | None => True end.
End IterPy.

(* ---------- wire: one Python iterator, step by step ---------- *)
Inductive wpout := WPEntry (k : Z) | WPStop | WPIndexError.
Inductive wpstep := WPS (store : list wleaf) (out : wpout).
Inductive wpcase := PIC (cur : option nat) (steps : list wpstep).
Definition pout_matches (r : pyres unit) (o : wpout) : bool :=
  match r, o with
  | PEntry _ (k, _), WPEntry k' => Z.eqb k k'
  | PStop _, WPStop => true
  | PIndexError _, WPIndexError => true
  | _, _ => false
  end.
Fixpoint py_trace_ok (it : pyit) (steps : list wpstep) : bool :=
  match steps with
  | [] => true
  | WPS st o :: r =>
    let '(res, it') := py_next unit py_fuel (store_of st) it in
    pout_matches res o && py_trace_ok it' r
  end.
Definition pcase_py_ok (c : wpcase) : bool :=
  match c with PIC cur steps => py_trace_ok (mkPy cur false 0 0 false) steps end.
