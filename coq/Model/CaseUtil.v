(* Helpers for the generated correspondence case files (coq/Cases/*.v). *)
From Coq Require Import List Arith.
Import ListNotations.

Fixpoint mismatches_from {A} (ok : A -> bool) (i : nat) (l : list A) : list nat :=
  match l with
  | [] => []
  | x :: r => if ok x then mismatches_from ok (S i) r else i :: mismatches_from ok (S i) r
  end.

(* (number of cases, indices of the first few cases on which [ok] is false) *)
Definition report {A} (ok : A -> bool) (l : list A) : nat * list nat :=
  (length l, firstn 10 (mismatches_from ok 0 l)).
