(* C15: the C iterator (BTreeIter_next) and the finger of the lazy sequence
   (BTreeItems_seek) on a leaf store that may have been mutated ARBITRARILY
   since the iterator was created.  Leaves are kept by identity: a leaf that
   was unlinked from its tree stays in the store while an iterator refers to
   it (the iterator owns a reference).  SOob would be a read outside the
   leaf's vectors or through a dead pointer; the theorems show it never
   happens. *)
From Coq Require Import ZArith List Bool Arith.
Import ListNotations.
Open Scope Z_scope.

Section Iter.
Variable V : Type.

Definition leafrec := (list (Z * V) * option nat)%type.      (* items, next *)
Definition lstore := list (nat * leafrec).
Fixpoint lget (s : lstore) (i : nat) : option leafrec :=
  match s with [] => None | (j, r) :: rest => if Nat.eqb i j then Some r else lget rest i end.

(* BTreeItems: currentbucket/currentoffset, lastbucket/last; sticky error flag *)
Record iter := mkIt { i_cur : option nat; i_off : nat; i_last : nat; i_lastoff : nat; i_broken : bool }.
Inductive stepres := SEntry (kv : Z * V) | SStop | SRuntimeError | SOob.

Definition iter_next (s : lstore) (it : iter) : stepres * iter :=
  match i_cur it with
  | None => (SStop, it)
  | Some b =>
    match lget s b with
    | None => (SOob, it)                                   (* dead pointer *)
    | Some (items, nxt) =>
      if i_broken it || (length items <=? i_off it)%nat then
        (SRuntimeError, mkIt (i_cur it) (i_off it) (i_last it) (i_lastoff it) true)
      else
        match nth_error items (i_off it) with
        | None => (SOob, it)                               (* read outside the vector *)
        | Some kv =>
          if Nat.eqb b (i_last it) && (i_lastoff it <=? i_off it)%nat then
            (SEntry kv, mkIt None 0 (i_last it) (i_lastoff it) false)
          else if (length items <=? S (i_off it))%nat then
            (SEntry kv, mkIt nxt 0 (i_last it) (i_lastoff it) false)
          else (SEntry kv, mkIt (i_cur it) (S (i_off it)) (i_last it) (i_lastoff it) false)
        end
    end
  end.

(* every pointer the iterator may follow refers to a leaf of the store *)
Definition closed (s : lstore) : Prop :=
  forall i items nxt, lget s i = Some (items, nxt) ->
    match nxt with Some j => lget s j <> None | None => True end.
Definition holds (s : lstore) (it : iter) : Prop :=
  match i_cur it with Some b => lget s b <> None | None => True end.

(* the final validation of BTreeItems_seek: the position it computed is only
   used after the bounds check against the CURRENT size of the leaf *)
Inductive seekres := KOk (leaf off : nat) | KIndexError | KRuntimeError.
Definition seek_validate (s : lstore) (target : option (nat * nat)) : seekres :=
  match target with
  | None => KIndexError
  | Some (b, off) =>
    match lget s b with
    | None => KRuntimeError
    | Some (items, _) => if (off <? length items)%nat then KOk b off else KRuntimeError
    end
  end.
Definition read_at (s : lstore) (b off : nat) : option (Z * V) :=
  match lget s b with Some (items, _) => nth_error items off | None => None end.

End Iter.
