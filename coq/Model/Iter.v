(* C15: the C iterator (BTreeIter_next) and the finger of the lazy sequence
   (BTreeItems_seek) on a leaf store that may have been mutated ARBITRARILY
   since the iterator was created.  Leaves are kept by identity: a leaf that
   was unlinked from its tree stays in the store while an iterator refers to
   it (the iterator owns a reference).  SOob would be a read outside the
   leaf's vectors or through a dead pointer; the theorems show it never
   happens. *)
From Coq Require Import ZArith List Bool Arith.
Import ListNotations.
Open Scope Z_scope.

Section Iter.
Variable V : Type.

Definition leafrec := (list (Z * V) * option nat)%type.      (* items, next *)
Definition lstore := list (nat * leafrec).
Fixpoint lget (s : lstore) (i : nat) : option leafrec :=
  match s with [] => None | (j, r) :: rest => if Nat.eqb i j then Some r else lget rest i end.

(* BTreeItems: currentbucket/currentoffset, lastbucket/last; sticky error flag *)
Record iter := mkIt { i_cur : option nat; i_off : nat; i_last : nat; i_lastoff : nat; i_broken : bool }.
Inductive stepres := SEntry (kv : Z * V) | SStop | SRuntimeError | SOob.

Definition iter_next (s : lstore) (it : iter) : stepres * iter :=
  match i_cur it with
  | None => (SStop, it)
  | Some b =>
    match lget s b with
    | None => (SOob, it)                                   (* dead pointer *)
    | Some (items, nxt) =>
      if i_broken it || (length items <=? i_off it)%nat then
        (SRuntimeError, mkIt (i_cur it) (i_off it) (i_last it) (i_lastoff it) true)
      else
        match nth_error items (i_off it) with
        | None => (SOob, it)                               (* read outside the vector *)
        | Some kv =>
          if Nat.eqb b (i_last it) && (i_lastoff it <=? i_off it)%nat then
            (SEntry kv, mkIt None 0 (i_last it) (i_lastoff it) false)
          else if (length items <=? S (i_off it))%nat then
            (SEntry kv, mkIt nxt 0 (i_last it) (i_lastoff it) false)
          else (SEntry kv, mkIt (i_cur it) (S (i_off it)) (i_last it) (i_lastoff it) false)
        end
    end
  end.

(* every pointer the iterator may follow refers to a leaf of the store *)
Definition closed (s : lstore) : Prop :=
  forall i items nxt, lget s i = Some (items, nxt) ->
    match nxt with Some j => lget s j <> None | None => True end.
Definition holds (s : lstore) (it : iter) : Prop :=
  match i_cur it with Some b => lget s b <> None | None => True end.

(* the final validation of BTreeItems_seek: the position it computed is only
   used after the bounds check against the CURRENT size of the leaf *)
Inductive seekres := KOk (leaf off : nat) | KIndexError | KRuntimeError.
Definition seek_validate (s : lstore) (target : option (nat * nat)) : seekres :=
  match target with
  | None => KIndexError
  | Some (b, off) =>
    match lget s b with
    | None => KRuntimeError
    | Some (items, _) => if (off <? length items)%nat then KOk b off else KRuntimeError
    end
  end.
Definition read_at (s : lstore) (b off : nat) : option (Z * V) :=
  match lget s b with Some (items, _) => nth_error items off | None => None end.

End Iter.

(* ---------- wire: one iterator of the C implementation, step by step ---------- *)
(* Before every next() the harness records the leaf store as it is THEN (every
   bucket object it has ever seen on the chain, by identity: keys, next) and
   what the call did; the iterator's initial state is its creation-time range
   (first leaf, last leaf, offset of the last entry). *)
Inductive wleaf := WLf (id : nat) (keys : list Z) (next : option nat).
Inductive wout := WEntry (k : Z) | WStop | WRuntime.
Inductive wistep := WIS (store : list wleaf) (out : wout).
Inductive wicase := IC (cur : option nat) (last lastoff : nat) (steps : list wistep).

Definition store_of (l : list wleaf) : lstore unit :=
  map (fun w => match w with WLf i ks nx => (i, (map (fun k => (k, tt)) ks, nx)) end) l.
Definition out_matches (r : stepres unit) (o : wout) : bool :=
  match r, o with
  | SEntry _ (k, _), WEntry k' => Z.eqb k k'
  | SStop _, WStop => true
  | SRuntimeError _, WRuntime => true
  | _, _ => false
  end.
Fixpoint iter_trace_ok (it : iter) (steps : list wistep) : bool :=
  match steps with
  | [] => true
  | WIS st o :: r =>
    let '(res, it') := iter_next unit (store_of st) it in
    out_matches res o && iter_trace_ok it' r
  end.
Definition icase_ok (c : wicase) : bool :=
  match c with IC cur last lastoff steps => iter_trace_ok (mkIt cur 0 last lastoff false) steps end.
