(* The pointer model (Model/Chain.v) under the public API, and what an
   observer of the real objects sees of it.
   Every public call of TreeRun.step changes the tree through insertions,
   deletions and clear only; [prims_of] lists them (using TreeRun's own
   membership test where a call decides by it), [ch_run] drives the tree model
   and the pointer model side by side and checks, at every call, that
   (a) the primitive writes rebuild exactly the tree TreeRun.step computes,
   (b) the heap realises that tree (chain_ok_b), and
   (c) what the implementation shows -- the buckets met by following
   _firstbucket / _next from the root, and the _firstbucket of every interior
   node in preorder, each bucket given by its keys -- is what the heap says.
   Definitions only. *)
From Coq Require Import ZArith List Bool Arith.
From BT Require Import Model.RTree Model.TreeSpec Model.TreeRun Model.Persist Model.Chain.
Import ListNotations.
Open Scope Z_scope.

Section CR.
Variable vs : bool.
Variable ir : bool.
Variables ml mi : nat.

(* the primitive writes of a fold whose steps decide by the current state *)
Fixpoint fold_prims {A : Type} (f : st -> A -> st) (g : st -> A -> list prim) (l : list A) (s : st)
  : list prim :=
  match l with
  | [] => []
  | x :: r => g s x ++ fold_prims f g r (f s x)
  end.
Definition discard_prims (s : st) (k : Z) : list prim := if has s k then [PDel k] else [].
Definition add_prims (s : st) (k : Z) : list prim := [PSet k 0 true].

Definition prims_of (s : st) (c : call) : list prim :=
  match c with
  | CSet k v => [PSet k v false]
  | CDel k | CPop k | CPopD k _ | CRemove k => [PDel k]
  | CDiscard k => discard_prims s k
  | CInsert k v => [PSet k v true]
  | CSetdefault k v =>
    match (if ir then tget Z (t_tree s) k else None) with
    | Some _ => []
    | None => [PSet k v true]
    end
  | CPopitem =>
    match contents Z (t_tree s) with [] => [] | (k, _) :: _ => [PDel k] end
  | CSPop =>
    match contents Z (t_tree s) with [] => [] | (k, _) :: _ => discard_prims s k end
  | CUpdate l =>
    fold_prims (fun acc x => let '(a, _, _) := do_set vs ml mi acc (fst (of_kv x)) (snd (of_kv x)) false in a)
               (fun _ x => [PSet (fst (of_kv x)) (snd (of_kv x)) false]) l s
  | CClear => [PClear]
  | CAdd k => add_prims s k
  | CSUpdate l | CIor l => fold_prims (TreeRun.add vs ir ml mi) add_prims l s
  | CIand l =>
    if ir then PClear :: fold_prims (TreeRun.add vs ir ml mi) add_prims (filter (has s) l) (do_clear ir s)
    else fold_prims (discard ir) discard_prims
                    (filter (fun k => negb (existsb (Z.eqb k) l)) (map fst (contents Z (t_tree s)))) s
  | CIsub l => fold_prims (discard ir) discard_prims l s
  | CIxor l =>
    fold_prims (fun acc k => if has acc k then discard ir acc k else TreeRun.add vs ir ml mi acc k)
               (fun acc k => if has acc k then discard_prims acc k else add_prims acc k) l s
  | _ => []
  end.

(* equality of trees, identities included *)
Fixpoint kvs_eqb (a b : list (Z * Z)) : bool :=
  match a, b with
  | [], [] => true
  | (k, v) :: a', (k', v') :: b' => Z.eqb k k' && Z.eqb v v' && kvs_eqb a' b'
  | _, _ => false
  end.
Fixpoint tree_eqb (a b : tree Z) {struct a} : bool :=
  match a, b with
  | Leaf i l, Leaf j l' => Nat.eqb i j && kvs_eqb l l'
  | Node i ka, Node j kb =>
    Nat.eqb i j &&
    (fix go (x y : list (Z * tree Z)) {struct x} : bool :=
       match x, y with
       | [], [] => true
       | (s, c) :: x', (s', c') :: y' => Z.eqb s s' && tree_eqb c c' && go x' y'
       | _, _ => false
       end) ka kb
  | _, _ => false
  end.

(* observation: a bucket is shown by its keys *)
Definition keys_of (t : tree Z) (id : nat) : list Z :=
  match find (fun p => Nat.eqb (fst p) id) (leaves Z t) with
  | Some (_, items) => map fst items
  | None => []
  end.
Definition obs_chain (h : heap) (t : tree Z) : list (list Z) :=
  map (keys_of t) (walk_tree Z h t).
Definition obs_fbs (h : heap) (t : tree Z) : list (list Z) :=
  map (fun p => match fb h (fst p) with Some l => keys_of t l | None => [] end) (fbs Z t).

Fixpoint zll_eqb (a b : list (list Z)) : bool :=
  match a, b with
  | [], [] => true
  | x :: a', y :: b' => zl_eqb x y && zll_eqb a' b'
  | _, _ => false
  end.

Inductive wchobs := ChObs (chain : list (list Z)) (firsts : list (list Z)).

Fixpoint ch_run (s : st) (p : pst) (cs : list call) (obs : list wchobs) : bool :=
  match cs, obs with
  | [], [] => true
  | c :: r, ChObs ch fs :: obs' =>
    let s1 := fst (step vs ir ml mi s c) in
    let p1 := prim_run vs ml mi p (prims_of s c) in
    tree_eqb (p_tree p1) (t_tree s1) && Nat.eqb (p_fresh p1) (t_fresh s1) &&
    chain_ok_b Z (p_heap p1) (p_tree p1) &&
    zll_eqb (obs_chain (p_heap p1) (p_tree p1)) ch &&
    zll_eqb (obs_fbs (p_heap p1) (p_tree p1)) fs &&
    ch_run s1 p1 r obs'
  | _, _ => false
  end.
End CR.

Inductive wchcase :=
  CH (ml mi : nat) (vsame iand_rebuilds : bool) (calls : list call) (obs : list wchobs).
Definition chcase_ok (c : wchcase) : bool :=
  match c with CH ml mi vs ir calls obs => ch_run vs ir ml mi init pinit calls obs end.

(* the tree model and the pointer model side by side under the public API *)
Definition api_step (vs ir : bool) (ml mi : nat) (sp : st * pst) (c : call) : st * pst :=
  (fst (step vs ir ml mi (fst sp) c),
   prim_run vs ml mi (snd sp) (prims_of vs ir ml mi (fst sp) c)).
Definition api_run (vs ir : bool) (ml mi : nat) (cs : list call) : st * pst :=
  fold_left (api_step vs ir ml mi) cs (init, pinit).
