(* Key / value conversion (C13, C09): which Python values a family accepts and
   what it stores.  C: the COPY_*_FROM_ARG macros of intkeymacros.h /
   intvaluemacros.h / _fsBTree.c / objectkeymacros.h; Python: _datatypes.py.
   The bounds I_lo .. Q_hi come from Gen/TablesGen.v, regenerated from the
   sources on every run. *)
From Coq Require Import ZArith List Bool.
From BT Require Import Gen.TablesGen.
Import ListNotations.
Open Scope Z_scope.

Inductive pyval :=
| PInt (z : Z)            (* int *)
| PBool (b : bool)        (* bool: a subclass of int *)
| PIndex (z : Z)          (* not an int, but has __index__ *)
| PFloat                  (* any float *)
| PStr
| PBytes (len : nat)
| PNone
| PObjOrd                 (* object whose class defines its own comparison *)
| PObjDefault.            (* object with default (identity) comparison *)

Inductive ity := TI | TU | TL | TQ.   (* int32, uint32, int64, uint64 *)

Definition lo (t : ity) : Z := match t with TI => I_lo | TU => U_lo | TL => L_lo | TQ => Q_lo end.
Definition hi (t : ity) : Z := match t with TI => I_hi | TU => U_hi | TL => L_hi | TQ => Q_hi end.

(* ---------- C ---------- *)
Definition wrap_s32 (z : Z) : Z := (z + 2 ^ 31) mod 2 ^ 32 - 2 ^ 31.
Definition wrap_u32 (z : Z) : Z := z mod 2 ^ 32.
Definition fits_long (z : Z) : bool := (- 2 ^ 63 <=? z) && (z <? 2 ^ 63).

(* the integer the C macros extract from an int object, or None = TypeError *)
Definition c_int_of (t : ity) (z : Z) : option Z :=
  match t with
  | TI => if fits_long z then (if wrap_s32 z =? z then Some z else None) else None
  | TU => if fits_long z then
            (if z <? 0 then None else if wrap_u32 z =? z then Some z else None)
          else None
  | TL => if fits_long z then Some z else None            (* PyLong_AsLongLongAndOverflow *)
  | TQ => if (0 <=? z) && (z <? 2 ^ 64) then Some z else None   (* PyLong_AsUnsignedLongLong *)
  end.
Definition c_int (t : ity) (v : pyval) : option Z :=
  match v with
  | PInt z => c_int_of t z
  | PBool b => c_int_of t (if b then 1 else 0)
  | _ => None                                      (* PyLong_Check fails *)
  end.

(* ---------- Python: operator.index + struct.pack ---------- *)
Definition py_int_of (t : ity) (z : Z) : option Z :=
  if (lo t <=? z) && (z <=? hi t) then Some z else None.
Definition py_int (t : ity) (v : pyval) : option Z :=
  match v with
  | PInt z => py_int_of t z
  | PBool b => py_int_of t (if b then 1 else 0)
  | PIndex z => py_int_of t z
  | _ => None
  end.

(* ---------- bytes of exact length (fs keys: 2, fs values: 6) ---------- *)
Definition conv_bytes (n : nat) (v : pyval) : bool :=
  match v with PBytes len => Nat.eqb len n | _ => false end.
(* ---------- object keys: anything orderable, None included ---------- *)
Definition conv_objkey (v : pyval) : bool :=
  match v with PObjDefault => false | _ => true end.

(* ---------- wire ---------- *)
Inductive wconv := WC (t : Z) (v : pyval) (c_res py_res : option Z).
Definition ity_of (t : Z) : ity := if t =? 0 then TI else if t =? 1 then TU else if t =? 2 then TL else TQ.
Definition oz_eqb (a b : option Z) : bool :=
  match a, b with None, None => true | Some x, Some y => Z.eqb x y | _, _ => false end.
Definition convcase_ok (c : wconv) : bool :=
  match c with WC t v rc rp => oz_eqb (c_int (ity_of t) v) rc && oz_eqb (py_int (ity_of t) v) rp end.
