(* Range searches, minKey/maxKey and the lazy sequences, for the C extension
   (BTree_findRangeEnd, BTree_rangeSearch, BTreeItems_seek/length) and for
   the Python implementation (_findbucket, Bucket._range, _TreeItems), over
   the RTree model: a position is (index of the leaf in the in-order leaf
   sequence, offset inside the leaf).  Stale separators are allowed: the
   functions are meant to be right on every tree satisfying wf_search. *)
From Coq Require Import ZArith List Bool Arith.
From BT Require Import Model.RTree.
Import ListNotations.
Open Scope Z_scope.

(* ================= reference ================= *)
Module RSpec.
Definition drop_last {A} (l : list A) : list A := removelast l.
(* entries of the sorted association list m inside the requested interval *)
Definition range {V} (m : list (Z * V)) (lo hi : option Z) (exlo exhi : bool) : list (Z * V) :=
  let m1 := match lo with None => if exlo then tl m else m | Some _ => m end in
  let m2 := match hi with None => if exhi then drop_last m1 else m1 | Some _ => m1 end in
  filter (fun kv =>
            (match lo with None => true | Some a => if exlo then a <? fst kv else a <=? fst kv end) &&
            (match hi with None => true | Some b => if exhi then fst kv <? b else fst kv <=? b end)) m2.
(* least key >= b / greatest key <= b *)
Definition min_key {V} (m : list (Z * V)) (b : option Z) : option Z :=
  match b with
  | None => match m with [] => None | (k, _) :: _ => Some k end
  | Some x => match filter (fun kv => x <=? fst kv) m with [] => None | (k, _) :: _ => Some k end
  end.
Definition max_key {V} (m : list (Z * V)) (b : option Z) : option Z :=
  match b with
  | None => match rev m with [] => None | (k, _) :: _ => Some k end
  | Some x => match rev (filter (fun kv => fst kv <=? x) m) with [] => None | (k, _) :: _ => Some k end
  end.
(* python indexing / slicing of a list *)
Definition index {A} (l : list A) (i : Z) : option A :=
  let n := Z.of_nat (length l) in
  let j := if i <? 0 then i + n else i in
  if (j <? 0) || (n <=? j) then None else nth_error l (Z.to_nat j).
Definition clamp (n i : Z) : Z := let j := if i <? 0 then Z.max 0 (i + n) else Z.min i n in j.
Definition slice {A} (l : list A) (i j : Z) : list A :=
  let n := Z.of_nat (length l) in
  let a := clamp n i in let b := clamp n j in
  if b <=? a then [] else firstn (Z.to_nat (b - a)) (skipn (Z.to_nat a) l).
End RSpec.

Section Range.
Variable V : Type.
Notation tree := (tree V).
Notation leafseq := (list (list (Z * V))).

Definition lseq (t : tree) : leafseq := map snd (leaves V t).

Fixpoint nleaves (t : tree) : nat :=
  match t with
  | Leaf _ _ => 1%nat
  | Node _ kids => fold_right (fun sc n => (nleaves (snd sc) + n)%nat) O kids
  end.

(* index (in the leaf sequence) of the leaf that the descent for k reaches *)
Fixpoint find_leaf (t : tree) (k : Z) : nat :=
  match t with
  | Leaf _ _ => O
  | Node _ kids =>
    (fix go (l : list (Z * tree)) : nat :=
       match l with
       | [] => O
       | (_, c) :: rest => if chosen V k rest then find_leaf c k else (nleaves c + go rest)%nat
       end) kids
  end.

(* BUCKET_SEARCH: index of the first key >= k, and whether it equals k *)
Fixpoint bsearch (l : list (Z * V)) (k : Z) : nat * bool :=
  match l with
  | [] => (O, false)
  | (k', _) :: r => match k ?= k' with
                    | Lt => (O, false)
                    | Eq => (O, true)
                    | Gt => let '(i, e) := bsearch r k in (S i, e)
                    end
  end.

(* Bucket_findRangeEnd: Some offset, or None when no suitable key is in this leaf *)
Definition bucket_fre (l : list (Z * V)) (k : Z) (low excl : bool) : option nat :=
  let '(i, eq) := bsearch l k in
  let i' : Z :=
      if eq then (if excl then (if low then Z.of_nat i + 1 else Z.of_nat i - 1) else Z.of_nat i)
      else (if low then Z.of_nat i else Z.of_nat i - 1) in
  if (0 <=? i') && (i' <? Z.of_nat (length l)) then Some (Z.to_nat i') else None.

(* ---------------- C ---------------- *)
Definition nth_leaf (ls : leafseq) (i : nat) : list (Z * V) := nth i ls [].

(* BTree_findRangeEnd: descend; if the leaf has no suitable key take the first
   key of the next leaf (low) or the last key of the preceding leaf (high) *)
Definition c_fre (t : tree) (k : Z) (low excl : bool) : option (nat * nat) :=
  let ls := lseq t in
  match ls with
  | [] => None
  | _ =>
    let j := find_leaf t k in
    match bucket_fre (nth_leaf ls j) k low excl with
    | Some off => Some (j, off)
    | None =>
      if low then (if (S j <? length ls)%nat then Some (S j, O) else None)
      else match j with O => None | S p => Some (p, (length (nth_leaf ls p) - 1)%nat) end
    end
  end.

Definition key_at (ls : leafseq) (p : nat * nat) : Z :=
  match nth_error (nth_leaf ls (fst p)) (snd p) with Some (k, _) => k | None => 0 end.

(* BTree_rangeSearch: the two end positions, None = empty result *)
Definition c_range_ends (t : tree) (lo hi : option Z) (exlo exhi : bool) : option ((nat * nat) * (nat * nat)) :=
  let ls := lseq t in
  match ls with
  | [] => None
  | _ =>
    let lowp :=
        match lo with
        | Some a => c_fre t a true exlo
        | None =>
          if exlo then
            (if (1 <? length (nth_leaf ls 0))%nat then Some (O, 1%nat)
             else if (1 <? length ls)%nat then Some (1%nat, O) else None)
          else Some (O, O)
        end in
    match lowp with
    | None => None
    | Some lp =>
      let lastj := (length ls - 1)%nat in
      let highp :=
          match hi with
          | Some b => c_fre t b false exhi
          | None =>
            let off := (length (nth_leaf ls lastj) - 1)%nat in
            if exhi then
              (if (0 <? off)%nat then Some (lastj, (off - 1)%nat)
               else match lastj with
                    | O => None
                    | S p => Some (p, (length (nth_leaf ls p) - 1)%nat)
                    end)
            else Some (lastj, off)
          end in
      match highp with
      | None => None
      | Some hp =>
        if (fst lp =? fst hp)%nat then (if (snd hp <? snd lp)%nat then None else Some (lp, hp))
        else if key_at ls hp <? key_at ls lp then None else Some (lp, hp)
      end
    end
  end.

(* the entries from position lp to position hp inclusive *)
Definition between (ls : leafseq) (lp hp : nat * nat) : list (Z * V) :=
  let pre := (length (concat (firstn (fst lp) ls)) + snd lp)%nat in
  let upto := (length (concat (firstn (fst hp) ls)) + snd hp + 1)%nat in
  firstn (upto - pre) (skipn pre (concat ls)).

Definition c_range (t : tree) (lo hi : option Z) (exlo exhi : bool) : list (Z * V) :=
  match c_range_ends t lo hi exlo exhi with
  | None => []
  | Some (lp, hp) => between (lseq t) lp hp
  end.

(* BTree_maxminKey *)
Definition c_minkey (t : tree) (b : option Z) : option Z :=
  match lseq t with
  | [] => None
  | ls => match b with
          | None => Some (key_at ls (O, O))
          | Some x => match c_fre t x true false with Some p => Some (key_at ls p) | None => None end
          end
  end.
Definition c_maxkey (t : tree) (b : option Z) : option Z :=
  match lseq t with
  | [] => None
  | ls => match b with
          | None => let j := (length ls - 1)%nat in Some (key_at ls (j, (length (nth_leaf ls j) - 1)%nat))
          | Some x => match c_fre t x false false with Some p => Some (key_at ls p) | None => None end
          end
  end.

(* ----- BTreeItems: the finger of the lazy sequence -----
   state: first/last positions, current position, pseudoindex *)
Record items := mkItems { it_first : nat * nat; it_last : nat * nat;
                          it_cur : nat * nat; it_pseudo : Z }.
Inductive seekres := SeekOk (s : items) | SeekIndexError | SeekRuntimeError | SeekFuel.

(* move right / left by delta, one bucket at a time, exactly as BTreeItems_seek *)
Fixpoint seek_right (fuel : nat) (ls : leafseq) (s : items) (cur : nat * nat) (pseudo delta : Z) : option ((nat * nat) * Z) :=
  match fuel with
  | O => None
  | S f =>
    let len := Z.of_nat (length (nth_leaf ls (fst cur))) in
    let mx := len - Z.of_nat (snd cur) - 1 in
    if delta <=? mx then
      let off := (snd cur + Z.to_nat delta)%nat in
      if (fst cur =? fst (it_last s))%nat && (snd (it_last s) <? off)%nat then None
      else Some ((fst cur, off), pseudo + delta)
    else if (fst cur =? fst (it_last s))%nat || (length ls <=? S (fst cur))%nat then None
    else seek_right f ls s (S (fst cur), O) (pseudo + mx + 1) (delta - (mx + 1))
  end.
Fixpoint seek_left (fuel : nat) (ls : leafseq) (s : items) (cur : nat * nat) (pseudo delta : Z) : option ((nat * nat) * Z) :=
  match fuel with
  | O => None
  | S f =>
    if (- delta) <=? Z.of_nat (snd cur) then
      let off := Z.to_nat (Z.of_nat (snd cur) + delta) in
      if (fst cur =? fst (it_first s))%nat && (off <? snd (it_first s))%nat then None
      else Some ((fst cur, off), pseudo + delta)
    else if (fst cur =? fst (it_first s))%nat then None
    else match fst cur with
         | O => None
         | S p => seek_left f ls s (p, (length (nth_leaf ls p) - 1)%nat)
                            (pseudo - (Z.of_nat (snd cur) + 1)) (delta + (Z.of_nat (snd cur) + 1))
         end
  end.
Definition c_seek (ls : leafseq) (s : items) (i : Z) : option items :=
  let delta := i - it_pseudo s in
  let r := if 0 <? delta then seek_right (S (length ls)) ls s (it_cur s) (it_pseudo s) delta
           else if delta <? 0 then seek_left (S (length ls)) ls s (it_cur s) (it_pseudo s) delta
           else Some (it_cur s, it_pseudo s) in
  match r with
  | None => None
  | Some (cur, ps) => Some (mkItems (it_first s) (it_last s) cur ps)
  end.
(* BTreeItems_length *)
Definition c_len (ls : leafseq) (s : items) : nat :=
  let fp := it_first s in let lp := it_last s in
  if (fst fp =? fst lp)%nat then (snd lp + 1 - snd fp)%nat
  else (length (concat (firstn (fst lp - fst fp) (skipn (fst fp) ls))) + snd lp + 1 - snd fp)%nat.
Definition c_entry (ls : leafseq) (s : items) : option (Z * V) :=
  nth_error (nth_leaf ls (fst (it_cur s))) (snd (it_cur s)).
Definition c_items_of (t : tree) (lo hi : option Z) (exlo exhi : bool) : option items :=
  match c_range_ends t lo hi exlo exhi with
  | None => None
  | Some (lp, hp) => Some (mkItems lp hp lp 0)
  end.
(* a sequence of index operations on one lazy sequence (python semantics for
   negative indices are applied by the sequence protocol before seek) *)
Fixpoint c_index_run (ls : leafseq) (s : option items) (idx : list Z) : list (option (Z * V)) :=
  match idx with
  | [] => []
  | i :: r =>
    match s with
    | None => None :: c_index_run ls s r
    | Some st =>
      let n := Z.of_nat (c_len ls st) in
      let j := if i <? 0 then i + n else i in
      if j <? 0 then None :: c_index_run ls s r   (* the sequence protocol passes it on; seek refuses *)
      else match c_seek ls st j with
           | None => None :: c_index_run ls s r
           | Some st' => c_entry ls st' :: c_index_run ls (Some st') r
           end
    end
  end.

(* ---------------- Python ---------------- *)
(* Bucket._range with the four arguments -> [start, end) *)
Definition py_leaf_range (l : list (Z * V)) (lo hi : option Z) (exlo exhi : bool) : nat * nat :=
  let st := match lo with
            | None => if exlo then 1%nat else O
            | Some a => let '(i, eq) := bsearch l a in if eq && exlo then S i else i
            end in
  let en := match hi with
            | None => if exhi then (length l - 1)%nat else length l
            | Some b => let '(i, eq) := bsearch l b in if eq && negb exhi then S i else i
            end in
  (st, en).
Definition slice_nat {A} (l : list A) (a b : nat) : list A := firstn (b - a) (skipn a l).

(* _TreeItems.__iter__: walk the chain from the start leaf; an exclusive
   omitted bound applies to the first / last leaf of the chain only; stop at
   the first leaf (after the first) that yields nothing *)
Fixpoint py_iter (ls : leafseq) (lo hi : option Z) (exlo exhi : bool) (first done : bool) : list (Z * V) :=
  match ls with
  | [] => []
  | l :: rest =>
    let is_last := match rest with [] => true | _ => false end in
    let exlo' := exlo && (first || match lo with None => false | Some _ => true end) in
    let exhi' := exhi && (is_last || match hi with None => false | Some _ => true end) in
    let '(a, b) := py_leaf_range l lo hi exlo' exhi' in
    let out := slice_nat l a b in
    match out with
    | [] => if done then [] else py_iter rest lo hi exlo exhi false true
    | _ => out ++ py_iter rest lo hi exlo exhi false true
    end
  end.
Definition py_range (t : tree) (lo hi : option Z) (exlo exhi : bool) : list (Z * V) :=
  let ls := lseq t in
  let start := match lo with None => O | Some a => find_leaf t a end in
  py_iter (skipn start ls) lo hi exlo exhi true false.

(* _Tree.minKey: the leaf found by descent, else the first key of its successor *)
Definition py_minkey (t : tree) (b : option Z) : option Z :=
  match lseq t with
  | [] => None
  | ls => match b with
          | None => Some (key_at ls (O, O))
          | Some x =>
            let j := find_leaf t x in
            let '(i, _) := bsearch (nth_leaf ls j) x in
            if (i <? length (nth_leaf ls j))%nat then Some (key_at ls (j, i))
            else if (S j <? length ls)%nat then Some (key_at ls (S j, O)) else None
          end
  end.
(* _Tree.maxKey with its "child.minKey() > max: index -= 1" retry at every level *)
Fixpoint py_maxkey_node (t : tree) (x : Z) : option Z :=
  match t with
  | Leaf _ l => let '(i, eq) := bsearch l x in
                if eq then Some x
                else match i with O => None | S p => match nth_error l p with Some (k, _) => Some k | None => None end end
  | Node _ kids =>
    (* prev = what maxKey(x) of the preceding child would return (None at index 0) *)
    (fix go (prev : option (option Z)) (l : list (Z * tree)) : option Z :=
       match l with
       | [] => None
       | (_, c) :: rest =>
         if chosen V x rest then
           match prev, tmin V c with
           | Some p, Some m => if x <? m then p else py_maxkey_node c x
           | _, _ => py_maxkey_node c x
           end
         else go (Some (py_maxkey_node c x)) rest
       end) None kids
  end.
Definition py_maxkey (t : tree) (b : option Z) : option Z :=
  match lseq t with
  | [] => None
  | ls => match b with
          | None => let j := (length ls - 1)%nat in Some (key_at ls (j, (length (nth_leaf ls j) - 1)%nat))
          | Some x => py_maxkey_node t x
          end
  end.

End Range.

(* ================= wire ================= *)
Inductive wkv := KV (k v : Z).
Inductive wob := BNone | BSome (z : Z).
Inductive wtree := WLeafT (items : list wkv) | WNodeT (kids : list wkidt)
with wkidt := WKidT (sep : Z) (c : wtree).
Inductive wentry := ENone | ESome (k v : Z).     (* ENone = IndexError *)
Inductive wq :=
| QRange (which : Z) (lo hi : wob) (exlo exhi : bool) (r : list wkv)
| QMin (which : Z) (b : wob) (r : wob)            (* BNone = ValueError *)
| QMax (which : Z) (b : wob) (r : wob)
| QIndex (which : Z) (lo hi : wob) (exlo exhi : bool) (idx : list Z) (r : list wentry) (len : nat)
| QSlice (which : Z) (lo hi : wob) (exlo exhi : bool) (i j : Z) (r : list wkv).
Inductive wrcase := RC (t : wtree) (qs : list wq).

Fixpoint tree_of (w : wtree) : tree Z :=
  match w with
  | WLeafT items => Leaf 0%nat (map (fun x => match x with KV k v => (k, v) end) items)
  | WNodeT kids => Node 0%nat (map (fun x => match x with WKidT s c => (s, tree_of c) end) kids)
  end.
Definition ob (b : wob) : option Z := match b with BNone => None | BSome z => Some z end.
Fixpoint kvs_eqb (a : list (Z * Z)) (b : list wkv) : bool :=
  match a, b with
  | [], [] => true
  | (k, v) :: a', KV k' v' :: b' => Z.eqb k k' && Z.eqb v v' && kvs_eqb a' b'
  | _, _ => false
  end.
Definition oz_eqb (a : option Z) (b : wob) : bool :=
  match a, b with None, BNone => true | Some x, BSome y => Z.eqb x y | _, _ => false end.
Fixpoint entries_eqb (a : list (option (Z * Z))) (b : list wentry) : bool :=
  match a, b with
  | [], [] => true
  | None :: a', ENone :: b' => entries_eqb a' b'
  | Some (k, v) :: a', ESome k' v' :: b' => Z.eqb k k' && Z.eqb v v' && entries_eqb a' b'
  | _, _ => false
  end.
(* which = 0: both implementations returned r; 1: C only; 2: Python only.
   Every answer is also compared with the reference RSpec on the tree's contents. *)
Definition forC (w : Z) := negb (w =? 2).
Definition forPy (w : Z) := negb (w =? 1).
Definition q_ok (t : tree Z) (q : wq) : bool :=
  let m := contents Z t in
  match q with
  | QRange w lo hi el eh r =>
    (if forC w then kvs_eqb (c_range Z t (ob lo) (ob hi) el eh) r else true) &&
    (if forPy w then kvs_eqb (py_range Z t (ob lo) (ob hi) el eh) r else true) &&
    (if w =? 0 then kvs_eqb (RSpec.range m (ob lo) (ob hi) el eh) r else true)
  | QMin w b r =>
    (if forC w then oz_eqb (c_minkey Z t (ob b)) r else true) &&
    (if forPy w then oz_eqb (py_minkey Z t (ob b)) r else true) &&
    (if w =? 0 then oz_eqb (RSpec.min_key m (ob b)) r else true)
  | QMax w b r =>
    (if forC w then oz_eqb (c_maxkey Z t (ob b)) r else true) &&
    (if forPy w then oz_eqb (py_maxkey Z t (ob b)) r else true) &&
    (if w =? 0 then oz_eqb (RSpec.max_key m (ob b)) r else true)
  | QIndex w lo hi el eh idx r len =>
    let ls := lseq Z t in
    let its := c_items_of Z t (ob lo) (ob hi) el eh in
    let pl := py_range Z t (ob lo) (ob hi) el eh in
    (if forC w then entries_eqb (c_index_run Z ls its idx) r &&
                    Nat.eqb (match its with Some s => c_len Z ls s | None => O end) len else true) &&
    (if forPy w then entries_eqb (map (RSpec.index pl) idx) r && Nat.eqb (length pl) len else true) &&
    (if w =? 0 then entries_eqb (map (RSpec.index (RSpec.range m (ob lo) (ob hi) el eh)) idx) r else true)
  | QSlice w lo hi el eh i j r =>
    (if forC w then kvs_eqb (RSpec.slice (c_range Z t (ob lo) (ob hi) el eh) i j) r else true) &&
    (if forPy w then kvs_eqb (RSpec.slice (py_range Z t (ob lo) (ob hi) el eh) i j) r else true) &&
    (if w =? 0 then kvs_eqb (RSpec.slice (RSpec.range m (ob lo) (ob hi) el eh) i j) r else true)
  end.
Definition rcase_ok (c : wrcase) : bool :=
  match c with RC t qs => let t' := tree_of t in forallb (q_ok t') qs end.
