(* Model of sorters.c (radixsort_int, quicksort, uniq, sort_int_nodups) and of
   multiunion (SetOpTemplate.c: gather, sort, remove duplicates; _base.py:
   repeated insertion into a Set). Elements are mathematical integers inside
   the key type's range; bytes are taken from the two's-complement image. *)
From Coq Require Import ZArith List Bool Arith.
Import ListNotations.
Open Scope Z_scope.

(* ---------- radix sort ---------- *)
Definition urepr (nbytes : nat) (x : Z) : Z := x mod 2 ^ (8 * Z.of_nat nbytes).
Definition byte (nbytes i : nat) (x : Z) : Z := (urepr nbytes x / 2 ^ (8 * Z.of_nat i)) mod 256.

Fixpoint zrange (lo : Z) (n : nat) : list Z :=
  match n with O => [] | S m => lo :: zrange (lo + 1) m end.
Definition order_plain : list Z := zrange 0 256.
Definition order_signed_msb : list Z := zrange 128 128 ++ zrange 0 128.

(* one stable distribution pass on byte position i; skipped when every
   element has the same byte there ("icount == n") *)
(* elements tagged with their byte at position i (computed once per pass) *)
Definition tag (nbytes i : nat) (l : list Z) : list (Z * Z) :=
  map (fun x => (byte nbytes i x, x)) l.
Definition all_same_tag (t : list (Z * Z)) : bool :=
  match t with
  | [] => true
  | (b, _) :: r => forallb (fun p => fst p =? b) r
  end.
Definition distribute (order : list Z) (t : list (Z * Z)) : list Z :=
  flat_map (fun b => map snd (filter (fun p => fst p =? b) t)) order.
Definition pass (order : list Z) (nbytes i : nat) (l : list Z) : list Z :=
  let t := tag nbytes i l in
  if all_same_tag t then l else distribute order t.

Fixpoint low_passes (nbytes : nat) (i n : nat) (l : list Z) : list Z :=
  match n with
  | O => l
  | S m => low_passes nbytes (S i) m (pass order_plain nbytes i l)
  end.

(* signed: the most significant byte is distributed 0x80..0xff,0x00..0x7f *)
Definition radixsort (signed : bool) (nbytes : nat) (l : list Z) : list Z :=
  let l' := low_passes nbytes 0 (nbytes - 1) l in
  pass (if signed then order_signed_msb else order_plain) nbytes (nbytes - 1) l'.

(* ---------- uniq: drop adjacent repeats ---------- *)
Fixpoint uniq (l : list Z) : list Z :=
  match l with
  | [] => []
  | x :: r => match r with
              | [] => [x]
              | y :: _ => if x =? y then uniq r else x :: uniq r
              end
  end.

(* ---------- quicksort on an array (list with positional get/set) ---------- *)
Definition get (a : list Z) (i : nat) : Z := nth i a 0.
Fixpoint put (a : list Z) (i : nat) (x : Z) : list Z :=
  match a, i with
  | [], _ => []
  | _ :: r, O => x :: r
  | y :: r, S j => y :: put r j x
  end.
Definition swap (a : list Z) (i j : nat) : list Z :=
  let x := get a i in let y := get a j in put (put a i y) j x.

Fixpoint ins (x : Z) (l : list Z) : list Z :=
  match l with
  | [] => [x]
  | y :: r => if x <? y then x :: l else y :: ins x r
  end.
Definition insertion (l : list Z) : list Z := fold_left (fun acc x => ins x acc) l [].
(* insertion sort of the slice lo..hi (inclusive) in place *)
Definition sort_slice (a : list Z) (lo hi : nat) : list Z :=
  firstn lo a ++ insertion (firstn (S hi - lo) (skipn lo a)) ++ skipn (S hi) a.

(* do ++pi while a[pi] < pivot  /  do --pj while a[pj] > pivot *)
Fixpoint scan_up (fuel : nat) (a : list Z) (pivot : Z) (i : nat) : nat :=
  match fuel with
  | O => i
  | S f => let i' := S i in if get a i' <? pivot then scan_up f a pivot i' else i'
  end.
Fixpoint scan_down (fuel : nat) (a : list Z) (pivot : Z) (j : nat) : nat :=
  match fuel with
  | O => j
  | S f => let j' := pred j in if get a j' >? pivot then scan_down f a pivot j' else j'
  end.
Fixpoint partition (fuel : nat) (a : list Z) (pivot : Z) (pi pj : nat) : list Z * nat :=
  match fuel with
  | O => (a, pj)
  | S f =>
    let pi' := scan_up (length a) a pivot pi in
    let pj' := scan_down (length a) a pivot pj in
    if (pi' <? pj')%nat then partition f (swap a pi' pj') pivot pi' pj' else (a, pj')
  end.

Definition MAX_INSERTION : nat := 25.

(* one iteration of the outer for(;;): returns the new array, the slice to
   continue with and the (possibly) pushed slice *)
Fixpoint qloop (fuel : nat) (a : list Z) (plo phi : nat) (stack : list (nat * nat))
  : list Z * nat (* max stack depth seen *) :=
  match fuel with
  | O => (a, O)
  | S f =>
    let n := (S phi - plo)%nat in
    if (n <=? MAX_INSERTION)%nat then
      let a1 := sort_slice a plo phi in
      match stack with
      | [] => (a1, O)
      | (lo, hi) :: st => let '(r, d) := qloop f a1 lo hi st in (r, Nat.max d (length stack))
      end
    else
      let plop1 := S plo in
      let pmid := (plo + Nat.div2 n)%nat in
      let a1 := swap a plop1 pmid in
      let a2 := if get a1 plop1 >? get a1 phi then swap a1 plop1 phi else a1 in
      let a3 := if get a2 plo >? get a2 plop1 then
                  let b := swap a2 plo plop1 in
                  if get b plop1 >? get b phi then swap b plop1 phi else b
                else a2 in
      let pivot := get a3 plop1 in
      let '(a4, pj) := partition (length a) a3 pivot plop1 phi in
      let a5 := put (put a4 plop1 (get a4 pj)) pj pivot in
      if (phi - pj <=? pj - plo)%nat then
        let '(r, d) := qloop f a5 (S pj) phi ((plo, pred pj) :: stack) in (r, Nat.max d (S (length stack)))
      else
        let '(r, d) := qloop f a5 plo (pred pj) ((S pj, phi) :: stack) in (r, Nat.max d (S (length stack)))
  end.

Definition quicksort (a : list Z) : list Z :=
  match a with
  | [] => []
  | _ => fst (qloop (S (length a)) a 0 (length a - 1) [])
  end.
Definition quicksort_depth (a : list Z) : nat :=
  match a with [] => O | _ => snd (qloop (S (length a)) a 0 (length a - 1) []) end.

(* ---------- sort_int_nodups ---------- *)
Definition QUICKSORT_BEATS_RADIXSORT : nat := 800.
Definition sort_nodups (signed : bool) (nbytes : nat) (l : list Z) : list Z :=
  if (QUICKSORT_BEATS_RADIXSORT <? length l)%nat then uniq (radixsort signed nbytes l)
  else uniq (quicksort l).

(* ---------- multiunion ---------- *)
(* C: concatenate every operand's keys, then sort_int_nodups *)
Definition multiunion_c (signed : bool) (nbytes : nat) (operands : list (list Z)) : list Z :=
  match concat operands with
  | [] => []
  | l => sort_nodups signed nbytes l
  end.

(* Python: insert every key into a Set *)
Fixpoint set_insert (x : Z) (l : list Z) : list Z :=
  match l with
  | [] => [x]
  | y :: r => match x ?= y with Lt => x :: l | Eq => l | Gt => y :: set_insert x r end
  end.
Definition multiunion_py (operands : list (list Z)) : list Z :=
  fold_left (fun acc x => set_insert x acc) (concat operands) [].

(* ---------- wire ---------- *)
Fixpoint zl_eqb (a b : list Z) : bool :=
  match a, b with
  | [], [] => true
  | x :: a', y :: b' => Z.eqb x y && zl_eqb a' b'
  | _, _ => false
  end.
(* which = 0: the result both implementations returned; 1: C only; 2: Python only *)
Inductive wmu := MU (which : Z) (signed : bool) (nbytes : nat) (operands : list (list Z)) (r : list Z).
Definition mucase_ok (c : wmu) : bool :=
  match c with MU w s nb ops r =>
    (if w =? 2 then true else zl_eqb (multiunion_c s nb ops) r) &&
    (if w =? 1 then true else zl_eqb (multiunion_py ops) r) end.
