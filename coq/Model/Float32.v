(* The conversion of a Python float / int to the value type of the float-valued
   families (floatvaluemacros.h, COPY_VALUE_FROM_ARG):
       float x : TARGET = (float) PyFloat_AsDouble(x)
       int n   : dcopy = PyLong_AsDouble(n)   (OverflowError -> TypeError, rejected)
                 TARGET = (float) dcopy
   with the two C casts / conversions modelled by Flocq's IEEE 754 operations:
   round-to-nearest-even into binary64 (PyLong_AsDouble) and into binary32
   (the cast), overflow to infinity for the cast, rejection for the int that
   does not fit a double.  A double is given exactly as m * 2^e (what
   float.as_integer_ratio / math.frexp report). *)
From Coq Require Import ZArith Bool List.
From Flocq Require Import Core.Core IEEE754.BinarySingleNaN.
Import ListNotations.
Open Scope Z_scope.

Definition single := binary_float 24 128.
Definition double := binary_float 53 1024.

(* (float) d  for the finite double m * 2^e *)
Definition round32 (m e : Z) : single := binary_normalize 24 128 eq_refl eq_refl mode_NE m e false.
(* PyLong_AsDouble(n), before its overflow test *)
Definition round64 (n : Z) : double := binary_normalize 53 1024 eq_refl eq_refl mode_NE n 0 false.

Definition cast_single (d : double) : single :=
  match d with
  | B754_zero s => B754_zero s
  | B754_infinity s => B754_infinity s
  | B754_nan => B754_nan
  | B754_finite s m e _ => binary_normalize 24 128 eq_refl eq_refl mode_NE (cond_Zopp s (Zpos m)) e s
  end.

(* what is offered *)
Inductive farg :=
| FDouble (m e : Z)          (* a finite float, exactly m * 2^e *)
| FZero (neg : bool)
| FInf (neg : bool)
| FNan
| FInt (n : Z).

(* what is stored: None = rejected with TypeError *)
Definition conv_float (a : farg) : option single :=
  match a with
  | FDouble m e => Some (round32 m e)
  | FZero s => Some (B754_zero s)
  | FInf s => Some (B754_infinity s)
  | FNan => Some B754_nan
  | FInt n =>
    let d := round64 n in
    if is_finite d then Some (cast_single d) else None      (* OverflowError: int too large to convert to float *)
  end.

(* ---------- wire ---------- *)
(* the stored value as the harness reads it back: a double that must be a float32 *)
Inductive fobs :=
| OFinite (neg : bool) (m : positive) (e : Z)    (* exactly (-1)^neg * m * 2^e, m odd *)
| OZero (neg : bool)
| OInf (neg : bool)
| ONan
| ORejected.

(* m * 2^e with m odd *)
Fixpoint strip (m : positive) (e : Z) : positive * Z :=
  match m with xO m' => strip m' (e + 1) | _ => (m, e) end.

Definition obs_of (r : option single) : fobs :=
  match r with
  | None => ORejected
  | Some (B754_zero s) => OZero s
  | Some (B754_infinity s) => OInf s
  | Some B754_nan => ONan
  | Some (B754_finite s m e _) => let '(m', e') := strip m e in OFinite s m' e'
  end.

Definition fobs_eqb (a b : fobs) : bool :=
  match a, b with
  | OFinite s m e, OFinite s' m' e' => Bool.eqb s s' && Pos.eqb m m' && Z.eqb e e'
  | OZero s, OZero s' => Bool.eqb s s'
  | OInf s, OInf s' => Bool.eqb s s'
  | ONan, ONan => true
  | ORejected, ORejected => true
  | _, _ => false
  end.

Inductive wfcase := FC (a : farg) (stored : fobs).
Definition fcase_ok (c : wfcase) : bool :=
  match c with FC a o => fobs_eqb (obs_of (conv_float a)) o end.
