(* Running histories cut into transactions on the Persist model, and the wire
   format of the C04 / C05 / C08 correspondence cases.  Objects are addressed
   by their path from the root (list of child indices) in the current tree. *)
From Coq Require Import ZArith List Bool Arith.
From BT Require Import Model.RTree Model.TreeSpec Model.TreeRun Model.Persist Model.PersistSpec.
Import ListNotations.
Open Scope Z_scope.

Notation tree := (RTree.tree Z).

Fixpoint node_at (t : tree) (path : list nat) : option tree :=
  match path with
  | [] => Some t
  | j :: rest => match t with
                 | Leaf _ _ => None
                 | Node _ kids => match nth_error kids j with
                                  | Some (_, c) => node_at c rest
                                  | None => None
                                  end
                 end
  end.
Definition id_at (t : tree) (path : list nat) : option nat :=
  match node_at t path with Some n => Some (tid Z n) | None => None end.
Fixpoint ids_at (t : tree) (paths : list (list nat)) : option (list nat) :=
  match paths with
  | [] => Some []
  | p :: r => match id_at t p, ids_at t r with Some i, Some l => Some (i :: l) | _, _ => None end
  end.
Definition subset (a b : list nat) : bool := forallb (fun i => mem i b) a.
Definition in_tree (t : tree) (l : list nat) : list nat := filter (fun i => mem i (ids Z t)) l.
Definition set_eqb (a b : list nat) : bool := subset a b && subset b a.

(* an object dumped by a commit: a node of the current tree, or an object that is
   no longer part of it (its record is garbage, but pickling it still assigns
   oids to the live objects it references) *)
Inductive wseq := QLive (p : list nat) | QDet (refs : list (list nat)).
(* commit with detached objects interleaved: (true, [i]) dumps live object i,
   (false, refs) only assigns oids to refs *)
Fixpoint seq_ids (t : tree) (q : list wseq) : option (list (bool * list nat)) :=
  match q with
  | [] => Some []
  | QLive p :: r => match id_at t p, seq_ids t r with Some i, Some l => Some ((true, [i]) :: l) | _, _ => None end
  | QDet ps :: r => match ids_at t ps, seq_ids t r with Some is_, Some l => Some ((false, is_) :: l) | _, _ => None end
  end.
Fixpoint commit_q_seq (root : tree) (q : list (bool * list nat)) (stored : list nat) (s : store Z) : list nat * store Z :=
  match q with
  | [] => (stored, s)
  | (true, is_) :: rest =>
    let '(st', s') := commit_seq Z root is_ stored s in commit_q_seq root rest st' s'
  | (false, rs) :: rest => commit_q_seq root rest (fold_left (fun acc x => add x acc) rs stored) s
  end.
Definition commit_q (root : tree) (p : pstate) (q : list (bool * list nat)) (s : store Z) : pstate * store Z :=
  let '(stored', s') := commit_q_seq root q (p_stored p) s in (mkP stored' [] [], s').

(* the hypothesis `synced` of C04_commit_partial, as a boolean *)
Definition synced_b (t : tree) (p : pstate) (s : store Z) : bool :=
  forallb (fun i => match find_node Z t i with
                    | Some n => negb (mem i (p_stored p)) || mem i (p_changed p) ||
                                match sget Z s i with
                                | Some r => record_eqb r (getstate Z (p_stored p) t n)
                                | None => false
                                end
                    | None => true
                    end) (ids Z t).

Record world := mkW { w_st : st; w_p : pstate; w_store : store Z; w_saved : tree; w_saved_stored : list nat }.

Inductive pstep :=
| SCall (c : call) (o : out) (reg : list (list nat)) (ndetached : nat) (reads : list (list nat))
| SCommit (seq : list wseq) (descent chain : list wkv) (stored_paths : list (list nat))
| SAbort (items : list wkv).
Inductive wpcase := PC (ml mi : nat) (vsame isC : bool) (steps : list pstep).

Definition root_id : nat := 0%nat.

(* the root object is added to the connection before the first call: it has an
   oid and is registered *)
Definition init_world : world :=
  mkW init (mkP [root_id] [root_id] []) [] (t_tree init) [].

Definition step_ok (vs isC : bool) (ml mi : nat) (w : world) (s : pstep) : world * bool :=
  match s with
  | SCall c o reg ndet reads =>
    let st0 := w_st w in
    let st0' := mkSt (t_tree st0) (t_fresh st0) [] in
    let '(st1, o1) := step vs isC ml mi st0' c in
    let p1 := apply_events isC (w_p w) (t_events st1) in
    let t1 := t_tree st1 in
    let ok :=
        out_eqb o1 o &&
        (* sanity of the footprint statement (C04/C08) on this very step *)
        footprint_ok (p_stored (w_p w)) (t_tree st0) t1 (t_events st1) &&
        match ids_at t1 reg, ids_at t1 reads with
        | Some r, Some rd =>
          set_eqb r (in_tree t1 (p_changed p1)) &&
          Nat.eqb (length (p_changed p1)) (length reg + ndet) &&
          set_eqb rd (in_tree t1 (p_read p1))
        | _, _ => false
        end in
    (mkW st1 p1 (w_store w) (w_saved w) (w_saved_stored w), ok)
  | SCommit seq descent chain stored_paths =>
    let t := t_tree (w_st w) in
    match seq_ids t seq, ids_at t stored_paths with
    | Some seqids, Some sp =>
      let '(p1, s1) := commit_q t (w_p w) seqids (w_store w) in
      let fuel := S (length (ids Z t)) in
      let ok :=
          kvl_eqb (map kv_of (load_items Z fuel s1 root_id)) descent &&
          kvl_eqb (map kv_of (reader_iter Z (S (length s1)) s1 root_id)) chain &&
          set_eqb sp (in_tree t (p_stored p1)) &&
          (* sanity of the commit / reader statements (C04) on this very commit *)
          (* (the store facts are asserted: they hold at every real commit; dumps_ok is a
              hypothesis: a real commit violates it when a registered object that is no
              longer part of the tree still references the leaf embedded in the root --
              finding F33 -- and then the theorem does not apply) *)
          (negb (no_embed_below_b true (p_stored (w_p w)) t) ||
           (no_stray_b t (p_stored (w_p w)) (w_store w) && refs_closed_b t (w_p w) &&
            (negb (dumps_ok_b t (p_stored (w_p w)) (flat_map (fun q : bool * list nat => if fst q then snd q else []) seqids)) ||
             negb (synced_b t (w_p w) (w_store w)) ||   (* broken only by an earlier commit of the F33 kind *)
             (current_b t (p_stored p1) s1 && all_stored_b t (p_stored p1) &&
              kvl_eqb (map kv_of (load_items Z fuel s1 root_id)) (map kv_of (contents Z t)) &&
              kvl_eqb (map kv_of (reader_iter Z (S (length s1)) s1 root_id)) (map kv_of (contents Z t)))))) in
      (mkW (w_st w) p1 s1 t (p_stored p1), ok)
    | _, _ => (w, false)
    end
  | SAbort items =>
    let st0 := w_st w in
    let st1 := mkSt (w_saved w) (t_fresh st0) [] in
    let ok := kvl_eqb (map kv_of (contents Z (w_saved w))) items in
    (mkW st1 (mkP (w_saved_stored w) [] []) (w_store w) (w_saved w) (w_saved_stored w), ok)
  end.

Fixpoint steps_ok (vs isC : bool) (ml mi : nat) (w : world) (l : list pstep) (n : nat) : option nat :=
  match l with
  | [] => None
  | s :: r => let '(w', ok) := step_ok vs isC ml mi w s in
              if ok then steps_ok vs isC ml mi w' r (S n) else Some n
  end.
(* None = every step agreed; Some n = first disagreeing step *)
Definition pcase_ok (c : wpcase) : bool :=
  match c with PC ml mi vs isC steps =>
    match steps_ok vs isC ml mi init_world steps 0 with None => true | Some _ => false end end.
Definition pcase_where (c : wpcase) : option nat :=
  match c with PC ml mi vs isC steps => steps_ok vs isC ml mi init_world steps 0 end.
