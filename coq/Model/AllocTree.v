(* C17, interior nodes: the allocation discipline of BTree_grow and
   BTree_split_root over the block heap of Model/Alloc.v.  A node owns its
   data vector; growing it creates a sibling for the child that is split: an
   object block plus the vectors child._split allocates (bucket_split: keys
   [, values]; BTree_split: data).  Every request -- the object creations
   included -- can be the one that fails.  Definitions only. *)
From Coq Require Import List Bool Arith.
From BT Require Import Model.Alloc.
Import ListNotations.

Record node := mkN { n_data : option nat; n_size : nat; n_len : nat }.
Inductive ckind := KBucket (noval : bool) | KTree.
Definition dblocks (n : node) : list nat := match n_data n with Some d => [d] | None => [] end.

(* the "grow the vector if it is full" preamble of BTree_grow *)
Definition grow_vec (n : node) (h : heap) : option node * heap :=
  if Nat.eqb (n_len n) (n_size n) then
    match n_size n with
    | O => match malloc h with
           | (None, h1) => (None, h1)
           | (Some d, h1) => (Some (mkN (Some d) 2 (n_len n)), h1)
           end
    | S _ => match realloc (n_data n) h with
             | (None, h1) => (None, h1)
             | (Some d, h1) => (Some (mkN (Some d) (2 * n_size n) (n_len n)), h1)
             end
    end
  else (Some n, h).

(* child._split(e): the vectors of the new sibling e *)
Definition split_vecs (k : ckind) (h : heap) : option (list nat) * heap :=
  match k with
  | KTree => match malloc h with
             | (None, h1) => (None, h1)
             | (Some d, h1) => (Some [d], h1)
             end
  | KBucket noval =>
    match malloc h with
    | (None, h1) => (None, h1)
    | (Some ks, h1) =>
      if noval then (Some [ks], h1)
      else match malloc h1 with
           | (None, h2) => (None, release ks h2)          (* free(next->keys); next->keys = NULL *)
           | (Some vs, h2) => (Some [ks; vs], h2)
           end
    end
  end.

Inductive gres :=
| GOk (n : node) (e : list nat) (h : heap)     (* e: blocks of the new sibling, its object first *)
| GMem (n : node) (h : heap).                  (* MemoryError *)

(* BTree_grow(self, index) on a non-empty node whose child at index is of kind k *)
Definition tree_grow (k : ckind) (n : node) (h : heap) : gres :=
  match grow_vec n h with
  | (None, h1) => GMem n h1
  | (Some n1, h1) =>
    match malloc h1 with                         (* e = PyObject_CallObject(Py_TYPE(v), NULL) *)
    | (None, h2) => GMem n1 h2
    | (Some e, h2) =>
      match split_vecs k h2 with
      | (None, h3) => GMem n1 (release e h3)       (* Py_DECREF(e) *)
      | (Some vs, h3) => GOk (mkN (n_data n1) (n_size n1) (S (n_len n1))) (e :: vs) h3
      end
    end
  end.

(* BTree_grow on an empty tree: the vector, then the first bucket object *)
Definition tree_first (n : node) (h : heap) : gres :=
  match grow_vec n h with
  | (None, h1) => GMem n h1
  | (Some n1, h1) =>
    match malloc h1 with                         (* BTree_newBucket(self) *)
    | (None, h2) => GMem n1 h2
    | (Some b, h2) => GOk (mkN (n_data n1) (n_size n1) 1) [b] h2
    end
  end.

(* BTree_split_root: a new child object takes the root's vector, the root
   gets a vector of two slots, then BTree_grow(self, 0) splits the child *)
Inductive rres :=
| SOk (root : node) (child : list nat) (e : list nat) (h : heap)
| SMem (root : node) (child : list nat) (h : heap).
Definition split_root (n : node) (h : heap) : rres :=
  match malloc h with                            (* child = PyObject_CallObject(Py_TYPE(self)) *)
  | (None, h1) => SMem n [] h1
  | (Some c, h1) =>
    match malloc h1 with                         (* d = BTree_Malloc(sizeof(BTreeItem) * 2) *)
    | (None, h2) => SMem n [] (release c h2)       (* Py_DECREF(child) *)
    | (Some d, h2) =>
      let child := c :: dblocks n in             (* child->data = self->data *)
      match tree_grow KTree (mkN (Some d) 2 1) h2 with
      | GOk r e h3 => SOk r child e h3
      | GMem r h3 => SMem r child h3
      end
    end
  end.

(* accounting: besides a frame [fr] of blocks owned by the rest of the tree,
   exactly the blocks in [own] are live, each once, all below the allocator's
   counter *)
Definition acct (h : heap) (fr own : list nat) : Prop :=
  NoDup (fr ++ own) /\ (forall x, In x (live h) <-> In x (fr ++ own)) /\
  (forall x, In x (live h) -> x < nextid h).
Definition node_ok (n : node) : Prop :=
  n_len n <= n_size n /\ (n_size n = 0 <-> n_data n = None).

(* ---------- ascending inserts into a two-level tree: how many vector requests ---------- *)
(* Ascending keys always go to the last leaf; with max_internal_size large the
   root never splits.  State: the root's vector, the last leaf's vectors, the
   heap, and the number of OBJECT creations so far (the guarded hook of the
   implementation counts BTree_Malloc / BTree_Realloc only). *)
Record astate := mkA { a_root : node; a_leaf : bucket; a_h : heap; a_objs : nat }.
Definition asc_insert (ml : nat) (noval : bool) (s : astate) : option astate :=
  if Nat.eqb (n_len (a_root s)) 0 then
    match tree_first (a_root s) (a_h s) with
    | GOk r _ h1 =>
      match bucket_insert noval empty_bucket h1 with
      | ROk b h2 => Some (mkA r b h2 (S (a_objs s)))
      | RMem _ _ => None
      end
    | GMem _ _ => None
    end
  else
    match bucket_insert noval (a_leaf s) (a_h s) with
    | ROk b h1 =>
      if (ml <? b_len b)%nat then
        match tree_grow (KBucket noval) (a_root s) h1 with
        | GOk r e h2 =>
          let nsz := b_len b - Nat.div2 (b_len b) in       (* next_size = len - len/2 *)
          let sib := match e with
                     | [_; ks; vs] => mkB (Some ks) (Some vs) nsz nsz
                     | [_; ks] => mkB (Some ks) None nsz nsz
                     | _ => empty_bucket
                     end in
          Some (mkA r sib h2 (S (a_objs s)))
        | GMem _ _ => None
        end
      else Some (mkA (a_root s) b h1 (a_objs s))
    | RMem _ _ => None
    end.
Fixpoint asc_inserts (ml : nat) (noval : bool) (n : nat) (s : astate) : option astate :=
  match n with
  | O => Some s
  | S m => match asc_inserts ml noval m s with Some s' => asc_insert ml noval s' | None => None end
  end.
Definition asc_requests (ml : nat) (noval : bool) (n : nat) : option nat :=
  match asc_inserts ml noval n (mkA (mkN None 0 0) empty_bucket (heap0 0) 0) with
  | Some s => Some (nextid (a_h s) - a_objs s)
  | None => None
  end.

(* wire: observed number of BTree_Malloc / BTree_Realloc calls while inserting
   n ascending keys into an empty BTree / TreeSet with max_leaf_size ml *)
Inductive watcase := ATC (noval : bool) (ml n allocs : nat).
Definition atcase_ok (c : watcase) : bool :=
  match c with
  | ATC nv ml n a => match asc_requests ml nv n with Some r => Nat.eqb r a | None => false end
  end.
