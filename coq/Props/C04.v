(* C04 -- every change reaches the database: commit + reload reproduces the contents.
   Model/Persist.v: events of an operation -> registration (as `persistent`
   does it), __getstate__ with the embedding rule, a commit that dumps objects
   in ANY order (oids are assigned while pickling), a fresh reader.
   All theorems are under the guard no_embed_below: only the ROOT may hold a
   single leaf that has no oid.  Without the guard the statement is false for
   the faithful model and for both implementations (finding F16, see
   C04_refuted): the theorems are therefore the _partial form. *)
From Coq Require Import ZArith List Bool.
From BT Require Import Model.RTree Model.TreeSpec Model.Check Model.CheckTree
                       Model.Persist Model.PersistSpec Proofs.StoreProofs Proofs.PersistProofs.
From BT Require Import Model.TreeRun Model.PersistWorld Proofs.RunSyncProofs.
From BT Require Import Model.Chain Model.ChainRun Proofs.ChainProofs Proofs.ChainRunProofs Proofs.ChainStateProofs Proofs.AbortProofs.
Import ListNotations.
Open Scope Z_scope.

Section C04.
Variable V : Type.

(* each modification is announced: a stored object whose record would differ
   after an insert / delete was marked changed by that operation *)
Theorem C04_footprint_set_partial :
  forall (veq : V -> V -> bool) (vs : bool) (ml mi fresh : nat) (t : tree V) (k : Z) (v : V)
         (ifunset : bool) (stored : list nat),
  (1 <= ml)%nat -> (2 <= mi)%nat -> Inv V ml mi t -> ids_ok V fresh t ->
  no_embed_below V true stored t ->
  (forall x, mem x stored = true -> (x < fresh)%nat) ->      (* only existing objects have oids *)
  let r := tset V veq vs ml mi fresh t k v ifunset in
  forall i n n', mem i stored = true ->
    find_node V t i = Some n -> find_node V (s_tree r) i = Some n' ->
    getstate V stored t n <> getstate V stored (s_tree r) n' -> marked stored (s_ev r) i.
Proof. exact (PersistProofs.footprint_set V). Qed.

Theorem C04_footprint_del_partial :
  forall (ml mi fresh : nat) (t : tree V) (k : Z) (r : dres V) (stored : list nat),
  (1 <= ml)%nat -> (2 <= mi)%nat -> Inv V ml mi t -> ids_ok V fresh t ->
  no_embed_below V true stored t ->
  tdel V t k = Some r ->
  forall i n n', mem i stored = true ->
    find_node V t i = Some n -> find_node V (d_tree r) i = Some n' ->
    getstate V stored t n <> getstate V stored (d_tree r) n' -> marked stored (d_ev r) i.
Proof. exact (PersistProofs.footprint_del V). Qed.

(* a commit that dumps (in any order) every registered object and every object
   that received an oid brings every record up to date *)
Theorem C04_commit_partial :
  forall (ml mi : nat) (t : tree V) (p : pstate) (seq : list nat) (s : store V),
  Inv V ml mi t -> NoDup (ids V t) ->
  no_embed_below V true (p_stored p) t ->
  synced V t p s -> mem (tid V t) (p_stored p) = true ->
  complete V t p seq s = true ->
  (* three facts about a store kept by a data manager (each is necessary: see
     StoreProofs.commit_needs_*; all three are re-established by every commit:
     StoreProofs.commit_keeps): only objects with an oid have a record; an
     unchanged record refers only to objects with an oid; the leaf embedded in
     the root is not dumped on its own *)
  no_stray V t (p_stored p) s -> refs_closed V t p -> dumps_ok V t (p_stored p) seq ->
  let '(p', s') := commit V t p seq s in
  current V t (p_stored p') s' /\ no_embed_below V true (p_stored p') t /\
  (forall i, In i (ids V t) -> mem i (p_stored p') = true \/
             (exists r x items, t = Node r [(x, Leaf i items)])).
Proof. exact (PersistProofs.commit_current V). Qed.

(* a fresh reader of up-to-date records sees precisely the writer's contents,
   by descent and along the leaf chain, in a sound tree *)
Theorem C04_reader_partial :
  forall (ml mi : nat) (t : tree V) (stored : list nat) (s : store V),
  Inv V ml mi t -> NoDup (ids V t) ->
  no_embed_below V true stored t -> current V t stored s ->
  (forall i, In i (ids V t) -> mem i stored = true \/
             (exists r x items, t = Node r [(x, Leaf i items)])) ->
  let fuel := S (length (ids V t)) in
  load_items V fuel s (tid V t) = contents V t /\
  reader_iter V fuel s (tid V t) = contents V t /\
  exists p, load V fuel s (tid V t) = Some p /\ inv_stored p.
Proof. exact (PersistProofs.reader_sees V). Qed.

End C04.

Print Assumptions C04_footprint_set_partial.
Print Assumptions C04_footprint_del_partial.
Print Assumptions C04_commit_partial.
Print Assumptions C04_reader_partial.

(* Run level (Model/PersistWorld.v): for EVERY history of public calls and
   commits -- commits anywhere, each dumping a complete sequence in any order --
   during which the guard holds whenever an action starts, a fresh reader after
   a final commit sees exactly the writer's contents, by descent and along the
   leaf chain, in a state satisfying the stored invariant.  Both flavours (isC)
   and both value-same settings; every node size.  Calls: all but the bulk
   forms update / |= / &= / -= / ^=, which are folds of these in the model. *)
Theorem C04_run_partial :
  forall (vs isC : bool) (ml mi : nat) (acts : list action) (seq : list nat),
  (1 <= ml)%nat -> (2 <= mi)%nat ->
  (forall c, In (ACall c) acts -> simple_call c = true) ->
  run_ok vs isC ml mi pw_init (acts ++ [ACommit seq]) ->
  let w := pw_run vs isC ml mi pw_init (acts ++ [ACommit seq]) in
  let t := t_tree (pw_st w) in
  let fuel := S (length (ids Z t)) in
  load_items Z fuel (pw_s w) (tid Z t) = contents Z t /\
  reader_iter Z fuel (pw_s w) (tid Z t) = contents Z t /\
  exists p, load Z fuel (pw_s w) (tid Z t) = Some p /\ inv_stored p.
Proof. exact RunSyncProofs.run_commit_reader. Qed.

(* non-vacuity: a run with a split, two commits in different dump orders, a
   delete -- the hypotheses hold and the conclusion is computed *)
Example C04_run_example :
  let acts := [ACall (CSet 5 50); ACall (CSet 1 10); ACommit [0%nat]; ACall (CSet 9 90);
               ACall (CSet 3 30); ACall (CSet 7 70)] in
  let w := pw_run false true 2 2 pw_init acts in
  let seq := rev (ids Z (t_tree (pw_st w))) in
  let w' := pw_run false true 2 2 pw_init (acts ++ [ACommit seq]) in
  no_embed_below_b true (p_stored (pw_p w)) (t_tree (pw_st w)) = true /\
  complete Z (t_tree (pw_st w)) (pw_p w) seq (pw_s w) = true /\
  reader_iter Z 20 (pw_s w') 0%nat = [(1, 10); (3, 30); (5, 50); (7, 70); (9, 90)].
Proof. vm_compute. repeat split. Qed.

(* The unguarded statement is false (F16): a non-root node holding one leaf
   without oid is dumped before the object that references that leaf; the
   reader then has two copies of the leaf.  Witness: the committed store of
   this tree, in the order [root; node 1; node 4], read back. *)
Theorem C04_refuted :
  exists (t : tree Z) (p : pstate) (seq : list nat),
    Inv Z 1 2 t /\ complete Z t p seq [] = true /\
    let '(_, s') := commit Z t p seq [] in
    reader_iter Z 20 s' (tid Z t) <> load_items Z 20 s' (tid Z t) \/
    (forall q, load Z 20 s' (tid Z t) = Some q -> pcheck_fn q = false).
Proof. exact PersistProofs.commit_reload_refuted. Qed.
Print Assumptions C04_refuted.
Print Assumptions C04_run_partial.

(* The state an object pickles contains its `next` / `firstbucket` FIELDS;
   Persist.getstate above computes them from the tree (successor in the
   in-order leaf sequence, first leaf below the node).  Model/Chain.v holds the
   fields in a heap written by the code's own pointer assignments, and
   Chain.pgetstate reads them.  On every heap that realises the tree the two
   agree for every object ... *)
Theorem C04_getstate_reads_pointers : forall (V : Type) (ml mi : nat),
  (1 <= ml)%nat -> (2 <= mi)%nat ->
  forall (t : tree V) (h : heap) (stored : list nat),
  Inv V ml mi t -> NoDup (ids V t) -> chain_ok V h t ->
  forall i n, find_node V t i = Some n -> pgetstate V h stored n = getstate V stored t n.
Proof. exact ChainStateProofs.getstate_reads_pointers. Qed.
Print Assumptions C04_getstate_reads_pointers.

(* ... and after EVERY history of public calls the heap does realise the tree
   (C03_chain_calls), so the footprint / commit / reader theorems above are
   about the states the code actually writes *)
Theorem C04_getstate_after_any_history : forall (vs ir : bool) (ml mi : nat),
  (1 <= ml)%nat -> (2 <= mi)%nat ->
  forall (calls : list call) (stored : list nat),
  let sp := api_run vs ir ml mi calls in
  let t := t_tree (fst (run vs ir ml mi init calls)) in
  forall i n, find_node Z t i = Some n ->
    pgetstate Z (p_heap (snd sp)) stored n = getstate Z stored t n.
Proof. exact ChainStateProofs.getstate_after_history. Qed.
Print Assumptions C04_getstate_after_any_history.

(* The abort clause: "after an abort the writer's own in-memory container shows
   the last committed contents again".  Model/PersistWorld.v, abort_items: an
   abort invalidates every REGISTERED object (it reloads its record when next
   used), unregistered objects keep their in-memory state, children are
   resolved the same way.  For every history that ends in a commit followed by
   any number of public calls (the guard holding whenever an action starts),
   the writer's view after an abort is the contents at that commit.  The
   substance is the invariant `synced` -- every stored node that did not
   register still equals its record -- maintained by every call and commit.
   Assumed by the model: an object that has left the writer's tree during the
   transaction is re-read from its record (see F33 for what such objects can do
   to a COMMIT; an abort writes nothing). *)
Theorem C04_abort_partial :
  forall (vs isC : bool) (ml mi : nat), (1 <= ml)%nat -> (2 <= mi)%nat ->
  forall (acts : list action) (seq : list nat) (calls : list call),
  (forall c, In (ACall c) acts -> simple_call c = true) ->
  (forall c, In c calls -> simple_call c = true) ->
  run_ok vs isC ml mi pw_init (acts ++ [ACommit seq] ++ map ACall calls) ->
  let w1 := pw_run vs isC ml mi pw_init (acts ++ [ACommit seq]) in
  let w2 := pw_run vs isC ml mi w1 (map ACall calls) in
  abort_view (S (length (ids Z (t_tree (pw_st w1))))) w2 = contents Z (t_tree (pw_st w1)).
Proof. exact AbortProofs.abort_restores. Qed.
Print Assumptions C04_abort_partial.

(* non-vacuity: commit, then a transaction that splits a leaf, deletes and
   overwrites; the abort view is the committed contents, the uncommitted tree is not *)
Example C04_abort_example :
  let acts := [ACall (CSet 5 50); ACall (CSet 1 10); ACall (CSet 9 90)] in
  let w0 := pw_run false true 2 2 pw_init acts in
  let seq := rev (ids Z (t_tree (pw_st w0))) in
  let w1 := pw_run false true 2 2 pw_init (acts ++ [ACommit seq]) in
  let calls := [CSet 3 30; CSet 7 70; CDel 1; CSet 9 91] in
  let w2 := pw_run false true 2 2 w1 (map ACall calls) in
  abort_view 20 w2 = [(1, 10); (5, 50); (9, 90)] /\
  contents Z (t_tree (pw_st w2)) = [(3, 30); (5, 50); (7, 70); (9, 91)] /\
  no_embed_below_b true (p_stored (pw_p w2)) (t_tree (pw_st w2)) = true.
Proof. vm_compute. repeat split. Qed.
