From Coq Require Import ZArith List.
From BT Require Import Model.RTree Model.TreeRun Model.Persist Model.PersistRun.
