(* C14 -- an exception raised by a key comparison leaves the container intact.
   Model/Search.v: the two binary searches, literally, with the sequence of
   stored keys they compare the argument with; cmp_trace: all comparisons a
   lookup / insert / delete performs -- every one of them happens on the way
   down, before anything is modified (for delete this is the repair of finding
   F13).  The harness checks that sequence against both implementations and
   fails every single comparison of every operation in turn. *)
From Coq Require Import ZArith List Bool Sorted.
From BT Require Import Model.RTree Model.TreeSpec Model.Search Proofs.SearchProofs.
Import ListNotations.
Open Scope Z_scope.

(* the interior-node search returns the child the descent must take: the last
   child whose node key is <= k (child 0 if there is none) *)
Theorem C14_btree_search : forall (seps : list Z) (k : Z),
  seps <> [] -> StronglySorted Z.lt (tl seps) ->
  let i := fst (btree_search seps k) in
  (i < length seps)%nat /\
  (forall j, (0 < j <= i)%nat -> zget seps j <= k) /\
  (forall j, (i < j < length seps)%nat -> k < zget seps j) /\
  incl (snd (btree_search seps k)) (tl seps).
Proof. exact SearchProofs.btree_search_correct. Qed.
Print Assumptions C14_btree_search.

(* the leaf search finds the key iff it is present, else the insertion point *)
Theorem C14_bucket_search : forall (keys : list Z) (k : Z),
  StronglySorted Z.lt keys ->
  let '(i, found, probes) := bucket_search keys k in
  (found = true -> (i < length keys)%nat /\ zget keys i = k) /\
  (found = false -> ~ In k keys /\ (i <= length keys)%nat /\
                    (forall j, (j < i)%nat -> zget keys j < k) /\
                    (forall j, (i <= j < length keys)%nat -> k < zget keys j)) /\
  incl probes keys.
Proof. exact SearchProofs.bucket_search_correct. Qed.
Print Assumptions C14_bucket_search.

(* an operation = its comparisons (cmp_trace), then the change: if the n-th
   comparison raises, nothing has been modified *)
Definition run_failing {A} (n : option nat) (probes : list Z) (change : A -> A) (s : A) : bool * A :=
  match n with
  | Some m => if (m <? length probes)%nat then (false, s) else (true, change s)
  | None => (true, change s)
  end.
Theorem C14_atomic : forall (A : Type) (n : option nat) (probes : list Z) (change : A -> A) (s : A),
  fst (run_failing n probes change s) = false -> snd (run_failing n probes change s) = s.
Proof. exact SearchProofs.failing_is_atomic. Qed.
Print Assumptions C14_atomic.

(* every key an operation compares with is a key or a node key of the tree *)
Theorem C14_probes_are_stored_keys : forall (V : Type) (sepcheck : bool) (t : tree V) (k x : Z),
  In x (cmp_trace V sepcheck t k) -> In x (all_keys V t).
Proof. exact SearchProofs.probes_stored. Qed.
Print Assumptions C14_probes_are_stored_keys.

Example C14_example :
  cmp_trace Z true (Node 0%nat [(0, Leaf 1%nat [(1, 0); (3, 0)]); (5, Leaf 2%nat [(5, 0); (7, 0); (9, 0)])]) 7
  = [5; 5; 7].
Proof. vm_compute. reflexivity. Qed.
