(* C10 -- union / intersection / difference compute the mathematical result.
   Model: Model/SetOps.v (set_operation's walk, operand adaptation, the three
   module functions); vocabulary: Model/SetOpsSpec.v; proofs: Proofs/SetOpsProofs.v. *)
From Coq Require Import ZArith List Bool Sorted.
From BT Require Import Model.SetOps Model.SetOpsSpec Proofs.SetOpsProofs.
Import ListNotations.
Open Scope Z_scope.

(* the merge walk with selectors c1/c12/c2 over two strictly ascending streams *)
Theorem C10_walk : forall (V : Type) (c1 c12 c2 : bool) (f1 f2 : V -> V) (f12 : V -> V -> V)
    (l1 l2 : list (Z * V)),
  ssorted (map fst l1) -> ssorted (map fst l2) ->
  let r := walk V c1 c12 c2 f1 f2 f12 l1 l2 in
  ssorted (map fst r) /\
  forall k, In k (map fst r) <->
    (c1 = true /\ In k (map fst l1) /\ ~ In k (map fst l2)) \/
    (c12 = true /\ In k (map fst l1) /\ In k (map fst l2)) \/
    (c2 = true /\ ~ In k (map fst l1) /\ In k (map fst l2)).
Proof. exact SetOpsProofs.walk_spec. Qed.
Print Assumptions C10_walk.

(* an arbitrary iterable (unsorted, with repeats) is adapted to a strictly
   ascending, duplicate-free stream with the same elements *)
Theorem C10_adapt : forall l : list Z,
  ssorted (adapt l) /\ forall k, In k (adapt l) <-> In k l.
Proof. exact SetOpsProofs.adapt_spec. Qed.
Print Assumptions C10_adapt.

Theorem C10_union : forall a b : operand, wf_operand a -> wf_operand b ->
  a <> ONone -> b <> ONone ->
  exists r, m_union a b = SSet r /\ ssorted r /\
            forall k, In k r <-> In k (okeys a) \/ In k (okeys b).
Proof. exact SetOpsProofs.union_spec. Qed.
Print Assumptions C10_union.

Theorem C10_intersection : forall a b : operand, wf_operand a -> wf_operand b ->
  a <> ONone -> b <> ONone ->
  exists r, m_intersection a b = SSet r /\ ssorted r /\
            forall k, In k r <-> In k (okeys a) /\ In k (okeys b).
Proof. exact SetOpsProofs.intersection_spec. Qed.
Print Assumptions C10_intersection.

(* difference keeps the first operand's kind and values *)
Theorem C10_difference : forall a b : operand, wf_operand a -> wf_operand b ->
  b <> ONone ->
  (forall l, a = OSet l ->
     exists r, m_difference a b = SSet r /\ ssorted r /\
               forall k, In k r <-> In k l /\ ~ In k (okeys b)) /\
  (forall l, a = OMap l ->
     exists r, m_difference a b = SMap r /\ ssorted (map fst r) /\
               forall k v, In (k, v) r <-> In (k, v) l /\ ~ In k (okeys b)).
Proof. exact SetOpsProofs.difference_spec. Qed.
Print Assumptions C10_difference.

(* None operands as documented *)
Theorem C10_none : forall a b : operand,
  m_union ONone ONone = SNone /\ m_intersection ONone ONone = SNone /\
  (b <> ONone -> m_union ONone b = SOp2 /\ m_intersection ONone b = SOp2) /\
  (a <> ONone -> m_union a ONone = SOp1 /\ m_intersection a ONone = SOp1 /\
                 m_difference a ONone = SOp1) /\
  m_difference ONone b = SNone.
Proof. exact SetOpsProofs.none_table. Qed.
Print Assumptions C10_none.

Example C10_example :
  m_union (OMap [(1, 10); (4, 40)]) (OIter [9; 4; 9; 2]) = SSet [1; 2; 4; 9] /\
  m_difference (OMap [(1, 10); (4, 40)]) (OIter [9; 4; 9; 2]) = SMap [(1, 10)].
Proof. vm_compute. split; reflexivity. Qed.
