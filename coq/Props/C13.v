(* C13 -- only representable keys and values are stored (integer, bytes and
   object-key families; the float part is tied by the bit-exact differential
   check of the harness, see DESIGN.md).  Model/Conv.v transcribes the C
   conversion macros and the Python datatypes; the bounds come from
   Gen/TablesGen.v, regenerated from _datatypes.py / *macros.h on every run. *)
From Coq Require Import ZArith List Bool.
From BT Require Import Gen.TablesGen Model.Conv Proofs.ConvProofs.
Open Scope Z_scope.

(* C: accepted exactly when the argument is an int (or bool) inside the type's
   range, and then the stored number is the argument: no truncation, no wrap *)
Theorem C13_c_int : forall (t : ity) (v : pyval) (n : Z),
  c_int t v = Some n <-> c_intlike v = Some n /\ lo t <= n <= hi t.
Proof. exact c_int_spec. Qed.
Print Assumptions C13_c_int.

(* Python: the same, also for objects with __index__ *)
Theorem C13_py_int : forall (t : ity) (v : pyval) (n : Z),
  py_int t v = Some n <-> py_intlike v = Some n /\ lo t <= n <= hi t.
Proof. exact py_int_spec. Qed.
Print Assumptions C13_py_int.

(* C and Python agree on everything but objects that merely define __index__ *)
Theorem C13_c_py_agree : forall (t : ity) (v : pyval),
  (forall z, v <> PIndex z) -> c_int t v = py_int t v.
Proof. exact c_py_agree. Qed.
Print Assumptions C13_c_py_agree.

(* the literal range arithmetic of the C macros ((int)vcopy != vcopy etc.) is
   exactly the range test *)
Theorem C13_c_range_arith : forall (t : ity) (z n : Z),
  c_int_of t z = Some n <-> n = z /\ lo t <= z <= hi t.
Proof. exact c_int_of_spec. Qed.
Print Assumptions C13_c_range_arith.

Example C13_example :
  c_int TI (PInt 2147483647) = Some 2147483647 /\ c_int TI (PInt 2147483648) = None /\
  c_int TU (PInt (-1)) = None /\ c_int TQ (PInt 18446744073709551615) = Some 18446744073709551615 /\
  c_int TL (PInt 9223372036854775808) = None /\ c_int TI (PBool true) = Some 1 /\
  c_int TI (PIndex 5) = None /\ py_int TI (PIndex 5) = Some 5 /\ c_int TI PFloat = None.
Proof. vm_compute. repeat split. Qed.

(* ---------- float values: "floats as their single-precision rounding" ----------
   Model/Float32.v is COPY_VALUE_FROM_ARG of floatvaluemacros.h with the C cast
   and PyLong_AsDouble as Flocq's IEEE 754 operations.  The specification is
   Flocq's: [round radix2 (FLT_exp (-149) 24) ZnearestE x] is the binary32
   number nearest to the real x, ties to even.  These four theorems are stated
   over the standard library's real numbers and depend on its axioms (listed
   by Print Assumptions below and named in DESIGN.md section 7); the integer
   theorems above stay closed. *)
From Coq Require Import Reals.
From Flocq Require Import Core.Core IEEE754.BinarySingleNaN.
From BT Require Import Model.Float32 Proofs.Float32Proofs.

(* a float argument m * 2^e is stored as its nearest binary32 number, or as an infinity when that is out of range *)
Theorem C13_float_rounding :
  forall m e : Z,
  let x := F2R (Float radix2 m e) in
  if Rlt_bool (Rabs (rne fmt32 x)) (bpow radix2 128)
  then B2R (round32 m e) = rne fmt32 x /\ is_finite (round32 m e) = true
  else B2SF (round32 m e) = SpecFloat.S754_infinity (Rlt_bool x 0).
Proof. exact Float32Proofs.round32_correct. Qed.

(* representable data reads back equal to what was written *)
Theorem C13_float_exact :
  forall m e : Z,
  let x := F2R (Float radix2 m e) in
  generic_format radix2 fmt32 x -> (Rabs x < bpow radix2 128)%R ->
  B2R (round32 m e) = x /\ is_finite (round32 m e) = true.
Proof. exact Float32Proofs.round32_exact. Qed.

(* an int is accepted exactly when it fits a double, and goes through the double *)
Theorem C13_float_from_int :
  forall n : Z,
  if Rlt_bool (Rabs (rne fmt64 (IZR n))) (bpow radix2 1024)
  then exists r, conv_float (FInt n) = Some r /\
       let x := rne fmt64 (IZR n) in
       if Rlt_bool (Rabs (rne fmt32 x)) (bpow radix2 128)
       then B2R r = rne fmt32 x /\ is_finite r = true
       else B2SF r = SpecFloat.S754_infinity (Rlt_bool x 0)
  else conv_float (FInt n) = None.
Proof. exact Float32Proofs.conv_int_correct. Qed.

Theorem C13_float_stored_is_single :
  forall (a : farg) (r : single), conv_float a = Some r -> generic_format radix2 fmt32 (B2R r).
Proof. exact Float32Proofs.stored_is_single. Qed.

(* 16777217 = 2^24 + 1 is not a float32: stored as 2^24; 0.1 is rounded; 2^-150 is a tie that goes to zero;
   an int beyond the doubles is rejected; 4 * 10^38 fits a double and becomes an infinity *)
Example C13_float_examples :
  obs_of (conv_float (FDouble 16777217 0)) = OFinite false 1 24 /\
  obs_of (conv_float (FDouble 3602879701896397 (-55))) = OFinite false 13421773 (-27) /\
  obs_of (conv_float (FDouble 1 (-150))) = OZero false /\
  obs_of (conv_float (FInt (2 ^ 1024))) = ORejected /\
  obs_of (conv_float (FInt (4 * 10 ^ 38))) = OInf false /\
  obs_of (conv_float (FInt 16777217)) = OFinite false 1 24.
Proof. vm_compute. repeat split. Qed.
Print Assumptions C13_float_rounding.
Print Assumptions C13_float_exact.
Print Assumptions C13_float_from_int.
Print Assumptions C13_float_stored_is_single.
