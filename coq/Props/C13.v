(* C13 -- only representable keys and values are stored (integer, bytes and
   object-key families; the float part is tied by the bit-exact differential
   check of the harness, see DESIGN.md).  Model/Conv.v transcribes the C
   conversion macros and the Python datatypes; the bounds come from
   Gen/TablesGen.v, regenerated from _datatypes.py / *macros.h on every run. *)
From Coq Require Import ZArith List Bool.
From BT Require Import Gen.TablesGen Model.Conv Proofs.ConvProofs.
Open Scope Z_scope.

(* C: accepted exactly when the argument is an int (or bool) inside the type's
   range, and then the stored number is the argument: no truncation, no wrap *)
Theorem C13_c_int : forall (t : ity) (v : pyval) (n : Z),
  c_int t v = Some n <-> c_intlike v = Some n /\ lo t <= n <= hi t.
Proof. exact c_int_spec. Qed.
Print Assumptions C13_c_int.

(* Python: the same, also for objects with __index__ *)
Theorem C13_py_int : forall (t : ity) (v : pyval) (n : Z),
  py_int t v = Some n <-> py_intlike v = Some n /\ lo t <= n <= hi t.
Proof. exact py_int_spec. Qed.
Print Assumptions C13_py_int.

(* C and Python agree on everything but objects that merely define __index__ *)
Theorem C13_c_py_agree : forall (t : ity) (v : pyval),
  (forall z, v <> PIndex z) -> c_int t v = py_int t v.
Proof. exact c_py_agree. Qed.
Print Assumptions C13_c_py_agree.

(* the literal range arithmetic of the C macros ((int)vcopy != vcopy etc.) is
   exactly the range test *)
Theorem C13_c_range_arith : forall (t : ity) (z n : Z),
  c_int_of t z = Some n <-> n = z /\ lo t <= z <= hi t.
Proof. exact c_int_of_spec. Qed.
Print Assumptions C13_c_range_arith.

Example C13_example :
  c_int TI (PInt 2147483647) = Some 2147483647 /\ c_int TI (PInt 2147483648) = None /\
  c_int TU (PInt (-1)) = None /\ c_int TQ (PInt 18446744073709551615) = Some 18446744073709551615 /\
  c_int TL (PInt 9223372036854775808) = None /\ c_int TI (PBool true) = Some 1 /\
  c_int TI (PIndex 5) = None /\ py_int TI (PIndex 5) = Some 5 /\ c_int TI PFloat = None.
Proof. vm_compute. repeat split. Qed.
