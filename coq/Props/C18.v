(* C18 -- the diagnostic checkers accept every valid tree and detect every corruption.
   Model/Check.v: a stored state is a tree of nodes whose next / firstbucket
   pointers are ARBITRARY leaf identities; check_fn models
   BTrees.check.check(), pcheck_fn the _check() method.  inv_stored is the
   stored invariant stated globally: key order, containment in the intervals
   promised by the separators, linking (every leaf points to its in-order
   successor, every interior node's firstbucket is its leftmost leaf),
   uniformity of child kinds, non-emptiness. *)
From Coq Require Import ZArith List Bool.
From BT Require Import Model.RTree Model.TreeSpec Model.Check Model.CheckTree Proofs.CheckProofs.
From BT Require Import Model.TreeRun Model.Chain Model.ChainRun Proofs.ChainCheckProofs.
Import ListNotations.
Open Scope Z_scope.

(* every valid state is accepted by both tools *)
Theorem C18_sound : forall p : pnode,
  inv_stored p -> check_fn p = true /\ pcheck_fn p = true.
Proof. exact CheckProofs.checkers_sound. Qed.
Print Assumptions C18_sound.

(* between them the two tools have no blind spot: a state (any state, with any
   number of corruptions at any position) that both accept satisfies the
   whole stored invariant *)
Theorem C18_complete : forall p : pnode,
  is_pleaf p = false -> check_fn p = true -> pcheck_fn p = true -> inv_stored p.
Proof. exact CheckProofs.checkers_complete. Qed.
Print Assumptions C18_complete.

(* every container produced through the public API is accepted (with C03) *)
Theorem C18_accepts_api_trees : forall (V : Type) (ml mi : nat) (t : tree V),
  Inv V ml mi t ->
  inv_stored (stored V t) /\ check_fn (stored V t) = true /\ pcheck_fn (stored V t) = true.
Proof. exact CheckProofs.api_trees_accepted. Qed.
Print Assumptions C18_accepts_api_trees.

(* ... and that is the state the checkers really look at: with next and
   firstbucket READ from the pointer heap of Model/Chain.v (written by the
   code's own assignments: the C03_chain theorems), the stored state is the one above, so
   both checkers accept the pointer state of every tree the API produces --
   after every history of public calls *)
Theorem C18_accepts_pointer_state : forall (ml mi : nat), (1 <= ml)%nat -> (2 <= mi)%nat ->
  forall (V : Type) (t : tree V) (h : heap),
  Inv V ml mi t -> chain_ok V h t ->
  to_ph V h t = stored V t /\
  inv_stored (to_ph V h t) /\ check_fn (to_ph V h t) = true /\ pcheck_fn (to_ph V h t) = true.
Proof. exact ChainCheckProofs.pointer_state_accepted. Qed.
Print Assumptions C18_accepts_pointer_state.

Theorem C18_accepts_after_any_history : forall (ml mi : nat), (1 <= ml)%nat -> (2 <= mi)%nat ->
  forall (vs ir : bool) (calls : list call),
  let sp := api_run vs ir ml mi calls in
  let p := to_ph Z (p_heap (snd sp)) (t_tree (fst (run vs ir ml mi init calls))) in
  inv_stored p /\ check_fn p = true /\ pcheck_fn p = true.
Proof. exact ChainCheckProofs.pointer_state_accepted_after_history. Qed.
Print Assumptions C18_accepts_after_any_history.

(* non-vacuity: a valid two-level state, and single corruptions of it that
   only one of the two tools catches *)
Example C18_example :
  let ok := PNode 1 (Some 2%nat) [(0, PLeaf 2 [1; 3] (Some 3%nat)); (5, PLeaf 3 [5; 8] None)] in
  let bad_order := PNode 1 (Some 2%nat) [(0, PLeaf 2 [3; 1] (Some 3%nat)); (5, PLeaf 3 [5; 8] None)] in
  let bad_link := PNode 1 (Some 2%nat) [(0, PLeaf 2 [1; 3] None); (5, PLeaf 3 [5; 8] None)] in
  (check_fn ok, pcheck_fn ok) = (true, true) /\
  (check_fn bad_order, pcheck_fn bad_order) = (false, true) /\
  (check_fn bad_link, pcheck_fn bad_link) = (true, false).
Proof. vm_compute. repeat split. Qed.
