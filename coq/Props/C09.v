(* C09 -- the C extension and the pure-Python fallback are interchangeable.
   Both implementations are tied to ONE model (Model/RTree.v, TreeRun.v); the
   places where they differ are explicit switches of that model (isC: which
   calls declare read dependencies, value-same short cut, how &= rebuilds).
   The theorems say the switches do not influence results, contents or shape;
   the conversion layer is C13.  Remaining divergences found by the paired
   execution of the harness are recorded findings (F17, F27, F28, F29). *)
From Coq Require Import ZArith List Bool.
From BT Require Import Model.RTree Model.TreeSpec Model.TreeRun Model.Conv Proofs.ConvProofs Proofs.InterchangeProofs.
Import ListNotations.
Open Scope Z_scope.

(* equal results and equal contents, for every history *)
Theorem C09_results_equal : forall (vs vs' : bool) (ml mi : nat) (calls : list call),
  (1 <= ml)%nat -> (2 <= mi)%nat -> set_calls_ok calls = true ->
  let '(s1, o1) := run vs true ml mi init calls in
  let '(s2, o2) := run vs' false ml mi init calls in
  o1 = o2 /\ contents Z (t_tree s1) = contents Z (t_tree s2).
Proof. exact InterchangeProofs.results_equal. Qed.
Print Assumptions C09_results_equal.

(* equal shape (hence equal serialized state), as long as &= is not used (F17) *)
Theorem C09_shape_equal : forall (vs vs' : bool) (ml mi : nat) (calls : list call),
  (1 <= ml)%nat -> (2 <= mi)%nat -> existsb is_iand calls = false ->
  t_tree (fst (run vs true ml mi init calls)) = t_tree (fst (run vs' false ml mi init calls)).
Proof. exact InterchangeProofs.shape_equal. Qed.
Print Assumptions C09_shape_equal.

(* the integer conversions agree on everything but objects that merely define __index__ *)
Theorem C09_conversions_agree : forall (t : ity) (v : pyval),
  (forall z, v <> PIndex z) -> c_int t v = py_int t v.
Proof. exact c_py_agree. Qed.
Print Assumptions C09_conversions_agree.
