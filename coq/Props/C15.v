(* C15 -- mutating while iterating never crashes or damages the container.
   Model/Iter.v: BTreeIter_next and the validation step of BTreeItems_seek on a
   leaf store that may have been mutated arbitrarily.  The theorems are about
   the bounds discipline (every read is preceded by a test against the leaf's
   current size; every pointer followed is a live leaf); that the real process
   does not crash and that the container ends with the contents implied by the
   mutations is checked by the harness in a child process. *)
From Coq Require Import ZArith List Bool.
From BT Require Import Model.Iter Proofs.IterProofs Model.IterPy Proofs.IterPyProofs.
Import ListNotations.

Theorem C15_next_total : forall (V : Type) (s : lstore V) (it : iter),
  closed V s -> holds V s it ->
  let '(r, it') := iter_next V s it in
  r <> SOob V /\ holds V s it' /\
  (forall kv, r = SEntry V kv ->
     exists b items nxt, i_cur it = Some b /\ lget V s b = Some (items, nxt) /\
                         nth_error items (i_off it) = Some kv).
Proof. exact next_total. Qed.
Print Assumptions C15_next_total.

(* every step of an iteration interleaved with arbitrary mutations yields an
   entry, ends the iteration or raises RuntimeError -- never an out-of-bounds read *)
Theorem C15_iteration_never_oob : forall (V : Type) (stores : list (lstore V)) (it : iter),
  (forall s, In s stores -> closed V s) ->
  (forall pre s post, stores = pre ++ s :: post -> forall i, lget V s i <> None ->
        forall s', In s' post -> lget V s' i <> None) ->
  match stores with s :: _ => holds V s it | [] => True end ->
  ~ In (SOob V) (run V stores it).
Proof. exact run_never_oob. Qed.
Print Assumptions C15_iteration_never_oob.

Theorem C15_seek_in_bounds : forall (V : Type) (s : lstore V) (target : option (nat * nat)) (b off : nat),
  seek_validate V s target = KOk b off -> exists kv, read_at V s b off = Some kv.
Proof. exact seek_validated_in_bounds. Qed.
Print Assumptions C15_seek_in_bounds.

(* non-vacuity: the parked leaf shrinks under the iterator *)
Example C15_example :
  let s1 := [(1%nat, ([(1%Z, 10%Z); (2%Z, 20%Z)], Some 2%nat)); (2%nat, ([(5%Z, 50%Z)], None))] in
  let s2 := [(1%nat, ([(1%Z, 10%Z)], Some 2%nat)); (2%nat, ([(5%Z, 50%Z)], None))] in
  run Z [s1; s2; s2] (mkIt (Some 1%nat) 0 2 0 false)
  = [SEntry Z (1%Z, 10%Z); SRuntimeError Z; SRuntimeError Z].
Proof. vm_compute. reflexivity. Qed.

(* ---------------- pure Python (Model/IterPy.v) ---------------- *)
(* the generator _TreeItems.__iter__ with the per-bucket generators, whose
   index range is fixed when a bucket is entered while keys[i] is read when the
   entry is asked for: on a leaf store mutated ARBITRARILY between steps every
   next() yields an entry that is in a live leaf at that moment, ends the
   iteration or raises IndexError -- and the model's fuel is never the reason
   (at most two buckets are visited per step: the `done` flag) *)
Theorem C15_py_next_total : forall (V : Type) (s : lstore V) (it : pyit),
  closed V s -> py_holds V s it ->
  let '(r, it') := py_next V py_fuel s it in
  r <> POob V /\ py_holds V s it' /\
  (forall kv, r = PEntry V kv ->
     exists b items nxt i, lget V s b = Some (items, nxt) /\ nth_error items i = Some kv).
Proof. exact py_next_total. Qed.
Print Assumptions C15_py_next_total.

Example C15_py_example :
  let s1 := [(1%nat, ([(1%Z, 10%Z); (2%Z, 20%Z)], Some 2%nat)); (2%nat, ([(5%Z, 50%Z)], None))] in
  let s2 := [(1%nat, ([(1%Z, 10%Z)], Some 2%nat)); (2%nat, ([(5%Z, 50%Z)], None))] in
  let '(r1, i1) := py_next Z py_fuel s1 (mkPy (Some 1%nat) false 0 0 false) in
  let '(r2, i2) := py_next Z py_fuel s2 i1 in
  let '(r3, _) := py_next Z py_fuel s2 i2 in
  (r1, r2, r3) = (PEntry Z (1%Z, 10%Z), PIndexError Z, PStop Z).
Proof. vm_compute. reflexivity. Qed.
