(* C03 -- a container used only through its API is never internally damaged.
   The invariant Inv (Model/TreeSpec.v: wfb) says: an empty root, or: no leaf
   or interior node is empty; all children of a node are of one kind and one
   depth; keys strictly ascending; every key and every separator inside the
   interval its ancestors' separators promise; each separator (i >= 1) equals
   the smallest key below its child; leaves hold at most max_leaf_size
   entries, interior nodes at most max_internal_size children, the root fewer
   than twice that.  The leaf chain is the in-order leaf sequence of the
   model by construction; that the implementation's next pointers realise it
   is checked by the correspondence run (shape + chain after every history). *)
From Coq Require Import ZArith List Bool.
From BT Require Import Model.RTree Model.TreeSpec Model.TreeRun Proofs.TreeProofs.
Import ListNotations.
Open Scope Z_scope.

Theorem C03_init : forall ml mi : nat, Inv Z ml mi (t_tree init).
Proof. exact TreeProofs.inv_init. Qed.
Print Assumptions C03_init.

(* every public call preserves the invariant *)
Theorem C03_step : forall (vsame iand_rebuilds : bool) (ml mi : nat) (s : st) (c : call),
  (1 <= ml)%nat -> (2 <= mi)%nat ->
  Inv Z ml mi (t_tree s) -> Inv Z ml mi (t_tree (fst (step vsame iand_rebuilds ml mi s c))).
Proof. exact TreeProofs.inv_step. Qed.
Print Assumptions C03_step.

(* hence every reachable state satisfies it *)
Theorem C03_reachable : forall (vsame iand_rebuilds : bool) (ml mi : nat) (calls : list call),
  (1 <= ml)%nat -> (2 <= mi)%nat ->
  Inv Z ml mi (t_tree (fst (run vsame iand_rebuilds ml mi init calls))).
Proof. exact TreeProofs.inv_reachable. Qed.
Print Assumptions C03_reachable.

(* the single-operation core, for any value type *)
Theorem C03_set : forall (V : Type) (veq : V -> V -> bool) (vs : bool) (ml mi fresh : nat)
    (t : tree V) (k : Z) (v : V) (ifunset : bool),
  (1 <= ml)%nat -> (2 <= mi)%nat -> Inv V ml mi t ->
  Inv V ml mi (s_tree (tset V veq vs ml mi fresh t k v ifunset)).
Proof. exact TreeProofs.inv_tset. Qed.
Print Assumptions C03_set.

Theorem C03_del : forall (V : Type) (ml mi : nat) (t : tree V) (k : Z) (r : dres V),
  (1 <= ml)%nat -> (2 <= mi)%nat -> Inv V ml mi t ->
  tdel V t k = Some r -> Inv V ml mi (d_tree r).
Proof. exact TreeProofs.inv_tdel. Qed.
Print Assumptions C03_del.

Example C03_example :
  wfb Z 2 2 (t_tree (fst (run false false 2 2 init
     [CSet 5 50; CSet 1 10; CSet 9 90; CSet 3 30; CSet 7 70; CSet 2 20; CSet 8 80; CDel 1; CDel 2]))) = true.
Proof. vm_compute. reflexivity. Qed.
