(* C03 -- a container used only through its API is never internally damaged.
   The invariant Inv (Model/TreeSpec.v: wfb) says: an empty root, or: no leaf
   or interior node is empty; all children of a node are of one kind and one
   depth; keys strictly ascending; every key and every separator inside the
   interval its ancestors' separators promise; each separator (i >= 1) equals
   the smallest key below its child; leaves hold at most max_leaf_size
   entries, interior nodes at most max_internal_size children, the root fewer
   than twice that.
   The pointer clause ("the leaf chain visits every entry exactly once in key
   order and ends where the tree ends, every leaf reachable by descent is on
   the chain and vice versa") is about Model/Chain.v: a heap holding every
   leaf's `next` and every interior node's `firstbucket`, written by the
   assignments the code performs at the sites where it performs them (leaf
   split, node split, root split, first bucket, the two unlink sites of the
   delete path with their status-2 bubbling, clear).  C03_chain_*: after every
   insertion, deletion and clear, hence after every history, the heap realises
   the in-order leaf sequence of the tree and every node's first leaf; a walk
   from the root's firstbucket along next visits exactly the leaves reached by
   descent, in order, and ends with NULL. *)
From Coq Require Import ZArith List Bool.
From BT Require Import Model.RTree Model.TreeSpec Model.TreeRun Proofs.TreeProofs.
From BT Require Import Model.Persist Model.PersistSpec Model.Chain Model.ChainRun Proofs.ChainProofs Proofs.ChainRunProofs.
Import ListNotations.
Open Scope Z_scope.

Theorem C03_init : forall ml mi : nat, Inv Z ml mi (t_tree init).
Proof. exact TreeProofs.inv_init. Qed.
Print Assumptions C03_init.

(* every public call preserves the invariant *)
Theorem C03_step : forall (vsame iand_rebuilds : bool) (ml mi : nat) (s : st) (c : call),
  (1 <= ml)%nat -> (2 <= mi)%nat ->
  Inv Z ml mi (t_tree s) -> Inv Z ml mi (t_tree (fst (step vsame iand_rebuilds ml mi s c))).
Proof. exact TreeProofs.inv_step. Qed.
Print Assumptions C03_step.

(* hence every reachable state satisfies it *)
Theorem C03_reachable : forall (vsame iand_rebuilds : bool) (ml mi : nat) (calls : list call),
  (1 <= ml)%nat -> (2 <= mi)%nat ->
  Inv Z ml mi (t_tree (fst (run vsame iand_rebuilds ml mi init calls))).
Proof. exact TreeProofs.inv_reachable. Qed.
Print Assumptions C03_reachable.

(* the single-operation core, for any value type *)
Theorem C03_set : forall (V : Type) (veq : V -> V -> bool) (vs : bool) (ml mi fresh : nat)
    (t : tree V) (k : Z) (v : V) (ifunset : bool),
  (1 <= ml)%nat -> (2 <= mi)%nat -> Inv V ml mi t ->
  Inv V ml mi (s_tree (tset V veq vs ml mi fresh t k v ifunset)).
Proof. exact TreeProofs.inv_tset. Qed.
Print Assumptions C03_set.

Theorem C03_del : forall (V : Type) (ml mi : nat) (t : tree V) (k : Z) (r : dres V),
  (1 <= ml)%nat -> (2 <= mi)%nat -> Inv V ml mi t ->
  tdel V t k = Some r -> Inv V ml mi (d_tree r).
Proof. exact TreeProofs.inv_tdel. Qed.
Print Assumptions C03_del.

Example C03_example :
  wfb Z 2 2 (t_tree (fst (run false false 2 2 init
     [CSet 5 50; CSet 1 10; CSet 9 90; CSet 3 30; CSet 7 70; CSet 2 20; CSet 8 80; CDel 1; CDel 2]))) = true.
Proof. vm_compute. reflexivity. Qed.

(* ---------------- the pointer structure (Model/Chain.v) ---------------- *)
Theorem C03_chain_set : forall (V : Type) (veq : V -> V -> bool) (vs : bool) (ml mi : nat),
  (1 <= ml)%nat -> (2 <= mi)%nat ->
  forall (fresh : nat) (t : tree V) (k : Z) (v : V) (iu : bool) (h : heap),
  Inv V ml mi t -> ids_ok V fresh t -> chain_ok V h t ->
  chain_ok V (pset V veq vs ml mi h fresh t k v iu) (s_tree (tset V veq vs ml mi fresh t k v iu)).
Proof. exact ChainProofs.chain_set. Qed.
Print Assumptions C03_chain_set.

Theorem C03_chain_del : forall (V : Type) (ml mi : nat),
  (1 <= ml)%nat -> (2 <= mi)%nat ->
  forall (t : tree V) (k : Z) (r : dres V) (h : heap),
  Inv V ml mi t -> NoDup (ids V t) -> chain_ok V h t -> tdel V t k = Some r ->
  chain_ok V (pdel V h t k) (d_tree r).
Proof. exact ChainProofs.chain_del. Qed.
Print Assumptions C03_chain_del.

Theorem C03_chain_clear : forall (V : Type) (ml mi : nat) (t : tree V) (h : heap),
  Inv V ml mi t -> chain_ok V h t -> chain_ok V (pclear V h t) (fst (tclear V t)).
Proof. exact ChainProofs.chain_clear. Qed.
Print Assumptions C03_chain_clear.

(* what chain_ok means for an observer, and for the persistence model: the
   pointers are the successor / first-leaf functions Persist.getstate uses *)
Theorem C03_chain_walk : forall (V : Type) (ml mi : nat),
  (1 <= ml)%nat -> (2 <= mi)%nat ->
  forall (t : tree V) (h : heap),
  Inv V ml mi t -> NoDup (ids V t) -> chain_ok V h t ->
  (forall x, In x (leaf_ids V t) -> nx h x = succ_of (leaf_ids V t) x) /\
  fb h (tid V t) = first_leaf V t /\
  walk_tree V h t = leaf_ids V t.
Proof. exact ChainProofs.chain_is_getstate_view. Qed.
Print Assumptions C03_chain_walk.

(* every history of insertions, deletions and clear from the empty tree *)
Theorem C03_chain_reachable : forall (vs : bool) (ml mi : nat),
  (1 <= ml)%nat -> (2 <= mi)%nat ->
  forall ps : list prim,
  let s := prim_run vs ml mi pinit ps in
  Inv Z ml mi (p_tree s) /\ ids_ok Z (p_fresh s) (p_tree s) /\ chain_ok Z (p_heap s) (p_tree s).
Proof. exact ChainProofs.chain_reachable. Qed.
Print Assumptions C03_chain_reachable.

(* the public API: ChainRun.prims_of lists, for each of the 28 calls, the
   insertions / deletions / clear it performs (deciding by the model's own
   membership test where the call does); they rebuild exactly the tree
   TreeRun.step computes, so after EVERY history of public calls the pointer
   model realises the tree of C01 / C03_reachable: a walk along firstbucket /
   next visits exactly the leaves reached by descent, in order *)
Theorem C03_chain_calls : forall (vs ir : bool) (ml mi : nat),
  (1 <= ml)%nat -> (2 <= mi)%nat ->
  forall calls : list call,
  let sp := api_run vs ir ml mi calls in
  let s := fst sp in let p := snd sp in
  s = fst (run vs ir ml mi init calls) /\
  p_tree p = t_tree s /\
  chain_ok Z (p_heap p) (t_tree s) /\
  walk_tree Z (p_heap p) (t_tree s) = leaf_ids Z (t_tree s).
Proof. exact ChainRunProofs.chain_calls. Qed.
Print Assumptions C03_chain_calls.

Example C03_chain_example :
  let s := prim_run false 1 2 pinit
             (map (fun k => PSet k k false) [5; 1; 9; 3; 7; 2; 8; 4; 6] ++ [PDel 1; PDel 2; PDel 9; PDel 5]) in
  chain_ok_b Z (p_heap s) (p_tree s) = true /\
  walk_tree Z (p_heap s) (p_tree s) = leaf_ids Z (p_tree s) /\
  (3 <= depth Z (p_tree s))%nat.
Proof. vm_compute. repeat split; repeat constructor. Qed.
