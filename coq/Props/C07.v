(* C07 -- leaf conflict resolution is an exact three-way merge or a refusal.
   Statements only.  Model: Model/Merge.v (literal transcription of
   MergeTemplate.c / _base.py, tied to both by the correspondence check);
   specification vocabulary: Model/MergeSpec.v; proofs: Proofs/MergeProofs.v. *)
From Coq Require Import ZArith List Bool.
From BT Require Import Model.Merge Model.MergeSpec Proofs.MergeProofs.
Import ListNotations.
Open Scope Z_scope.

Section C07.
Variable V : Type.
Variable veq : V -> V -> bool.
Hypothesis veq_spec : forall a b, veq a b = true <-> a = b.

Notation sorted3 o c n :=
  (keys_sorted V (fst o) /\ keys_sorted V (fst c) /\ keys_sorted V (fst n)).

(* resolution succeeds exactly when the guard of the property holds *)
Theorem C07_exact : forall o c n : leafstate V, sorted3 o c n ->
  ((exists s, bucket_resolve V veq o c n = ROk s) <-> guard V o c n).
Proof. exact (MergeProofs.resolve_exact V veq veq_spec). Qed.

(* ... and then returns the original with both change sets applied, same
   successor link, sorted, never empty *)
Theorem C07_result : forall (o c n : leafstate V) r x, sorted3 o c n ->
  bucket_resolve V veq o c n = ROk (r, x) ->
  x = snd o /\ merged V (fst o) (fst c) (fst n) r /\ r <> [].
Proof. exact (MergeProofs.resolve_result V veq veq_spec). Qed.

(* "the state obtained by applying both change sets" is unique (given the
   decidable value equality; for a bare type the statement is only ~~-provable) *)
Theorem C07_merged_unique : forall o c n r r' : list (Z * V),
  merged V o c n r -> merged V o c n r' -> r = r'.
Proof. exact (MergeProofs.merged_unique_partial V veq veq_spec). Qed.

(* never drops, invents or reorders an entry *)
Theorem C07_no_invention : forall (o c n : leafstate V) r x k v, sorted3 o c n ->
  bucket_resolve V veq o c n = ROk (r, x) ->
  (In (k, v) r -> In (k, v) (fst c) \/ In (k, v) (fst n)) /\
  (In (k, v) (fst o) -> In (k, v) (fst c) -> In (k, v) (fst n) -> In (k, v) r).
Proof. exact (MergeProofs.resolve_no_invention V veq veq_spec). Qed.

(* in every other case it refuses with a conflict: never runs out of fuel,
   never another outcome; and the "empty result" refusal (reason 10) cannot fire *)
Theorem C07_refusal : forall o c n : leafstate V, sorted3 o c n ->
  ~ guard V o c n ->
  exists p1 p2 p3 reason, bucket_resolve V veq o c n = RConflict p1 p2 p3 reason /\ reason <> 10.
Proof. exact (MergeProofs.resolve_refusal V veq veq_spec). Qed.

(* tree level: a one-leaf tree resolves as its leaf; a multi-leaf state is refused *)
Theorem C07_tree_level : forall o c n : tstate V,
  (forall so sc sn,
     get_bucket_state V o = GState V so -> get_bucket_state V c = GState V sc ->
     get_bucket_state V n = GState V sn ->
     tree_resolve V veq o c n = bucket_resolve V veq so sc sn) /\
  ((o = TMulti \/ c = TMulti \/ n = TMulti) -> o <> TBad -> c <> TBad -> n <> TBad ->
     tree_resolve V veq o c n = RConflict (-1) (-1) (-1) 11).
Proof. exact (MergeProofs.tree_level V veq). Qed.

End C07.

Print Assumptions C07_exact.
Print Assumptions C07_result.
Print Assumptions C07_merged_unique.
Print Assumptions C07_no_invention.
Print Assumptions C07_refusal.
Print Assumptions C07_tree_level.

(* non-vacuity: a concrete mergeable triple and a concrete refusal *)
Example C07_example_ok :
  bucket_resolve Z Z.eqb ([(1, 10); (2, 20); (3, 30)], Some 7)
                         ([(1, 10); (2, 21); (3, 30); (5, 50)], Some 7)
                         ([(0, 0); (2, 20)], Some 7)
  = ROk ([(0, 0); (2, 21); (5, 50)], Some 7).
Proof. vm_compute. reflexivity. Qed.
Example C07_example_refused :
  bucket_resolve Z Z.eqb ([(1, 10); (2, 20)], None) ([(1, 10); (2, 20)], None) ([(2, 20)], None)
  = RConflict 1 1 1 13.
Proof. vm_compute. reflexivity. Qed.
