(* C05 -- evicting nodes from the object cache never changes behaviour.
   (a) Between operations: a stored, unchanged node that is evicted is
   reloaded from its record.  The theorems say that after every insert and
   delete every stored unchanged node still EQUALS its record (synced), so
   eviction + reload is the identity at any point between operations (with
   C04_reader for the whole tree).  Guard as in C04 (finding F16).
   (b) Inside an operation: the pins of the C extension (PER_USE / PER_UNUSE,
   the sticky state).  Model/Pins.v transcribes the use / unuse discipline of
   the three kinds of descent (lookup: hand-over; insert / delete: the whole
   path stays pinned; range end: the root plus hand-over) with their error
   exits, a comparison being the only point where foreign code (a sweep, an
   exception) can run.  C05_pins_released: whichever comparison raises, or
   none, the call releases exactly what it pinned, never releases a node it
   does not hold, and so leaves nothing pinned.  C05_pins_protect: whenever a
   comparison runs, the node holding the compared key is pinned (a sweep from
   inside the comparison cannot evict it and free the keys being searched).
   C05_write_path_pinned / C05_range_root_pinned: the nodes an insert / delete
   will modify after its callee returns, resp. the root a range search returns
   to, stay pinned throughout.  C05_pins_comparisons: the comparisons of these
   traces are exactly C14's Search.cmp_trace.  The traces are tied to the code
   by observing, inside every comparison of calls on stored trees, which nodes
   are sticky (harness/props/c05.py part_g).  Not in the traces: the
   comparison-free tails of the routines, the set-algebra and iterator entry
   points (harness only: after every call nothing may be sticky), and what a
   sweep does to an UNpinned node (that is part (a)). *)
From Coq Require Import ZArith List Bool.
From BT Require Import Model.RTree Model.TreeSpec Model.Persist Model.PersistSpec Proofs.SyncProofs.
From BT Require Import Model.Search Model.Pins Proofs.PinsProofs Proofs.PinsBoundProofs.
Import ListNotations.
Open Scope Z_scope.

Section C05.
Variable V : Type.

Theorem C05_sync_set_partial :
  forall (isC : bool) (veq : V -> V -> bool) (vs : bool) (ml mi fresh : nat) (t : tree V) (k : Z) (v : V)
         (ifunset : bool) (p : pstate) (s : store V),
  (1 <= ml)%nat -> (2 <= mi)%nat -> Inv V ml mi t -> ids_ok V fresh t ->
  no_embed_below V true (p_stored p) t ->
  (forall x, mem x (p_stored p) = true -> (x < fresh)%nat) ->
  synced V t p s ->
  let r := tset V veq vs ml mi fresh t k v ifunset in
  synced V (s_tree r) (apply_events isC p (s_ev r)) s.
Proof. exact (SyncProofs.sync_set V). Qed.

Theorem C05_sync_del_partial :
  forall (isC : bool) (ml mi fresh : nat) (t : tree V) (k : Z) (r : dres V) (p : pstate) (s : store V),
  (1 <= ml)%nat -> (2 <= mi)%nat -> Inv V ml mi t -> ids_ok V fresh t ->
  no_embed_below V true (p_stored p) t ->
  synced V t p s -> tdel V t k = Some r ->
  synced V (d_tree r) (apply_events isC p (d_ev r)) s.
Proof. exact (SyncProofs.sync_del V). Qed.

End C05.
Print Assumptions C05_sync_set_partial.
Print Assumptions C05_sync_del_partial.

(* ---------- (b) pins ---------- *)
Theorem C05_pins_released :
  forall (d : disc) (p : list (nat * list Z)) (c : option nat) (P : list nat),
  pins_after (ptr (pin_trace d p c)) P = P /\ unuse_ok (ptr (pin_trace d p c)) P = true.
Proof. exact PinsProofs.pins_balanced. Qed.

Theorem C05_pins_protect :
  forall (d : disc) (p : list (nat * list Z)) (c : option nat) (P : list nat),
  Forall (fun o => In (onode o) (opins o) /\ incl P (opins o)) (observe (ptr (pin_trace d p c)) P).
Proof. exact PinsProofs.pins_protect. Qed.

Theorem C05_write_path_pinned :
  forall (id : nat) (ps : list Z) (rest : list (nat * list Z)) (c : option nat) (P : list nat),
  Forall (fun o => In id (opins o)) (observe (ptr (set_tr ((id, ps) :: rest) c)) P).
Proof. exact PinsProofs.set_head_pinned. Qed.

Theorem C05_range_root_pinned :
  forall (id : nat) (ps : list Z) (rest : list (nat * list Z)) (c : option nat) (P : list nat),
  Forall (fun o => In id (opins o)) (observe (ptr (range_tr ((id, ps) :: rest) c)) P).
Proof. exact PinsProofs.range_root_pinned. Qed.

Theorem C05_pins_comparisons :
  forall (V : Type) (d : disc) (sepcheck : bool) (t : tree V) (k : Z),
  cmp_keys (ptr (pin_trace d (path_probes V sepcheck t k) None)) = cmp_trace V sepcheck t k.
Proof. intros V d sc t k. rewrite PinsProofs.trace_keys. apply PinsProofs.path_probes_trace. Qed.

(* a call in which comparison number n (counted from 0) raises performs the first n + 1 comparisons of the
   complete call and no other: the failing call is the complete call cut short (its pins: C05_pins_released) *)
Theorem C05_pins_failure_cuts_short :
  forall (d : disc) (p : list (nat * list Z)) (n : nat),
  cmp_keys (ptr (pin_trace d p (Some n))) = firstn (S n) (all_probes p).
Proof. exact PinsProofs.trace_cut. Qed.

(* keys / values / items (min, max) on a tree: one pin of the root over both range-end searches *)
Theorem C05_range2_released :
  forall (p1 p2 : list (nat * list Z)) (lowfound : bool) (c : option nat) (P : list nat),
  pins_after (ptr (range2_tr p1 p2 lowfound c)) P = P /\ unuse_ok (ptr (range2_tr p1 p2 lowfound c)) P = true.
Proof. exact PinsProofs.range2_balanced. Qed.

Theorem C05_range2_protect :
  forall (id : nat) (ps : list Z) (rest p2 : list (nat * list Z)) (lowfound : bool) (c : option nat) (P : list nat),
  Forall (fun o => In (onode o) (opins o) /\ In id (opins o))
         (observe (ptr (range2_tr ((id, ps) :: rest) p2 lowfound c)) P).
Proof. exact PinsProofs.range2_protect. Qed.

(* hand-over: however deep the tree, a lookup holds at most two pins of its own while it runs (the bottom interior
   node and the bucket), a range-end search at most three (the root as well) -- every other node stays evictable *)
Theorem C05_lookup_pins_bounded :
  forall (p : list (nat * list Z)) (c : option nat) (P : list nat),
  Forall (fun o => (length (opins o) <= length P + 2)%nat) (observe (ptr (get_tr p c)) P).
Proof. exact PinsBoundProofs.get_pins_bounded. Qed.

Theorem C05_range_pins_bounded :
  forall (p : list (nat * list Z)) (c : option nat) (P : list nat),
  Forall (fun o => (length (opins o) <= length P + 3)%nat) (observe (ptr (range_tr p c)) P).
Proof. exact PinsBoundProofs.range_pins_bounded. Qed.

(* a three-level tree: the three disciplines differ, and a raising comparison is really cut short *)
Definition ex_tree : wtr :=
  WTN [WTK 0 (WTN [WTK 0 (WTL [1; 2]); WTK 5 (WTL [5; 6])]);
       WTK 10 (WTN [WTK 0 (WTL [10; 11]); WTK 15 (WTL [15; 16])])].
Example C05_pins_example :
  model_obs ex_tree 0 false 15 = [(10, [0%nat]); (15, [4%nat]); (16, [4; 6]%nat); (15, [4; 6]%nat)] /\
  model_obs ex_tree 1 false 15 = [(10, [0%nat]); (15, [0; 4]%nat); (16, [0; 4; 6]%nat); (15, [0; 4; 6]%nat)] /\
  model_obs ex_tree 2 false 15 = [(10, [0%nat]); (15, [0; 4]%nat); (16, [0; 4; 6]%nat); (15, [0; 4; 6]%nat)] /\
  model_obs ex_tree 2 false 6 = [(10, [0%nat]); (5, [0; 1]%nat); (6, [0; 1; 3]%nat)] /\
  ptr (pin_trace DGet (path_probes Z false (fst (number ex_tree 0%nat)) 15) None) =
    [PUse 0%nat; PCmp 0%nat 10; PUnuse 0%nat; PUse 4%nat; PCmp 4%nat 15; PUse 6%nat; PCmp 6%nat 16; PCmp 6%nat 15;
     PUnuse 6%nat; PUnuse 4%nat] /\
  ptr (pin_trace DSet (path_probes Z false (fst (number ex_tree 0%nat)) 15) (Some 1%nat)) =
    [PUse 0%nat; PCmp 0%nat 10; PUse 4%nat; PCmp 4%nat 15; PUnuse 4%nat; PUnuse 0%nat] /\
  model_obs2 ex_tree 6 15 = [(10, [0%nat]); (5, [0; 1]%nat); (6, [0; 1; 3]%nat); (10, [0%nat]); (15, [0; 4]%nat);
                             (16, [0; 4; 6]%nat); (15, [0; 4; 6]%nat)] /\
  model_obs2 ex_tree 17 20 = [(10, [0%nat]); (15, [0; 4]%nat); (16, [0; 4; 6]%nat)].
Proof. vm_compute. repeat split. Qed.
Print Assumptions C05_pins_released.
Print Assumptions C05_pins_protect.
Print Assumptions C05_write_path_pinned.
Print Assumptions C05_range_root_pinned.
Print Assumptions C05_pins_comparisons.
Print Assumptions C05_pins_failure_cuts_short.
Print Assumptions C05_range2_released.
Print Assumptions C05_range2_protect.
Print Assumptions C05_lookup_pins_bounded.
Print Assumptions C05_range_pins_bounded.
