(* C05 -- evicting nodes from the object cache never changes behaviour.
   (a) Between operations: a stored, unchanged node that is evicted is
   reloaded from its record.  The theorems say that after every insert and
   delete every stored unchanged node still EQUALS its record (synced), so
   eviction + reload is the identity at any point between operations (with
   C04_reader for the whole tree).  Guard as in C04 (finding F16).
   (b) Inside an operation (pins of the C extension, sweeps from inside key
   comparisons, failing operations leaving nothing pinned): checked by the
   harness on both implementations; not modelled (see DESIGN.md). *)
From Coq Require Import ZArith List Bool.
From BT Require Import Model.RTree Model.TreeSpec Model.Persist Model.PersistSpec Proofs.SyncProofs.
Import ListNotations.
Open Scope Z_scope.

Section C05.
Variable V : Type.

Theorem C05_sync_set_partial :
  forall (isC : bool) (veq : V -> V -> bool) (vs : bool) (ml mi fresh : nat) (t : tree V) (k : Z) (v : V)
         (ifunset : bool) (p : pstate) (s : store V),
  (1 <= ml)%nat -> (2 <= mi)%nat -> Inv V ml mi t -> ids_ok V fresh t ->
  no_embed_below V true (p_stored p) t ->
  (forall x, mem x (p_stored p) = true -> (x < fresh)%nat) ->
  synced V t p s ->
  let r := tset V veq vs ml mi fresh t k v ifunset in
  synced V (s_tree r) (apply_events isC p (s_ev r)) s.
Proof. exact (SyncProofs.sync_set V). Qed.

Theorem C05_sync_del_partial :
  forall (isC : bool) (ml mi fresh : nat) (t : tree V) (k : Z) (r : dres V) (p : pstate) (s : store V),
  (1 <= ml)%nat -> (2 <= mi)%nat -> Inv V ml mi t -> ids_ok V fresh t ->
  no_embed_below V true (p_stored p) t ->
  synced V t p s -> tdel V t k = Some r ->
  synced V (d_tree r) (apply_events isC p (d_ev r)) s.
Proof. exact (SyncProofs.sync_del V). Qed.

End C05.
Print Assumptions C05_sync_set_partial.
Print Assumptions C05_sync_del_partial.
