(* C11 -- multiunion is the exact sorted union for every integer-key family.
   Model: Model/Sort.v (radixsort_int with its byte passes and the signed /
   unsigned most-significant-byte order, quicksort with explicit stack,
   median-of-3 and insertion sort below 26, uniq, the 800-element switch, the
   gathering of operands; Python: insertion into a Set). *)
From Coq Require Import ZArith List Bool Sorted Permutation.
From BT Require Import Model.Sort Model.SortSpec Proofs.SortProofs Proofs.QuickProofs.
Import ListNotations.
Open Scope Z_scope.

(* LSB-first radix sort sorts every list of keys of the type's range, signed
   and unsigned, 1..8 bytes (4 and 8 are the widths in use) *)
Theorem C11_radix : forall (signed : bool) (nbytes : nat) (l : list Z),
  (1 <= nbytes)%nat ->
  Forall (in_range signed nbytes) l ->
  ascending (radixsort signed nbytes l) /\ Permutation l (radixsort signed nbytes l).
Proof. exact SortProofs.radixsort_correct. Qed.
Print Assumptions C11_radix.

Theorem C11_uniq : forall l : list Z, ascending l ->
  strictly_ascending (uniq l) /\ forall k, In k (uniq l) <-> In k l.
Proof. exact SortProofs.uniq_correct. Qed.
Print Assumptions C11_uniq.

(* the in-place quicksort (pending-slice stack, median of three, sentinel
   partition, insertion sort for slices of at most 25) sorts *)
Theorem C11_quicksort : forall l : list Z,
  ascending (quicksort l) /\ Permutation l (quicksort l).
Proof. exact QuickProofs.quicksort_correct. Qed.
Print Assumptions C11_quicksort.

(* C: gather, sort (either algorithm, on both sides of the 800 switch), uniq *)
Theorem C11_multiunion_c : forall (signed : bool) (nbytes : nat) (operands : list (list Z)),
  (1 <= nbytes)%nat ->
  Forall (in_range signed nbytes) (concat operands) ->
  sorted_union operands (multiunion_c signed nbytes operands).
Proof. exact (SortProofs.multiunion_c_correct QuickProofs.quicksort_correct). Qed.
Print Assumptions C11_multiunion_c.

(* Python: repeated insertion *)
Theorem C11_multiunion_py : forall operands : list (list Z),
  sorted_union operands (multiunion_py operands).
Proof. exact SortProofs.multiunion_py_correct. Qed.
Print Assumptions C11_multiunion_py.

(* hence both implementations return the same set *)
Theorem C11_same : forall (signed : bool) (nbytes : nat) (operands : list (list Z)),
  (1 <= nbytes)%nat ->
  Forall (in_range signed nbytes) (concat operands) ->
  multiunion_c signed nbytes operands = multiunion_py operands.
Proof. exact (SortProofs.multiunion_same QuickProofs.quicksort_correct). Qed.
Print Assumptions C11_same.

Example C11_example :
  multiunion_c false 4 [[4294967295; 7]; [2147483648; 7; 0]] = [0; 7; 2147483648; 4294967295] /\
  radixsort true 4 [5; -2147483648; 2147483647; -1; 0] = [-2147483648; -1; 0; 5; 2147483647].
Proof. vm_compute. split; reflexivity. Qed.
