(* C08 -- concurrent transactions merge, serialize or conflict.
   Proved here: the read/write footprint on which optimistic concurrency
   control rests -- every write declares each interior node it descended
   through as a read dependency (also when it ends in KeyError), pure reads
   declare nothing and change nothing; what a write changes is announced (the
   footprint theorems of C04) and a leaf conflict is resolved exactly (C07).
   The outcome statement (second commit conflicts, or the stored tree is sound
   with serial or disjointly merged contents) is proved for containers that are
   one leaf (C08_leaf_outcome) and for trees when both transactions are
   leaf-local (C08_tree_outcome); transactions that split, empty or unlink
   leaves are checked by the harness on pairs of transactions in both commit
   orders, not proved (see DESIGN.md). *)
From Coq Require Import ZArith List Bool.
From BT Require Import Model.RTree Model.TreeSpec Model.TreeRun Model.Persist Model.PersistSpec Proofs.SyncProofs.
From BT Require Import Model.Merge Model.MergeSpec Proofs.OutcomeProofs.
From BT Require Import Model.Concurrent.
From BT Require Proofs.ConcurrentProofs.
Import ListNotations.
Open Scope Z_scope.

Theorem C08_writes_declare_reads_set :
  forall (V : Type) (veq : V -> V -> bool) (vs : bool) (ml mi fresh : nat) (t : tree V) (k : Z) (v : V) (ifunset : bool) (i : nat),
  is_leaf V t = false ->
  In i (path_ids V t k) -> In (ERead i) (s_ev (tset V veq vs ml mi fresh t k v ifunset)).
Proof. exact SyncProofs.set_declares_reads. Qed.
Print Assumptions C08_writes_declare_reads_set.

Theorem C08_writes_declare_reads_del :
  forall (V : Type) (t : tree V) (k : Z) (i : nat),
  In i (path_ids V t k) ->
  match tdel V t k with
  | Some r => In (ERead i) (d_ev r)
  | None => In (ERead i) (read_path V t k)
  end.
Proof. exact SyncProofs.del_declares_reads. Qed.
Print Assumptions C08_writes_declare_reads_del.

(* lookups, range queries, iteration, len, bool, isdisjoint: no event, no change *)
Definition is_read (c : call) : bool :=
  match c with
  | CGet _ | CGetD _ _ | CItem _ | CIn _ | CHasKey _ | CLen | CBool | CKeys | CItems | CIsdisjoint _ => true
  | _ => false
  end.
Theorem C08_reads_declare_nothing :
  forall (vsame isC : bool) (ml mi : nat) (s : st) (c : call),
  is_read c = true -> fst (step vsame isC ml mi s c) = s.
Proof. exact SyncProofs.reads_are_silent. Qed.
Print Assumptions C08_reads_declare_nothing.

(* The outcome clause for a container that is ONE leaf (Bucket, Set, or a tree
   in its embedded single-leaf form, by C07_tree_level): when the second
   transaction's record (n) meets the first one's committed record (c) over
   the common original (o), the commit either raises a conflict or stores the
   original with both change sets applied, and these change sets are disjoint --
   no third outcome (no other error, no exhausted fuel).  If one of the two
   changed nothing the result is the other one's state (the serial result). *)
Theorem C08_leaf_outcome :
  forall (V : Type) (veq : V -> V -> bool), (forall a b, veq a b = true <-> a = b) ->
  forall o c n : leafstate V,
  keys_sorted V (fst o) /\ keys_sorted V (fst c) /\ keys_sorted V (fst n) ->
  (exists p1 p2 p3 reason, bucket_resolve V veq o c n = RConflict p1 p2 p3 reason) \/
  (exists r, bucket_resolve V veq o c n = ROk (r, snd o) /\
             merged V (fst o) (fst c) (fst n) r /\ r <> [] /\
             (forall k, ~ (touched V (fst o) (fst c) k /\ touched V (fst o) (fst n) k))).
Proof. exact OutcomeProofs.leaf_outcome. Qed.
Print Assumptions C08_leaf_outcome.

Theorem C08_leaf_outcome_serial :
  forall (V : Type) (veq : V -> V -> bool), (forall a b, veq a b = true <-> a = b) ->
  forall (o c n : leafstate V) r,
  keys_sorted V (fst o) /\ keys_sorted V (fst c) /\ keys_sorted V (fst n) ->
  bucket_resolve V veq o c n = ROk (r, snd o) ->
  (fst n = fst o -> forall k, lookup V r k = lookup V (fst c) k) /\
  (fst c = fst o -> forall k, lookup V r k = lookup V (fst n) k).
Proof. exact OutcomeProofs.leaf_outcome_serial. Qed.
Print Assumptions C08_leaf_outcome_serial.

(* The outcome clause for a TREE of several leaves and two LEAF-LOCAL
   transactions (Model/Concurrent.v: each replaces the items of some leaves; no
   split, no leaf emptied, every key stays in its leaf's interval, so interior
   nodes are only read and never change).  commit2 is the commit of the second
   transaction after the first, object by object as ZODB does it.  Either it is a
   conflict error, or the stored tree is sound (same leaves and intervals, every
   leaf sorted, non-empty, inside its interval) and its contents are the original
   with both change sets applied, the two change sets being disjoint.  *)
Theorem C08_tree_outcome : forall base t1 t2,
  base_ok base -> txn_ok base t1 -> txn_ok base t2 ->
  match commit2 base t1 t2 with
  | None => True
  | Some final =>
      base_ok final /\ map skel final = map skel base /\
      merged Z (contents_of base) (contents_of (apply base t1))
               (contents_of (apply base t2)) (contents_of final) /\
      (forall k, ~ (touched Z (contents_of base) (contents_of (apply base t1)) k /\
                    touched Z (contents_of base) (contents_of (apply base t2)) k))
  end.
Proof. exact ConcurrentProofs.tree_outcome. Qed.
Print Assumptions C08_tree_outcome.

(* ... and it is a conflict EXACTLY when some leaf both changed has overlapping
   change sets or lost its smallest key (so the theorem above is not satisfied
   by a protocol that always refuses) *)
Theorem C08_tree_commit_exact : forall base t1 t2,
  base_ok base -> txn_ok base t1 -> txn_ok base t2 ->
  ((exists final, commit2 base t1 t2 = Some final) <->
   forall l c n, In l base -> change t1 (lid l) = Some c -> change t2 (lid l) = Some n ->
                 ConcurrentProofs.resolvable (litems l) c n).
Proof. exact ConcurrentProofs.tree_commit_exact. Qed.
Print Assumptions C08_tree_commit_exact.

(* transactions on different leaves always commit: the serial result *)
Theorem C08_different_leaves : forall base t1 t2,
  (forall l, In l base -> change t1 (lid l) = None \/ change t2 (lid l) = None) ->
  commit2 base t1 t2 = Some (apply (apply base t1) t2).
Proof. exact ConcurrentProofs.different_leaves_commit. Qed.
Print Assumptions C08_different_leaves.

(* the leaf sequence of every tree the API produces is such a base *)
Theorem C08_api_trees_are_bases : forall ml mi (t : tree Z),
  Inv Z ml mi t -> NoDup (map fst (leaves Z t)) -> base_ok (tree_leaves None None t).
Proof. exact ConcurrentProofs.inv_base_ok. Qed.
Print Assumptions C08_api_trees_are_bases.

Example C08_example :
  let t := Node 0%nat [(0, Node 1%nat [(0, Leaf 2%nat [(1, 0)]); (3, Leaf 3%nat [(3, 0)])]); (5, Node 4%nat [(5, Leaf 5%nat [(5, 0)])])] in
  path_ids Z t 3 = [0%nat; 1%nat] /\
  s_ev (tset Z Z.eqb false 2 2 6 t 3 9 false) = [ERead 0; ERead 1; EChanged 3].
Proof. vm_compute. split; reflexivity. Qed.
