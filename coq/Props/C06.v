(* C06 -- serialized state round-trips.
   pickle / copy.deepcopy of a container that is not in a database: no object
   has an oid, every object is written once with the state __getstate__ gives
   (a node whose only child is a leaf EMBEDS that leaf's state).  dump_all []
   is that set of records; the reader of C04 rebuilds the copy.
   Under the guard (only the root has a single leaf child) the copy has the
   same contents and satisfies the stored invariant; without it the statement
   is false for the faithful model and for both implementations (finding F16c).
   That C and Python emit byte-identical pickles and load each other's pickles
   is the differential part of the check (harness). *)
From Coq Require Import ZArith List Bool.
From BT Require Import Model.RTree Model.TreeSpec Model.Check Model.Persist Model.PersistSpec Proofs.PickleProofs.
Import ListNotations.
Open Scope Z_scope.

Theorem C06_pickle_roundtrip_partial :
  forall (V : Type) (ml mi : nat) (t : tree V),
  Inv V ml mi t -> NoDup (ids V t) -> no_embed_below V true [] t ->
  let s := dump_all V [] t in
  let fuel := S (length (ids V t)) in
  load_items V fuel s (tid V t) = contents V t /\
  reader_iter V fuel s (tid V t) = contents V t /\
  exists p, load V fuel s (tid V t) = Some p /\ inv_stored p.
Proof. exact PickleProofs.pickle_roundtrip. Qed.
Print Assumptions C06_pickle_roundtrip_partial.

Theorem C06_refuted :
  exists t : tree Z,
    Inv Z 1 2 t /\ NoDup (ids Z t) /\
    forall q, load Z 20 (dump_all Z [] t) (tid Z t) = Some q -> pcheck_fn q = false.
Proof. exact PickleProofs.pickle_refuted. Qed.
Print Assumptions C06_refuted.
