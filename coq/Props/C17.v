(* C17 -- running out of memory inside an operation is reported, not corrupting.
   Model/Alloc.v: a bucket's two vectors over an explicit block heap in which a
   successful realloc always releases the old block; the n-th allocation
   request fails.  sound b h: no field refers to a released block, the vectors
   are distinct blocks, nothing leaks, len <= size. *)
From Coq Require Import List Bool Arith.
From BT Require Import Model.Alloc Proofs.AllocProofs Model.AllocTree Proofs.AllocTreeProofs.
Import ListNotations.

Definition kind_ok (noval : bool) (b : bucket) : Prop :=
  if noval then b_vals b = None else (b_vals b = None <-> b_keys b = None).

(* Bucket_grow, for EVERY placement of the failing request (any countdown in h) *)
Theorem C17_grow : forall (noval : bool) (b : bucket) (h : heap),
  sound b h -> kind_ok noval b ->
  match bucket_grow noval b h with
  | ROk b' h' => sound b' h' /\ kind_ok noval b' /\ b_len b' = b_len b /\ b_size b < b_size b'
  | RMem b' h' => sound b' h' /\ kind_ok noval b' /\ b_len b' = b_len b
  end.
Proof. exact AllocProofs.grow_sound. Qed.
Print Assumptions C17_grow.

(* inserting a new key: MemoryError leaves the previous length, success adds one; never dangling *)
Theorem C17_insert : forall (noval : bool) (b : bucket) (h : heap),
  sound b h -> kind_ok noval b ->
  match bucket_insert noval b h with
  | ROk b' h' => sound b' h' /\ kind_ok noval b' /\ b_len b' = S (b_len b)
  | RMem b' h' => sound b' h' /\ kind_ok noval b' /\ b_len b' = b_len b
  end.
Proof. exact AllocProofs.insert_sound. Qed.
Print Assumptions C17_insert.

(* any number of inserts from the empty bucket, the failing request anywhere *)
Theorem C17_inserts : forall (noval : bool) (n fail_at : nat),
  match inserts noval n empty_bucket (heap0 fail_at) with
  | ROk b h => sound b h /\ b_len b = n
  | RMem b h => sound b h /\ b_len b < n
  end.
Proof. exact AllocProofs.inserts_sound. Qed.
Print Assumptions C17_inserts.

(* the realloc pair of __setstate__ / fromBytes *)
Theorem C17_resize : forall (n : nat) (b : bucket) (h : heap),
  sound b h -> kind_ok false b -> b_size b <> 0 ->
  match bucket_resize n b h with
  | ROk b' h' => sound b' h' /\ n <= b_size b' /\ b_len b' = b_len b
  | RMem b' h' => sound b' h' /\ b_len b' = b_len b
  end.
Proof. exact AllocProofs.resize_sound. Qed.
Print Assumptions C17_resize.

Example C17_example :
  match inserts false 17 empty_bucket (heap0 4) with
  | RMem b h => (b_len b, b_size b, b_keys b, b_vals b, live h) = (16, 16, Some 2, Some 1, [2; 1])
  | ROk _ _ => False
  end.
Proof. vm_compute. reflexivity. Qed.

(* ---------------- interior nodes (Model/AllocTree.v) ---------------- *)
(* BTree_grow on a non-empty node: the vector preamble (realloc, or malloc of
   two slots), the new sibling object, the vectors child._split allocates
   (bucket_split: keys [, values]; BTree_split: data).  For EVERY placement of
   the failing request -- object creations included -- every live block is
   owned exactly once afterwards (frame fr = the rest of the tree), the node's
   len stays within its size, and MemoryError leaves len as it was. *)
Theorem C17_tree_grow : forall (k : ckind) (n : node) (h : heap) (fr : list nat),
  acct h fr (dblocks n) -> node_ok n ->
  match tree_grow k n h with
  | GOk n' e h' => acct h' fr (dblocks n' ++ e) /\ node_ok n' /\ n_len n' = S (n_len n) /\ 2 <= length e
  | GMem n' h' => acct h' fr (dblocks n') /\ node_ok n' /\ n_len n' = n_len n
  end.
Proof. exact AllocTreeProofs.tree_grow_sound. Qed.
Print Assumptions C17_tree_grow.

(* the first insert into an empty tree *)
Theorem C17_tree_first : forall (n : node) (h : heap) (fr : list nat),
  acct h fr (dblocks n) -> node_ok n -> n_len n = 0 ->
  match tree_first n h with
  | GOk n' e h' => acct h' fr (dblocks n' ++ e) /\ node_ok n' /\ n_len n' = 1 /\ length e = 1
  | GMem n' h' => acct h' fr (dblocks n') /\ node_ok n' /\ n_len n' = 0
  end.
Proof. exact AllocTreeProofs.tree_first_sound. Qed.
Print Assumptions C17_tree_first.

(* BTree_split_root: on MemoryError either nothing happened or the root holds,
   as its only child, the node that took its vector; no block is lost or
   referenced after release in any case *)
Theorem C17_split_root : forall (n : node) (h : heap) (fr : list nat),
  acct h fr (dblocks n) -> node_ok n ->
  match split_root n h with
  | SOk r child e h' => acct h' fr (dblocks r ++ child ++ e) /\ node_ok r /\ n_len r = 2 /\
                        child = hd 0 child :: dblocks n
  | SMem r child h' => acct h' fr (dblocks r ++ child) /\ node_ok r /\
                       ((r = n /\ child = []) \/ (n_len r = 1 /\ child = hd 0 child :: dblocks n))
  end.
Proof. exact AllocTreeProofs.split_root_sound. Qed.
Print Assumptions C17_split_root.

(* a root whose vector is full, the sibling's second vector failing: the keys
   vector and the sibling object are released, the enlarged root vector stays *)
Example C17_tree_example :
  match tree_grow (KBucket false) (mkN (Some 0) 2 2) (mkH [0] 1 4) with
  | GMem n h => (n_data n, n_size n, n_len n, live h) = (Some 1, 4, 2, [1])
  | GOk _ _ _ => False
  end.
Proof. vm_compute. reflexivity. Qed.
