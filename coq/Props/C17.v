From Coq Require Import ZArith List.
From BT Require Import Model.Alloc.
