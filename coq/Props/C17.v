(* C17 -- running out of memory inside an operation is reported, not corrupting.
   Model/Alloc.v: a bucket's two vectors over an explicit block heap in which a
   successful realloc always releases the old block; the n-th allocation
   request fails.  sound b h: no field refers to a released block, the vectors
   are distinct blocks, nothing leaks, len <= size. *)
From Coq Require Import List Bool Arith.
From BT Require Import Model.Alloc Proofs.AllocProofs.
Import ListNotations.

Definition kind_ok (noval : bool) (b : bucket) : Prop :=
  if noval then b_vals b = None else (b_vals b = None <-> b_keys b = None).

(* Bucket_grow, for EVERY placement of the failing request (any countdown in h) *)
Theorem C17_grow : forall (noval : bool) (b : bucket) (h : heap),
  sound b h -> kind_ok noval b ->
  match bucket_grow noval b h with
  | ROk b' h' => sound b' h' /\ kind_ok noval b' /\ b_len b' = b_len b /\ b_size b < b_size b'
  | RMem b' h' => sound b' h' /\ kind_ok noval b' /\ b_len b' = b_len b
  end.
Proof. exact AllocProofs.grow_sound. Qed.
Print Assumptions C17_grow.

(* inserting a new key: MemoryError leaves the previous length, success adds one; never dangling *)
Theorem C17_insert : forall (noval : bool) (b : bucket) (h : heap),
  sound b h -> kind_ok noval b ->
  match bucket_insert noval b h with
  | ROk b' h' => sound b' h' /\ kind_ok noval b' /\ b_len b' = S (b_len b)
  | RMem b' h' => sound b' h' /\ kind_ok noval b' /\ b_len b' = b_len b
  end.
Proof. exact AllocProofs.insert_sound. Qed.
Print Assumptions C17_insert.

(* any number of inserts from the empty bucket, the failing request anywhere *)
Theorem C17_inserts : forall (noval : bool) (n fail_at : nat),
  match inserts noval n empty_bucket (heap0 fail_at) with
  | ROk b h => sound b h /\ b_len b = n
  | RMem b h => sound b h /\ b_len b < n
  end.
Proof. exact AllocProofs.inserts_sound. Qed.
Print Assumptions C17_inserts.

(* the realloc pair of __setstate__ / fromBytes *)
Theorem C17_resize : forall (n : nat) (b : bucket) (h : heap),
  sound b h -> kind_ok false b -> b_size b <> 0 ->
  match bucket_resize n b h with
  | ROk b' h' => sound b' h' /\ n <= b_size b' /\ b_len b' = b_len b
  | RMem b' h' => sound b' h' /\ b_len b' = b_len b
  end.
Proof. exact AllocProofs.resize_sound. Qed.
Print Assumptions C17_resize.

Example C17_example :
  match inserts false 17 empty_bucket (heap0 4) with
  | RMem b h => (b_len b, b_size b, b_keys b, b_vals b, live h) = (16, 16, Some 2, Some 1, [2; 1])
  | ROk _ _ => False
  end.
Proof. vm_compute. reflexivity. Qed.
