(* C12 -- weightedUnion / weightedIntersection follow the documented formula.
   [wrap] is the wrap-around of the value type in which the C extension
   computes; Python computes in unbounded integers ([wrap] = identity). *)
From Coq Require Import ZArith List Bool Sorted.
From BT Require Import Model.SetOps Model.SetOpsSpec Proofs.SetOpsProofs.
From BT Require Import Proofs.WrapProofs.
Import ListNotations.
Open Scope Z_scope.

Definition idz (x : Z) : Z := x.

(* at least one mapping: result is a mapping over the union of the keys with
   value v1*w1 + v2*w2 (absent = 0, set member = 1), returned weight 1 *)
Theorem C12_wunion_map : forall (a b : operand) (w1 w2 : Z),
  wf_operand a -> wf_operand b -> is_container a -> is_container b ->
  is_map a = true \/ is_map b = true ->
  exists r, m_wunion idz a b w1 w2 = (1, SMap r) /\ ssorted (map fst r) /\
    (forall k, In k (map fst r) <-> In k (okeys a) \/ In k (okeys b)) /\
    (forall k, In k (map fst r) -> zlookup r k = Some (oval a k * w1 + oval b k * w2)).
Proof. exact SetOpsProofs.wunion_map_spec. Qed.
Print Assumptions C12_wunion_map.

Theorem C12_winter_map : forall (a b : operand) (w1 w2 : Z),
  wf_operand a -> wf_operand b -> is_container a -> is_container b ->
  is_map a = true \/ is_map b = true ->
  exists r, m_winter idz a b w1 w2 = (1, SMap r) /\ ssorted (map fst r) /\
    (forall k, In k (map fst r) <-> In k (okeys a) /\ In k (okeys b)) /\
    (forall k, In k (map fst r) -> zlookup r k = Some (oval a k * w1 + oval b k * w2)).
Proof. exact SetOpsProofs.winter_map_spec. Qed.
Print Assumptions C12_winter_map.

(* both sets: a plain set; weight 1 for the union, w1 + w2 for the intersection *)
Theorem C12_both_sets : forall (la lb : list Z) (w1 w2 : Z), ssorted la -> ssorted lb ->
  (exists r, m_wunion idz (OSet la) (OSet lb) w1 w2 = (1, SSet r) /\ ssorted r /\
             forall k, In k r <-> In k la \/ In k lb) /\
  (exists r, m_winter idz (OSet la) (OSet lb) w1 w2 = (w1 + w2, SSet r) /\ ssorted r /\
             forall k, In k r <-> In k la /\ In k lb).
Proof. exact SetOpsProofs.weighted_both_sets. Qed.
Print Assumptions C12_both_sets.

(* None operands short-circuit *)
Theorem C12_none : forall (wrap : Z -> Z) (a b : operand) (w1 w2 : Z),
  m_wunion wrap ONone ONone w1 w2 = (0, SNone) /\ m_winter wrap ONone ONone w1 w2 = (0, SNone) /\
  (b <> ONone -> m_wunion wrap ONone b w1 w2 = (w2, SOp2) /\ m_winter wrap ONone b w1 w2 = (w2, SOp2)) /\
  (a <> ONone -> m_wunion wrap a ONone w1 w2 = (w1, SOp1) /\ m_winter wrap a ONone w1 w2 = (w1, SOp1)).
Proof. exact SetOpsProofs.weighted_none. Qed.
Print Assumptions C12_none.

(* the C extension computes in the value type: as long as no product or sum
   leaves the range on which [wrap] is the identity, it returns the same
   container as the exact formula *)
Theorem C12_no_overflow : forall (wrap : Z -> Z) (lo hi : Z) (a b : operand) (w1 w2 : Z),
  (forall x, lo <= x <= hi -> wrap x = x) ->
  (forall k v, In (k, v) (stream 1 a) ->
     lo <= v * w1 <= hi /\ lo <= v * w2 <= hi) ->
  (forall k v, In (k, v) (stream 1 b) ->
     lo <= v * w1 <= hi /\ lo <= v * w2 <= hi) ->
  (forall k v v', In (k, v) (stream 1 a) -> In (k, v') (stream 1 b) ->
     lo <= v * w1 + v' * w2 <= hi /\ lo <= v' * w1 + v * w2 <= hi) ->
  lo <= w1 + w2 <= hi ->
  m_wunion wrap a b w1 w2 = m_wunion idz a b w1 w2 /\
  m_winter wrap a b w1 w2 = m_winter idz a b w1 w2.
Proof. exact SetOpsProofs.no_overflow. Qed.
Print Assumptions C12_no_overflow.

Example C12_example :
  m_wunion idz (OMap [(1, 10); (4, 40)]) (OSet [4; 9]) 2 3 = (1, SMap [(1, 20); (4, 83); (9, 3)]) /\
  m_winter idz (OSet [4; 9]) (OMap [(1, 10); (4, 40)]) 2 3 = (1, SMap [(4, 122)]).
Proof. vm_compute. split; reflexivity. Qed.

(* what happens OUTSIDE that range (finding F10a, recorded not repaired): the C
   flavour stores the exact v1*w1 + v2*w2 reduced modulo 2^w into the value
   type -- wrap-around, precisely, and nothing else; in particular the stored
   value is always inside the type (the Python flavour stores the exact value,
   F10b).  kind 1/2 = signed 32/64 bit, 3/4 = unsigned. *)
Theorem C12_overflow_is_reduction : forall kind w1 w2 v1 v2 : Z,
  wmerge (wrap_of kind) w1 w2 v1 v2 = wrap_of kind (v1 * w1 + v2 * w2).
Proof. exact WrapProofs.wmerge_is_reduction. Qed.
Print Assumptions C12_overflow_is_reduction.

Theorem C12_reduction_in_type : forall x : Z,
  (- 2^31 <= wrap_of 1 x < 2^31) /\ (- 2^63 <= wrap_of 2 x < 2^63) /\
  (0 <= wrap_of 3 x < 2^32) /\ (0 <= wrap_of 4 x < 2^64).
Proof. exact WrapProofs.wrap_of_range. Qed.
Print Assumptions C12_reduction_in_type.
