(* C01 -- containers behave as a sorted map / sorted set.
   Model: Model/RTree.v (the B+tree with the code's split / unlink policies),
   Model/TreeRun.v (the public API as a step function, and the reference
   sorted association list Spec).  Proofs: Proofs/TreeProofs.v. *)
From Coq Require Import ZArith List Bool Sorted.
From BT Require Import Model.RTree Model.TreeSpec Model.TreeRun Proofs.TreeProofs.
Import ListNotations.
Open Scope Z_scope.

(* every history of public calls, on every legal node-size setting: each
   return value / KeyError and the final ordered contents equal those of the
   reference sorted map driven by the same calls *)
Theorem C01_refines : forall (vsame iand_rebuilds : bool) (ml mi : nat) (calls : list call),
  (1 <= ml)%nat -> (2 <= mi)%nat ->
  (iand_rebuilds = true -> set_calls_ok calls = true) ->   (* &= is a set operation: see TreeRun.v *)
  let '(s, outs) := run vsame iand_rebuilds ml mi init calls in
  let '(m, outs') := Spec.run [] calls in
  outs = outs' /\ contents Z (t_tree s) = m.
Proof. exact TreeProofs.run_refines. Qed.
Print Assumptions C01_refines.

(* keys stay unique and ascending in every reachable state *)
Theorem C01_keys_sorted : forall (vsame iand_rebuilds : bool) (ml mi : nat) (calls : list call),
  (1 <= ml)%nat -> (2 <= mi)%nat ->
  StronglySorted Z.lt (map fst (contents Z (t_tree (fst (run vsame iand_rebuilds ml mi init calls))))).
Proof. exact TreeProofs.run_sorted. Qed.
Print Assumptions C01_keys_sorted.

(* a call that raises KeyError leaves the contents unchanged *)
Theorem C01_raise_preserves : forall (vsame iand_rebuilds : bool) (ml mi : nat) (calls : list call) (c : call),
  (1 <= ml)%nat -> (2 <= mi)%nat ->
  let s := fst (run vsame iand_rebuilds ml mi init calls) in
  snd (step vsame iand_rebuilds ml mi s c) = OKeyError ->
  contents Z (t_tree (fst (step vsame iand_rebuilds ml mi s c))) = contents Z (t_tree s).
Proof. exact TreeProofs.keyerror_preserves. Qed.
Print Assumptions C01_raise_preserves.

(* a Bucket / Set is one leaf: its set and delete are the reference insert / remove *)
Theorem C01_leaf : forall (vsame : bool) (l : list (Z * Z)) (k v : Z) (ifunset : bool),
  StronglySorted Z.lt (map fst l) ->
  (let '(l', st, rv) := lset Z Z.eqb vsame l k v ifunset in
   l' = (if ifunset && Spec.mem l k then l else Spec.insert l k v) /\
   (st = St1 <-> Spec.mem l k = false) /\
   rv = (if ifunset then match Spec.lookup l k with Some x => x | None => v end else v)) /\
  (match ldel Z l k with
   | Some (l', x) => Spec.lookup l k = Some x /\ l' = Spec.remove l k
   | None => Spec.lookup l k = None
   end).
Proof. exact TreeProofs.leaf_refines. Qed.
Print Assumptions C01_leaf.

Example C01_example :
  let '(s, outs) := run false false 2 2 init
      [CSet 5 50; CSet 1 10; CSet 9 90; CSet 3 30; CSet 7 70; CDel 1; CPop 4; CItems; CPopitem] in
  outs = [ONone; ONone; ONone; ONone; ONone; ONone; OKeyError;
          OItems [KV 3 30; KV 5 50; KV 7 70; KV 9 90]; OKV 3 30] /\
  contents Z (t_tree s) = [(5, 50); (7, 70); (9, 90)] /\ depth Z (t_tree s) = 1%nat.
Proof. vm_compute. repeat split. Qed.
