(* C02 -- range searches and lazy key/value/item sequences are exact.
   Model: Model/Range.v (C: BTree_findRangeEnd / BTree_rangeSearch /
   BTree_maxminKey / BTreeItems_seek+length; Python: _findbucket,
   Bucket._range, _TreeItems.__iter__, minKey, maxKey), over the RTree model.
   All theorems quantify over EVERY tree satisfying the stored invariant
   wf_search (stale separators, single-child roots, one-key leaves allowed),
   not only over trees reachable through the API. *)
From Coq Require Import ZArith List Bool.
From BT Require Import Model.RTree Model.TreeSpec Model.Range Proofs.RangeProofs.
From BT Require Import Model.TreeSpec Model.Persist Model.Chain Proofs.ChainWalkProofs.
Import ListNotations.
Open Scope Z_scope.

Section C02.
Variable V : Type.

Theorem C02_c_range : forall (t : tree V) (lo hi : option Z) (exlo exhi : bool),
  wf_search V t = true ->
  c_range V t lo hi exlo exhi = RSpec.range (contents V t) lo hi exlo exhi.
Proof. exact (RangeProofs.c_range_correct V). Qed.

Theorem C02_py_range : forall (t : tree V) (lo hi : option Z) (exlo exhi : bool),
  wf_search V t = true ->
  py_range V t lo hi exlo exhi = RSpec.range (contents V t) lo hi exlo exhi.
Proof. exact (RangeProofs.py_range_correct V). Qed.

Theorem C02_c_minmax : forall (t : tree V) (b : option Z), wf_search V t = true ->
  c_minkey V t b = RSpec.min_key (contents V t) b /\
  c_maxkey V t b = RSpec.max_key (contents V t) b.
Proof. exact (RangeProofs.c_minmax_correct V). Qed.

Theorem C02_py_minmax : forall (t : tree V) (b : option Z), wf_search V t = true ->
  py_minkey V t b = RSpec.min_key (contents V t) b /\
  py_maxkey V t b = RSpec.max_key (contents V t) b.
Proof. exact (RangeProofs.py_minmax_correct V). Qed.

(* the lazy sequence of the C extension: its length, and ANY run of index
   operations (the finger moves right and left from wherever the previous
   operation left it) agree with the list *)
Theorem C02_c_lazyseq : forall (t : tree V) (lo hi : option Z) (exlo exhi : bool) (idx : list Z),
  wf_search V t = true ->
  let l := RSpec.range (contents V t) lo hi exlo exhi in
  (match c_items_of V t lo hi exlo exhi with
   | Some s => c_len V (lseq V t) s = length l
   | None => l = []
   end) /\
  c_index_run V (lseq V t) (c_items_of V t lo hi exlo exhi) idx = map (RSpec.index l) idx.
Proof. exact (RangeProofs.c_lazyseq_correct V). Qed.

(* every tree reachable through the API satisfies the hypothesis *)
Theorem C02_reachable_wf : forall (ml mi : nat) (t : tree V),
  Inv V ml mi t -> wf_search V t = true.
Proof. exact (RangeProofs.inv_wf_search V). Qed.

End C02.

Print Assumptions C02_c_range.
Print Assumptions C02_py_range.
Print Assumptions C02_c_minmax.
Print Assumptions C02_py_minmax.
Print Assumptions C02_c_lazyseq.
Print Assumptions C02_reachable_wf.

(* non-vacuity: a thinned tree with a single-child root, a one-key end leaf and a stale separator *)
Example C02_example :
  let t := Node 0%nat [(0, Node 0%nat [(0, Leaf 0%nat [(9, 1)]); (10, Leaf 0%nat [(11, 2)]); (12, Leaf 0%nat [(12, 3); (14, 4)])])] in
  wf_search Z t = true /\
  c_range Z t None None true false = [(11, 2); (12, 3); (14, 4)] /\
  py_range Z t None (Some 12) true true = [(11, 2)] /\
  c_minkey Z t (Some 10) = Some 11 /\ py_minkey Z t (Some 10) = Some 11 /\
  c_maxkey Z t (Some 10) = Some 9 /\ py_maxkey Z t (Some 10) = Some 9.
Proof. vm_compute. repeat split. Qed.

(* Model/Range.v describes the C range search and the finger of a lazy sequence
   by POSITIONS (leaf index, offset) in the in-order leaf sequence, where the
   code follows pointers: firstbucket, current->next, PreviousBucket(current,
   firstbucket), BTree_lastBucket.  On the pointer heap of Model/Chain.v --
   which every history of public calls keeps in step with the tree
   (C03_chain_calls) -- those walks are exactly position 0, position + 1,
   position - 1 and the last position. *)
Theorem C02_pointer_walks : forall (V : Type) (ml mi : nat),
  (1 <= ml)%nat -> (2 <= mi)%nat ->
  forall (t : tree V) (h : Chain.heap),
  Inv V ml mi t -> NoDup (ids V t) -> Chain.chain_ok V h t ->
  let l := Persist.leaf_ids V t in
  Chain.fb h (tid V t) = nth_error l 0 /\
  (forall j x, nth_error l j = Some x -> Chain.nx h x = nth_error l (S j)) /\
  (forall j x y f, nth_error l 0 = Some f -> nth_error l j = Some x -> nth_error l (S j) = Some y ->
                   Chain.prev_bucket (length l) h f y = Some x) /\
  (forall f, nth_error l 0 = Some f -> Chain.prev_bucket (length l) h f f = None) /\
  (l <> [] -> nth_error l (length l - 1) = Some (last_leaf_id V t)).
Proof. exact ChainWalkProofs.pointer_walks_are_positions. Qed.
Print Assumptions C02_pointer_walks.
