(* C16 -- the C extension accounts for every reference.
   Model/Refs.v: a leaf's slots with INCREF/DECREF where the C code has them;
   the theorem says the net references taken equal the slots holding the
   object plus the references handed to the caller -- after ANY history. *)
From Coq Require Import ZArith List Bool.
From BT Require Import Model.Refs Proofs.RefsProofs.
Import ListNotations.
Open Scope Z_scope.

Theorem C16_owned : forall (ops : list rop) (x : nat),
  rc (rrun ops) x = owned (rrun ops) x.
Proof. exact RefsProofs.rc_is_owned. Qed.
Print Assumptions C16_owned.

(* in particular: after clear (or deleting everything) and once the caller has
   released what it was given, nothing is held any more *)
Theorem C16_released : forall (ops : list rop) (x : nat),
  slots (rrun ops) = [] -> held (rrun ops) = [] -> rc (rrun ops) x = 0.
Proof. exact RefsProofs.all_released. Qed.
Print Assumptions C16_released.

(* a stored object is never released while stored: its count is at least the number of slots *)
Theorem C16_never_freed_while_stored : forall (ops : list rop) (x : nat),
  In x (map (fun e => snd (fst e)) (slots (rrun ops))) \/ In x (map snd (slots (rrun ops))) ->
  1 <= rc (rrun ops) x.
Proof. exact RefsProofs.stored_is_held. Qed.
Print Assumptions C16_never_freed_while_stored.

Example C16_example :
  let s := rrun [RSet 1 10 20 false; RSet 2 11 20 false; RSet 1 10 21 false; RPop; RDel 7] in
  (rc s 10%nat, rc s 11%nat, rc s 20%nat, rc s 21%nat, held s) = (1, 1, 1, 0, [10%nat]).
Proof. vm_compute. reflexivity. Qed.
