(* C19 -- Length is a conflict-free counter.  Statements only; proofs are in
   Proofs/LengthProofs.v; the definitions L_* are regenerated from
   src/BTrees/Length.py by harness/translate.py on every run. *)
From Coq Require Import ZArith List Permutation.
From BT Require Import Gen.LengthGen Proofs.LengthProofs.
Import ListNotations.
Open Scope Z_scope.

(* two concurrent updates of a common original: original + both changes *)
Theorem C19_no_lost_update : forall self old a b : Z,
  L_resolve self old (old + a) (old + b) = old + a + b.
Proof. exact resolve_no_lost_update. Qed.
Print Assumptions C19_no_lost_update.

(* independent of the order of the two *)
Theorem C19_order_independent : forall self old s1 s2 : Z,
  L_resolve self old s1 s2 = L_resolve self old s2 s1.
Proof. exact resolve_comm. Qed.
Print Assumptions C19_order_independent.

(* any number of concurrent increments/decrements, committed in any order *)
Theorem C19_n_way : forall (self old : Z) (ds ds' : list Z),
  Permutation ds ds' ->
  commit_all self old old ds = old + zsum ds /\
  commit_all self old old ds' = commit_all self old old ds.
Proof. exact n_way. Qed.
Print Assumptions C19_n_way.

(* set / change / call / __init__ / pickling behave as a plain integer cell *)
Theorem C19_cell : forall v x d w : Z,
  L_call (L_set v x) = x /\
  L_call (L_change v d) = v + d /\
  L_call (L_init w x) = x /\
  L_setstate w (L_getstate v) = v /\
  L_call v = v /\
  L_init_default = 0 /\ L_default = 0.
Proof. exact cell_laws. Qed.
Print Assumptions C19_cell.

(* non-vacuity: a concrete instance *)
Example C19_example :
  L_resolve 0 10 (10 + 3) (10 + (-5)) = 8 /\ commit_all 0 10 10 [1; -2; 7] = 16.
Proof. vm_compute. split; reflexivity. Qed.
